// Minimal JSON value + writer (no dependencies).
pub enum J {
    Null,
    Bool(bool),
    Int(i128),
    Str(String),
    Arr(Vec<J>),
    Obj(Vec<(String, J)>),
}

impl J {
    pub fn obj() -> J {
        J::Obj(Vec::new())
    }
    pub fn arr(v: Vec<J>) -> J {
        J::Arr(v)
    }
    pub fn s(s: &str) -> J {
        J::Str(s.to_string())
    }
    pub fn i(i: i128) -> J {
        J::Int(i)
    }
    pub fn b(b: bool) -> J {
        J::Bool(b)
    }
    pub fn bytes(b: &[u8]) -> J {
        J::Arr(b.iter().map(|x| J::Int(*x as i128)).collect())
    }
    pub fn set(&mut self, k: &str, v: J) {
        if let J::Obj(o) = self {
            o.push((k.to_string(), v));
        }
    }
    pub fn has(&self, k: &str) -> bool {
        if let J::Obj(o) = self {
            o.iter().any(|(kk, _)| kk == k)
        } else {
            false
        }
    }
    pub fn write(&self, out: &mut String) {
        match self {
            J::Null => out.push_str("null"),
            J::Bool(b) => out.push_str(if *b { "true" } else { "false" }),
            J::Int(i) => out.push_str(&i.to_string()),
            J::Str(s) => write_str(s, out),
            J::Arr(v) => {
                out.push('[');
                for (i, x) in v.iter().enumerate() {
                    if i != 0 {
                        out.push(',');
                    }
                    x.write(out);
                }
                out.push(']');
            }
            J::Obj(o) => {
                out.push('{');
                for (i, (k, v)) in o.iter().enumerate() {
                    if i != 0 {
                        out.push(',');
                    }
                    write_str(k, out);
                    out.push(':');
                    v.write(out);
                }
                out.push('}');
            }
        }
    }
}

fn write_str(s: &str, out: &mut String) {
    out.push('"');
    for c in s.chars() {
        match c {
            '"' => out.push_str("\\\""),
            '\\' => out.push_str("\\\\"),
            '\n' => out.push_str("\\n"),
            '\r' => out.push_str("\\r"),
            '\t' => out.push_str("\\t"),
            c if (c as u32) < 0x20 => {
                out.push_str(&format!("\\u{:04x}", c as u32));
            }
            c => out.push(c),
        }
    }
    out.push('"');
}

// vmir: rustc_private driver that dumps type-checked program facts (ADTs, impls, statics,
// MIR bodies with resolved callees, type walks) as one JSON file per crate.
//
// Used as RUSTC_WORKSPACE_WRAPPER: argv = [vmir, <path to rustc>, rustc args...].
// Environment:
//   VMIR_OUT    directory receiving <crate>-<kind>-<pid>.json (required to dump anything)
//   VMIR_NONCE  opaque string copied into every fact file (freshness check)
//   VMIR_CFG    configuration label copied into every fact file
//   VMIR_ROOTS  comma separated def-path suffixes of ADTs whose type closure is walked
#![feature(rustc_private)]

extern crate rustc_abi;
extern crate rustc_data_structures;
extern crate rustc_driver;
extern crate rustc_hir;
extern crate rustc_interface;
extern crate rustc_middle;
extern crate rustc_session;
extern crate rustc_span;

mod json;

use std::collections::{BTreeMap, BTreeSet, HashSet};
use std::fmt::Write as _;

use json::J;
use rustc_driver::Compilation;
use rustc_hir::def::DefKind;
use rustc_hir::def_id::{DefId, LOCAL_CRATE};
use rustc_interface::interface::Compiler;
use rustc_middle::mir::{
    self, AggregateKind, AssertKind, BasicBlockData, Body, BorrowKind, CastKind, Const,
    ConstValue, Operand, Place, ProjectionElem, Rvalue, StatementKind, TerminatorKind,
};
use rustc_middle::ty::print::{with_crate_prefix, with_no_trimmed_paths};
use rustc_middle::ty::{self, GenericArgsRef, Instance, Ty, TyCtxt, TypeVisitableExt, TypingEnv};
use rustc_span::{ExpnKind, MacroKind, Span};

struct Cb;

impl rustc_driver::Callbacks for Cb {
    fn after_analysis<'tcx>(&mut self, _c: &Compiler, tcx: TyCtxt<'tcx>) -> Compilation {
        if let Ok(out) = std::env::var("VMIR_OUT") {
            dump(tcx, &out);
        }
        Compilation::Continue
    }
}

fn main() {
    let mut args: Vec<String> = std::env::args().collect();
    // wrapper mode: argv[1] is the real rustc path
    if args.len() > 1 && (args[1].ends_with("rustc") || args[1].contains("/rustc")) {
        args.remove(1);
    }
    let mut cb = Cb;
    rustc_driver::run_compiler(&args, &mut cb);
}

static CRATE_NAME: std::sync::OnceLock<String> = std::sync::OnceLock::new();

/// `with_crate_prefix!` prints local items as `crate::a::b`; replace by the crate's name so that
/// paths are identical whether an item is seen from its own crate or from a dependent one.
fn fix_crate(s: String) -> String {
    if !s.contains("crate::") {
        return s;
    }
    let name = CRATE_NAME.get().map(|s| s.as_str()).unwrap_or("crate");
    let mut out = String::with_capacity(s.len() + 8);
    let b = s.as_bytes();
    let mut i = 0;
    while i < b.len() {
        if s[i..].starts_with("crate::")
            && (i == 0 || !(b[i - 1].is_ascii_alphanumeric() || b[i - 1] == b'_'))
        {
            out.push_str(name);
            out.push_str("::");
            i += 7;
        } else {
            let ch = s[i..].chars().next().unwrap();
            out.push(ch);
            i += ch.len_utf8();
        }
    }
    out
}

fn tystr<'tcx>(t: Ty<'tcx>) -> String {
    fix_crate(with_crate_prefix!(with_no_trimmed_paths!(format!("{}", t))))
}

fn path_str<'tcx>(tcx: TyCtxt<'tcx>, did: DefId) -> String {
    fix_crate(with_crate_prefix!(with_no_trimmed_paths!(tcx.def_path_str(did))))
}

struct Ctx<'tcx> {
    tcx: TyCtxt<'tcx>,
}

fn span_json<'tcx>(tcx: TyCtxt<'tcx>, sp: Span) -> J {
    let sm = tcx.sess.source_map();
    let mut o = J::obj();
    let exp = sp.from_expansion();
    let use_sp = if exp { sp.source_callsite() } else { sp };
    let loc = sm.lookup_char_pos(use_sp.lo());
    let fname = format!("{}", loc.file.name.prefer_local_unconditionally());
    o.set("file", J::s(&fname));
    o.set("line", J::i(loc.line as i128));
    if exp {
        o.set("exp", J::b(true));
        let d = sp.ctxt().outer_expn_data();
        if let ExpnKind::Macro(k, name) = d.kind {
            o.set("macro", J::s(&format!("{:?}:{}", k, name)));
        } else if let ExpnKind::Desugaring(k) = d.kind {
            o.set("desugar", J::s(&format!("{:?}", k)));
        }
    }
    o
}

fn is_derive_span(sp: Span) -> Option<String> {
    if !sp.from_expansion() {
        return None;
    }
    let mut cur = sp;
    for _ in 0..8 {
        let d = cur.ctxt().outer_expn_data();
        if let ExpnKind::Macro(MacroKind::Derive, name) = d.kind {
            return Some(name.to_string());
        }
        if !d.call_site.from_expansion() {
            break;
        }
        cur = d.call_site;
    }
    None
}

impl<'tcx> Ctx<'tcx> {
    fn place(&self, body: &Body<'tcx>, p: &Place<'tcx>) -> J {
        let tcx = self.tcx;
        let mut o = J::obj();
        o.set("l", J::i(p.local.as_u32() as i128));
        let mut projs = Vec::new();
        let mut cur_ty = mir::PlaceTy::from_ty(body.local_decls[p.local].ty);
        for elem in p.projection.iter() {
            let j = match elem {
                ProjectionElem::Deref => J::s("*"),
                ProjectionElem::Field(f, fty) => {
                    let mut fo = J::obj();
                    fo.set("f", J::i(f.as_u32() as i128));
                    // resolve the field name from the owner type
                    let owner = cur_ty.ty;
                    let mut name = None;
                    match owner.kind() {
                        ty::Adt(adt, _) => {
                            let v = match cur_ty.variant_index {
                                Some(vi) => adt.variant(vi),
                                None => {
                                    if adt.is_enum() {
                                        // should not happen without downcast
                                        adt.variants().iter().next().unwrap()
                                    } else {
                                        adt.non_enum_variant()
                                    }
                                }
                            };
                            if let Some(fd) = v.fields.get(f) {
                                name = Some(fd.name.to_string());
                            }
                            fo.set("o", J::s(&path_str(tcx, adt.did())));
                            if adt.is_enum() {
                                fo.set("v", J::s(&v.name.to_string()));
                            }
                        }
                        ty::Closure(did, _) => {
                            fo.set("o", J::s(&path_str(tcx, *did)));
                            fo.set("closure", J::b(true));
                        }
                        ty::Tuple(_) => {
                            fo.set("o", J::s("(tuple)"));
                        }
                        _ => {
                            fo.set("o", J::s(&tystr(owner)));
                        }
                    }
                    if let Some(n) = name {
                        fo.set("n", J::s(&n));
                    }
                    fo.set("t", J::s(&tystr(fty)));
                    fo
                }
                ProjectionElem::Index(l) => {
                    let mut fo = J::obj();
                    fo.set("i", J::i(l.as_u32() as i128));
                    fo
                }
                ProjectionElem::ConstantIndex { offset, min_length, from_end } => {
                    let mut fo = J::obj();
                    fo.set("ci", J::i(offset as i128));
                    fo.set("min", J::i(min_length as i128));
                    fo.set("from_end", J::b(from_end));
                    fo
                }
                ProjectionElem::Subslice { from, to, from_end } => {
                    let mut fo = J::obj();
                    fo.set("sub", J::arr(vec![J::i(from as i128), J::i(to as i128)]));
                    fo.set("from_end", J::b(from_end));
                    fo
                }
                ProjectionElem::Downcast(name, vi) => {
                    let mut fo = J::obj();
                    fo.set("dc", J::i(vi.as_u32() as i128));
                    let n = match name {
                        Some(s) => s.to_string(),
                        None => match cur_ty.ty.kind() {
                            ty::Adt(adt, _) => adt.variant(vi).name.to_string(),
                            _ => String::new(),
                        },
                    };
                    fo.set("n", J::s(&n));
                    fo
                }
                ProjectionElem::OpaqueCast(t) => {
                    let mut fo = J::obj();
                    fo.set("opaque", J::s(&tystr(t)));
                    fo
                }
                ProjectionElem::UnwrapUnsafeBinder(t) => {
                    let mut fo = J::obj();
                    fo.set("unwrap_binder", J::s(&tystr(t)));
                    fo
                }
            };
            projs.push(j);
            cur_ty = cur_ty.projection_ty(tcx, elem);
        }
        o.set("p", J::arr(projs));
        o
    }

    fn generic_args(&self, args: GenericArgsRef<'tcx>) -> J {
        let mut v = Vec::new();
        for a in args.iter() {
            if let Some(t) = a.as_type() {
                v.push(J::s(&tystr(t)));
            } else if let Some(c) = a.as_const() {
                v.push(J::s(&fix_crate(with_crate_prefix!(with_no_trimmed_paths!(format!("const {}", c))))));
            }
        }
        J::arr(v)
    }

    fn fn_def(&self, caller: DefId, did: DefId, args: GenericArgsRef<'tcx>) -> J {
        let tcx = self.tcx;
        let mut o = J::obj();
        o.set("path", J::s(&path_str(tcx, did)));
        o.set("krate", J::s(tcx.crate_name(did.krate).as_str()));
        o.set("args", self.generic_args(args));
        if let Some(name) = tcx.opt_item_name(did) {
            o.set("name", J::s(name.as_str()));
        }
        // trait method?
        if let Some(assoc) = tcx.opt_associated_item(did) {
            match assoc.container {
                ty::AssocContainer::Trait => {
                    let tr = tcx.parent(did);
                    o.set("trait", J::s(&path_str(tcx, tr)));
                    if let Some(st) = args.get(0).and_then(|a| a.as_type()) {
                        o.set("self_ty", J::s(&tystr(st)));
                    }
                }
                ty::AssocContainer::TraitImpl(_) | ty::AssocContainer::InherentImpl => {
                    let imp = tcx.parent(did);
                    let st = tcx.type_of(imp).instantiate_identity().skip_norm_wip();
                    o.set("impl_self_ty", J::s(&tystr(st)));
                    if let Some(tr) = tcx.impl_opt_trait_ref(imp) {
                        let tr = tr.instantiate_identity().skip_norm_wip();
                        o.set("impl_trait", J::s(&path_str(tcx, tr.def_id)));
                    }
                }
            }
        }
        // try to resolve to a concrete instance
        let env = TypingEnv::post_analysis(tcx, caller);
        if !args.iter().any(|a| a.has_escaping_bound_vars()) {
            if let Ok(Some(inst)) = Instance::try_resolve(tcx, env, did, args) {
                let rd = inst.def_id();
                if rd != did {
                    let mut r = J::obj();
                    r.set("path", J::s(&path_str(tcx, rd)));
                    r.set("krate", J::s(tcx.crate_name(rd.krate).as_str()));
                    r.set("args", self.generic_args(inst.args));
                    r.set("kind", J::s(&format!("{:?}", std::mem::discriminant(&inst.def)).chars().take(0).collect::<String>()));
                    r.set("def", J::s(instance_kind_name(&inst.def)));
                    o.set("resolved", r);
                } else {
                    o.set("def", J::s(instance_kind_name(&inst.def)));
                }
            }
        }
        o
    }

    fn constant(&self, caller: DefId, c: &mir::ConstOperand<'tcx>) -> J {
        let tcx = self.tcx;
        let mut o = J::obj();
        let ty = c.const_.ty();
        o.set("ty", J::s(&tystr(ty)));
        if let ty::FnDef(did, args) = ty.kind() {
            o.set("fn", self.fn_def(caller, *did, args));
            return o;
        }
        let env = TypingEnv::post_analysis(tcx, caller);
        // evaluate if possible
        let val: Option<ConstValue> = match c.const_ {
            Const::Val(v, _) => Some(v),
            Const::Unevaluated(uv, _) => {
                o.set("uneval", J::s(&path_str(tcx, uv.def)));
                if uv.promoted.is_some() {
                    o.set("promoted", J::i(uv.promoted.unwrap().as_u32() as i128));
                }
                c.const_.eval(tcx, env, c.span).ok()
            }
            Const::Ty(_, _) => c.const_.eval(tcx, env, c.span).ok(),
        };
        if let Some(v) = val {
            match v {
                ConstValue::Scalar(s) => {
                    if let Ok(si) = s.try_to_scalar_int() {
                        let size = si.size();
                        let signed = matches!(ty.kind(), ty::Int(_));
                        if signed {
                            o.set("int", J::i(si.to_int(size)));
                        } else {
                            let u = si.to_uint(size);
                            if u <= i128::MAX as u128 {
                                o.set("int", J::i(u as i128));
                            } else {
                                o.set("uint_str", J::s(&u.to_string()));
                            }
                        }
                        if let ty::Float(_) = ty.kind() {
                            let bits = si.to_uint(size);
                            if size.bytes() == 8 {
                                o.set("float", J::s(&format!("{:?}", f64::from_bits(bits as u64))));
                            } else if size.bytes() == 4 {
                                o.set("float", J::s(&format!("{:?}", f32::from_bits(bits as u32))));
                            }
                        }
                        if ty.is_char() {
                            if let Some(ch) = char::from_u32(si.to_uint(size) as u32) {
                                o.set("char", J::s(&ch.to_string()));
                            }
                        }
                    } else {
                        o.set("ptr", J::b(true));
                        // pointer to bytes (e.g. &[u8; N], &'static [u8;N])
                        if let Some(bytes) = self.try_bytes(ty, v) {
                            o.set("bytes", J::bytes(&bytes));
                        } else if let mir::interpret::Scalar::Ptr(ptr, _) = s {
                            // reference to a small scalar-like constant (e.g. &U31): its value
                            if let ty::Ref(_, inner, _) = ty.kind() {
                                if let Ok(layout) = tcx.layout_of(env.as_query_input(*inner)) {
                                    let n = layout.size.bytes() as usize;
                                    if n > 0 && n <= 8 && !inner.is_ref() {
                                        let (prov, off) = ptr.prov_and_relative_offset();
                                        if let mir::interpret::GlobalAlloc::Memory(a) =
                                            tcx.global_alloc(prov.alloc_id())
                                        {
                                            let a = a.inner();
                                            let start = off.bytes() as usize;
                                            let all = a
                                                .inspect_with_uninit_and_ptr_outside_interpreter(0..a.len());
                                            if start + n <= all.len()
                                                && a.provenance().ptrs().is_empty()
                                            {
                                                let mut b8 = [0u8; 8];
                                                b8[..n].copy_from_slice(&all[start..start + n]);
                                                o.set("int", J::i(u64::from_le_bytes(b8) as i128));
                                                o.set("deref", J::b(true));
                                            }
                                        }
                                    }
                                }
                            }
                        }
                    }
                }
                ConstValue::ZeroSized => {
                    o.set("zst", J::b(true));
                }
                ConstValue::Slice { .. } | ConstValue::Indirect { .. } => {
                    if let Some(bytes) = self.try_bytes(ty, v) {
                        if ty.peel_refs().is_str() {
                            o.set("str", J::s(&String::from_utf8_lossy(&bytes)));
                        } else {
                            o.set("bytes", J::bytes(&bytes));
                        }
                    }
                }
            }
        }
        if !o.has("int") && !o.has("str") && !o.has("bytes") {
            o.set("dbg", J::s(&fix_crate(with_crate_prefix!(with_no_trimmed_paths!(format!("{}", c.const_))))));
        }
        o
    }

    /// Reads a `&[u8]`/`&str` fat pointer stored at `start` in allocation `id` and returns the
    /// bytes it points to.
    fn read_fat_slice(&self, id: mir::interpret::AllocId, start: usize) -> Option<Vec<u8>> {
        let tcx = self.tcx;
        if let mir::interpret::GlobalAlloc::Memory(a) = tcx.global_alloc(id) {
            let a = a.inner();
            let all = a.inspect_with_uninit_and_ptr_outside_interpreter(0..a.len());
            if start + 16 <= all.len() {
                let mut lenb = [0u8; 8];
                lenb.copy_from_slice(&all[start + 8..start + 16]);
                let n = u64::from_le_bytes(lenb) as usize;
                for (o, p2) in a.provenance().ptrs().iter() {
                    if o.bytes() as usize == start {
                        if let mir::interpret::GlobalAlloc::Memory(b) = tcx.global_alloc(p2.alloc_id()) {
                            let b = b.inner();
                            let mut ob = [0u8; 8];
                            ob.copy_from_slice(&all[start..start + 8]);
                            let boff = u64::from_le_bytes(ob) as usize;
                            let ball = b.inspect_with_uninit_and_ptr_outside_interpreter(0..b.len());
                            if boff + n <= ball.len() {
                                return Some(ball[boff..boff + n].to_vec());
                            }
                        }
                    }
                }
            }
        }
        None
    }

    fn try_bytes(&self, ty: Ty<'tcx>, v: ConstValue) -> Option<Vec<u8>> {
        let tcx = self.tcx;
        let inner = ty.peel_refs();
        match v {
            ConstValue::Slice { .. } => {
                if inner.is_str() || matches!(inner.kind(), ty::Slice(t) if *t == tcx.types.u8) {
                    return v.try_get_slice_bytes_for_diagnostics(tcx).map(|b| b.to_vec());
                }
                None
            }
            ConstValue::Scalar(mir::interpret::Scalar::Ptr(ptr, _)) => {
                // &&[u8] / &&str (a promoted reference to a slice constant): the allocation holds a
                // fat pointer (data pointer with provenance, then the length)
                if inner.is_str() || matches!(inner.kind(), ty::Slice(t) if *t == tcx.types.u8) {
                    let (prov, off) = ptr.prov_and_relative_offset();
                    return self.read_fat_slice(prov.alloc_id(), off.bytes() as usize);
                }
                // &[u8; N]
                if let ty::Array(et, len) = inner.kind() {
                    if *et == tcx.types.u8 {
                        let n = len.try_to_target_usize(tcx)? as usize;
                        let (prov, off) = ptr.prov_and_relative_offset();
                        let alloc = tcx.global_alloc(prov.alloc_id());
                        if let mir::interpret::GlobalAlloc::Memory(a) = alloc {
                            let a = a.inner();
                            let start = off.bytes() as usize;
                            let all = a.inspect_with_uninit_and_ptr_outside_interpreter(0..a.len());
                            if start + n <= all.len() {
                                return Some(all[start..start + n].to_vec());
                            }
                        }
                    }
                }
                None
            }
            ConstValue::Indirect { alloc_id, offset } => {
                if inner.is_str() || matches!(inner.kind(), ty::Slice(t) if *t == tcx.types.u8) {
                    return self.read_fat_slice(alloc_id, offset.bytes() as usize);
                }
                if let ty::Array(et, len) = inner.kind() {
                    if *et == tcx.types.u8 {
                        let n = len.try_to_target_usize(tcx)? as usize;
                        if let mir::interpret::GlobalAlloc::Memory(a) = tcx.global_alloc(alloc_id) {
                            let a = a.inner();
                            let start = offset.bytes() as usize;
                            let all = a.inspect_with_uninit_and_ptr_outside_interpreter(0..a.len());
                            if start + n <= all.len() {
                                return Some(all[start..start + n].to_vec());
                            }
                        }
                    }
                }
                None
            }
            _ => None,
        }
    }

    fn operand(&self, caller: DefId, body: &Body<'tcx>, op: &Operand<'tcx>) -> J {
        let mut o = J::obj();
        match op {
            Operand::Copy(p) => {
                o.set("c", self.place(body, p));
            }
            Operand::Move(p) => {
                o.set("m", self.place(body, p));
            }
            Operand::Constant(c) => {
                o.set("k", self.constant(caller, c));
            }
            #[allow(unreachable_patterns)]
            other => {
                o.set("other", J::s(&format!("{:?}", other)));
            }
        }
        o
    }

    fn rvalue(&self, caller: DefId, body: &Body<'tcx>, rv: &Rvalue<'tcx>) -> J {
        let tcx = self.tcx;
        let mut o = J::obj();
        match rv {
            Rvalue::Use(op, _) => {
                o.set("k", J::s("use"));
                o.set("op", self.operand(caller, body, op));
            }
            Rvalue::Repeat(op, n) => {
                o.set("k", J::s("repeat"));
                o.set("op", self.operand(caller, body, op));
                o.set("n", J::s(&format!("{}", n)));
            }
            Rvalue::Ref(_, bk, p) => {
                o.set("k", J::s("ref"));
                o.set(
                    "bk",
                    J::s(match bk {
                        BorrowKind::Shared => "shared",
                        BorrowKind::Fake(_) => "fake",
                        BorrowKind::Mut { .. } => "mut",
                    }),
                );
                o.set("place", self.place(body, p));
            }
            Rvalue::ThreadLocalRef(did) => {
                o.set("k", J::s("tls"));
                o.set("path", J::s(&path_str(tcx, *did)));
            }
            Rvalue::RawPtr(kind, p) => {
                o.set("k", J::s("rawptr"));
                o.set("mutbl", J::s(&format!("{:?}", kind)));
                o.set("place", self.place(body, p));
            }
            Rvalue::Cast(kind, op, ty) => {
                o.set("k", J::s("cast"));
                o.set(
                    "ck",
                    J::s(&match kind {
                        CastKind::IntToInt => "IntToInt".to_string(),
                        CastKind::FloatToInt => "FloatToInt".to_string(),
                        CastKind::FloatToFloat => "FloatToFloat".to_string(),
                        CastKind::IntToFloat => "IntToFloat".to_string(),
                        CastKind::PtrToPtr => "PtrToPtr".to_string(),
                        CastKind::FnPtrToPtr => "FnPtrToPtr".to_string(),
                        CastKind::Transmute => "Transmute".to_string(),
                        CastKind::Subtype => "Subtype".to_string(),
                        other => format!("{:?}", other),
                    }),
                );
                o.set("op", self.operand(caller, body, op));
                o.set("ty", J::s(&tystr(*ty)));
                o.set("from_ty", J::s(&tystr(op.ty(body, tcx))));
            }
            Rvalue::BinaryOp(bop, ops) => {
                o.set("k", J::s("binop"));
                o.set("op", J::s(&format!("{:?}", bop)));
                o.set("a", self.operand(caller, body, &ops.0));
                o.set("b", self.operand(caller, body, &ops.1));
                o.set("ty", J::s(&tystr(ops.0.ty(body, tcx))));
            }
            Rvalue::UnaryOp(uop, op) => {
                o.set("k", J::s("unop"));
                o.set("op", J::s(&format!("{:?}", uop)));
                o.set("a", self.operand(caller, body, op));
                o.set("ty", J::s(&tystr(op.ty(body, tcx))));
            }
            Rvalue::Discriminant(p) => {
                o.set("k", J::s("discr"));
                o.set("place", self.place(body, p));
                o.set("ty", J::s(&tystr(p.ty(body, tcx).ty)));
            }
            Rvalue::Aggregate(kind, ops) => {
                o.set("k", J::s("agg"));
                match &**kind {
                    AggregateKind::Array(t) => {
                        o.set("agg", J::s("array"));
                        o.set("ty", J::s(&tystr(*t)));
                    }
                    AggregateKind::Tuple => {
                        o.set("agg", J::s("tuple"));
                    }
                    AggregateKind::Adt(did, vi, args, _, active) => {
                        o.set("agg", J::s("adt"));
                        let adt = tcx.adt_def(*did);
                        o.set("adt", J::s(&path_str(tcx, *did)));
                        o.set("targs", self.generic_args(args));
                        let v = adt.variant(*vi);
                        o.set("variant", J::s(&v.name.to_string()));
                        o.set("vi", J::i(vi.as_u32() as i128));
                        let names: Vec<J> = if let Some(a) = active {
                            vec![J::s(&v.fields[*a].name.to_string())]
                        } else {
                            v.fields.iter().map(|f| J::s(&f.name.to_string())).collect()
                        };
                        o.set("fields", J::arr(names));
                    }
                    AggregateKind::Closure(did, args) => {
                        o.set("agg", J::s("closure"));
                        o.set("closure", J::s(&path_str(tcx, *did)));
                        let _ = args;
                    }
                    other => {
                        o.set("agg", J::s("other"));
                        o.set("dbg", J::s(&format!("{:?}", other)));
                    }
                }
                let opsj: Vec<J> = ops.iter().map(|x| self.operand(caller, body, x)).collect();
                o.set("ops", J::arr(opsj));
            }
            Rvalue::CopyForDeref(p) => {
                o.set("k", J::s("use"));
                let mut op = J::obj();
                op.set("c", self.place(body, p));
                o.set("op", op);
                o.set("deref_copy", J::b(true));
            }
            Rvalue::WrapUnsafeBinder(op, ty) => {
                o.set("k", J::s("wrap_binder"));
                o.set("op", self.operand(caller, body, op));
                o.set("ty", J::s(&tystr(*ty)));
            }
            #[allow(unreachable_patterns)]
            other => {
                o.set("k", J::s("other"));
                o.set("dbg", J::s(&format!("{:?}", other)));
            }
        }
        o
    }

    fn block(&self, caller: DefId, body: &Body<'tcx>, bb: &BasicBlockData<'tcx>) -> J {
        let tcx = self.tcx;
        let mut o = J::obj();
        let mut stmts = Vec::new();
        for st in &bb.statements {
            match &st.kind {
                StatementKind::Assign(b) => {
                    let (p, rv) = &**b;
                    let mut s = J::obj();
                    s.set("lhs", self.place(body, p));
                    s.set("rv", self.rvalue(caller, body, rv));
                    s.set("sp", span_json(tcx, st.source_info.span));
                    stmts.push(s);
                }
                StatementKind::SetDiscriminant { place, variant_index } => {
                    let mut s = J::obj();
                    s.set("setdiscr", self.place(body, place));
                    s.set("vi", J::i(variant_index.as_u32() as i128));
                    s.set("sp", span_json(tcx, st.source_info.span));
                    stmts.push(s);
                }
                StatementKind::Intrinsic(i) => {
                    let mut s = J::obj();
                    s.set("intrinsic", J::s(&format!("{:?}", i)));
                    s.set("sp", span_json(tcx, st.source_info.span));
                    stmts.push(s);
                }
                _ => {}
            }
        }
        o.set("stmts", J::arr(stmts));
        if bb.is_cleanup {
            o.set("cleanup", J::b(true));
        }
        let term = bb.terminator();
        let mut t = J::obj();
        t.set("sp", span_json(tcx, term.source_info.span));
        match &term.kind {
            TerminatorKind::Goto { target } => {
                t.set("k", J::s("goto"));
                t.set("t", J::i(target.as_u32() as i128));
            }
            TerminatorKind::SwitchInt { discr, targets } => {
                t.set("k", J::s("switch"));
                t.set("op", self.operand(caller, body, discr));
                t.set("ty", J::s(&tystr(discr.ty(body, tcx))));
                let mut vals = Vec::new();
                let mut tgts = Vec::new();
                for (v, bbx) in targets.iter() {
                    if v <= i128::MAX as u128 {
                        vals.push(J::i(v as i128));
                    } else {
                        vals.push(J::s(&v.to_string()));
                    }
                    tgts.push(J::i(bbx.as_u32() as i128));
                }
                t.set("vals", J::arr(vals));
                t.set("targets", J::arr(tgts));
                t.set("otherwise", J::i(targets.otherwise().as_u32() as i128));
            }
            TerminatorKind::UnwindResume => {
                t.set("k", J::s("resume"));
            }
            TerminatorKind::UnwindTerminate(_) => {
                t.set("k", J::s("abort"));
            }
            TerminatorKind::Return => {
                t.set("k", J::s("return"));
            }
            TerminatorKind::Unreachable => {
                t.set("k", J::s("unreachable"));
            }
            TerminatorKind::Drop { place, target, unwind, .. } => {
                t.set("k", J::s("drop"));
                t.set("place", self.place(body, place));
                t.set("t", J::i(target.as_u32() as i128));
                if let mir::UnwindAction::Cleanup(u) = unwind {
                    t.set("unwind", J::i(u.as_u32() as i128));
                }
            }
            TerminatorKind::Call { func, args, destination, target, unwind, fn_span, .. } => {
                t.set("k", J::s("call"));
                t.set("func", self.operand(caller, body, func));
                let a: Vec<J> = args.iter().map(|x| self.operand(caller, body, &x.node)).collect();
                t.set("args", J::arr(a));
                let at: Vec<J> =
                    args.iter().map(|x| J::s(&tystr(x.node.ty(body, tcx)))).collect();
                t.set("arg_tys", J::arr(at));
                t.set("dest", self.place(body, destination));
                t.set("dest_ty", J::s(&tystr(destination.ty(body, tcx).ty)));
                if let Some(tg) = target {
                    t.set("t", J::i(tg.as_u32() as i128));
                }
                if let mir::UnwindAction::Cleanup(u) = unwind {
                    t.set("unwind", J::i(u.as_u32() as i128));
                }
                t.set("fn_sp", span_json(tcx, *fn_span));
            }
            TerminatorKind::TailCall { func, args, .. } => {
                t.set("k", J::s("tailcall"));
                t.set("func", self.operand(caller, body, func));
                let a: Vec<J> = args.iter().map(|x| self.operand(caller, body, &x.node)).collect();
                t.set("args", J::arr(a));
            }
            TerminatorKind::Assert { cond, expected, msg, target, unwind } => {
                t.set("k", J::s("assert"));
                t.set("cond", self.operand(caller, body, cond));
                t.set("expected", J::b(*expected));
                t.set("t", J::i(target.as_u32() as i128));
                if let mir::UnwindAction::Cleanup(u) = unwind {
                    t.set("unwind", J::i(u.as_u32() as i128));
                }
                let mut m = J::obj();
                match &**msg {
                    AssertKind::BoundsCheck { len, index } => {
                        m.set("kind", J::s("BoundsCheck"));
                        m.set("len", self.operand(caller, body, len));
                        m.set("index", self.operand(caller, body, index));
                    }
                    AssertKind::Overflow(op, a, b) => {
                        m.set("kind", J::s("Overflow"));
                        m.set("op", J::s(&format!("{:?}", op)));
                        m.set("a", self.operand(caller, body, a));
                        m.set("b", self.operand(caller, body, b));
                    }
                    AssertKind::OverflowNeg(a) => {
                        m.set("kind", J::s("OverflowNeg"));
                        m.set("a", self.operand(caller, body, a));
                    }
                    AssertKind::DivisionByZero(a) => {
                        m.set("kind", J::s("DivisionByZero"));
                        m.set("a", self.operand(caller, body, a));
                    }
                    AssertKind::RemainderByZero(a) => {
                        m.set("kind", J::s("RemainderByZero"));
                        m.set("a", self.operand(caller, body, a));
                    }
                    other => {
                        m.set("kind", J::s("Other"));
                        m.set("dbg", J::s(&format!("{:?}", other)));
                    }
                }
                t.set("msg", m);
            }
            TerminatorKind::FalseEdge { real_target, .. } => {
                t.set("k", J::s("goto"));
                t.set("t", J::i(real_target.as_u32() as i128));
            }
            TerminatorKind::FalseUnwind { real_target, .. } => {
                t.set("k", J::s("goto"));
                t.set("t", J::i(real_target.as_u32() as i128));
            }
            other => {
                t.set("k", J::s("other"));
                t.set("dbg", J::s(&format!("{:?}", other)));
            }
        }
        o.set("term", t);
        o
    }

    fn body_json(&self, did: DefId, body: &Body<'tcx>) -> J {
        let tcx = self.tcx;
        let mut o = J::obj();
        o.set("arg_count", J::i(body.arg_count as i128));
        let mut locals = Vec::new();
        for (_l, d) in body.local_decls.iter_enumerated() {
            let mut lo = J::obj();
            lo.set("ty", J::s(&tystr(d.ty)));
            if d.mutability.is_mut() {
                lo.set("mut", J::b(true));
            }
            locals.push(lo);
        }
        // debug names
        let mut dbg = Vec::new();
        for vdi in &body.var_debug_info {
            let mut d = J::obj();
            d.set("name", J::s(vdi.name.as_str()));
            match &vdi.value {
                mir::VarDebugInfoContents::Place(p) => {
                    d.set("place", self.place(body, p));
                }
                mir::VarDebugInfoContents::Const(c) => {
                    d.set("const", self.constant(did, c));
                }
            }
            if let Some(a) = vdi.argument_index {
                d.set("arg", J::i(a as i128));
            }
            dbg.push(d);
        }
        o.set("locals", J::arr(locals));
        o.set("debug", J::arr(dbg));
        let mut blocks = Vec::new();
        for (_bb, data) in body.basic_blocks.iter_enumerated() {
            blocks.push(self.block(did, body, data));
        }
        o.set("blocks", J::arr(blocks));
        o
    }

    fn fn_json(&self, did: DefId, with_body: bool) -> Option<J> {
        let tcx = self.tcx;
        let kind = tcx.def_kind(did);
        let mut o = J::obj();
        o.set("path", J::s(&path_str(tcx, did)));
        o.set("krate", J::s(tcx.crate_name(did.krate).as_str()));
        o.set("kind", J::s(&format!("{:?}", kind)));
        o.set("sp", span_json(tcx, tcx.def_span(did)));
        match kind {
            DefKind::Fn | DefKind::AssocFn => {
                o.set("vis", J::s(&format!("{:?}", tcx.visibility(did))));
                if let Some(name) = tcx.opt_item_name(did) {
                    o.set("name", J::s(name.as_str()));
                }
                let sig = tcx.fn_sig(did).instantiate_identity().skip_norm_wip().skip_binder();
                let ins: Vec<J> = sig.inputs().iter().map(|t| J::s(&tystr(*t))).collect();
                o.set("inputs", J::arr(ins));
                o.set("output", J::s(&tystr(sig.output())));
                o.set("unsafe", J::b(!sig.safety().is_safe()));
                if did.is_local() {
                    let names: Vec<J> = tcx
                        .fn_arg_idents(did)
                        .iter()
                        .map(|i| match i {
                            Some(id) => J::s(id.name.as_str()),
                            None => J::s("_"),
                        })
                        .collect();
                    o.set("param_names", J::arr(names));
                }
                if let Some(assoc) = tcx.opt_associated_item(did) {
                    let parent = tcx.parent(did);
                    match assoc.container {
                        ty::AssocContainer::Trait => {
                            o.set("in_trait", J::s(&path_str(tcx, parent)));
                        }
                        _ => {
                            let st = tcx.type_of(parent).instantiate_identity().skip_norm_wip();
                            o.set("impl_self_ty", J::s(&tystr(st)));
                            if let ty::Adt(adt, _) = st.kind() {
                                o.set("impl_self_adt", J::s(&path_str(tcx, adt.did())));
                            }
                            if let Some(tr) = tcx.impl_opt_trait_ref(parent) {
                                let tr = tr.instantiate_identity().skip_norm_wip();
                                o.set("impl_trait", J::s(&path_str(tcx, tr.def_id)));
                                o.set(
                                    "impl_trait_ref",
                                    J::s(&fix_crate(with_crate_prefix!(with_no_trimmed_paths!(format!("{}", tr))))),
                                );
                            }
                            if let Some(d) = is_derive_span(tcx.def_span(parent)) {
                                o.set("derive", J::s(&d));
                            }
                        }
                    }
                }
            }
            DefKind::Closure => {
                let parent = tcx.typeck_root_def_id(did);
                o.set("closure_of", J::s(&path_str(tcx, parent)));
                if did.is_local() {
                    let caps: Vec<J> = tcx
                        .closure_captures(did.expect_local())
                        .iter()
                        .map(|c| {
                            let mut co = J::obj();
                            co.set("name", J::s(&c.to_string(tcx)));
                            co.set("by_ref", J::b(c.is_by_ref()));
                            co
                        })
                        .collect();
                    o.set("captures", J::arr(caps));
                }
            }
            _ => {}
        }
        if with_body && tcx.is_mir_available(did) {
            let body = tcx.optimized_mir(did);
            o.set("body", self.body_json(did, body));
        }
        Some(o)
    }
}

fn instance_kind_name(k: &ty::InstanceKind<'_>) -> &'static str {
    match k {
        ty::InstanceKind::Item(_) => "Item",
        ty::InstanceKind::Intrinsic(_) => "Intrinsic",
        ty::InstanceKind::VTableShim(_) => "VTableShim",
        ty::InstanceKind::ReifyShim(..) => "ReifyShim",
        ty::InstanceKind::FnPtrShim(..) => "FnPtrShim",
        ty::InstanceKind::Virtual(..) => "Virtual",
        ty::InstanceKind::ClosureOnceShim { .. } => "ClosureOnceShim",
        ty::InstanceKind::DropGlue(..) => "DropGlue",
        ty::InstanceKind::CloneShim(..) => "CloneShim",
        _ => "Other",
    }
}

// ---------------------------------------------------------------------------------------
// type walk

const TRANSPARENT: &[&str] = &[
    "vec::Vec",
    "string::String",
    "boxed::Box",
    "option::Option",
    "result::Result",
    "collections::BTreeMap",
    "collections::BTreeSet",
    "collections::VecDeque",
    "collections::btree::map::BTreeMap",
    "collections::btree::set::BTreeSet",
    "collections::vec_deque::VecDeque",
    "ops::Range",
    "ops::range::Range",
    "marker::PhantomData",
    "num::NonZero",
    "num::nonzero::NonZero",
    "collections::HashMap",
    "collections::HashSet",
    "collections::hash::map::HashMap",
    "collections::hash::set::HashSet",
];

fn std_rel(p: &str) -> Option<&str> {
    for pre in ["std::", "core::", "alloc::"] {
        if let Some(r) = p.strip_prefix(pre) {
            return Some(r);
        }
    }
    None
}

fn is_transparent(p: &str) -> bool {
    if let Some(r) = std_rel(p) {
        return TRANSPARENT.contains(&r);
    }
    p == "hashbrown::HashMap"
        || p == "hashbrown::HashSet"
        || p == "hashbrown::map::HashMap"
        || p == "hashbrown::set::HashSet"
}

fn flag_for_path(p: &str) -> Option<&'static str> {
    if p.ends_with("::HashMap") || p.ends_with("::HashSet") {
        return Some("Hash");
    }
    let r = std_rel(p)?;
    if r == "cell::UnsafeCell" {
        return Some("UnsafeCell");
    }
    if r.starts_with("cell::") {
        return Some("Cell");
    }
    if r.starts_with("sync::atomic::") {
        return Some("Atomic");
    }
    if r.starts_with("sync::") && !r.starts_with("sync::mpsc") && !r.starts_with("sync::Arc") {
        return Some("Lock");
    }
    if r.starts_with("sync::mpsc") {
        return Some("Channel");
    }
    if r.starts_with("rc::") {
        return Some("Rc");
    }
    None
}

fn type_walk<'tcx>(tcx: TyCtxt<'tcx>, root: DefId) -> J {
    let mut reached: Vec<J> = Vec::new();
    let mut seen: HashSet<String> = HashSet::new();
    let root_ty = tcx.type_of(root).instantiate_identity().skip_norm_wip();
    let mut stack: Vec<(String, Ty<'tcx>)> = vec![(path_str(tcx, root), root_ty)];
    let env = TypingEnv::post_analysis(tcx, root);
    while let Some((via, t)) = stack.pop() {
        let key = tystr(t);
        if !seen.insert(key.clone()) {
            continue;
        }
        let mut e = J::obj();
        e.set("ty", J::s(&key));
        e.set("via", J::s(&via));
        let mut flags: Vec<J> = Vec::new();
        match t.kind() {
            ty::Adt(adt, args) => {
                let p = path_str(tcx, adt.did());
                e.set("adt", J::s(&p));
                e.set("krate", J::s(tcx.crate_name(adt.did().krate).as_str()));
                if let Some(f) = flag_for_path(&p) {
                    flags.push(J::s(f));
                }
                // impls of interest are looked up by the rule side from the impl table
                if is_transparent(&p) {
                    e.set("transparent", J::b(true));
                    for a in args.iter() {
                        if let Some(at) = a.as_type() {
                            stack.push((format!("{} <arg>", key), at));
                        }
                    }
                } else {
                    let mut fl = Vec::new();
                    for v in adt.variants() {
                        for f in v.fields.iter() {
                            let fty = f.ty(tcx, args);
                            let fty = tcx.try_normalize_erasing_regions(env, ty::Unnormalized::new_wip(fty)).unwrap_or(fty);
                            let mut fo = J::obj();
                            fo.set("name", J::s(&f.name.to_string()));
                            if adt.is_enum() {
                                fo.set("variant", J::s(&v.name.to_string()));
                            }
                            fo.set("ty", J::s(&tystr(fty)));
                            fl.push(fo);
                            stack.push((format!("{}.{}", p, f.name), fty));
                        }
                    }
                    e.set("fields", J::arr(fl));
                }
            }
            ty::RawPtr(inner, _) => {
                flags.push(J::s("RawPtr"));
                stack.push((format!("{} <pointee>", key), *inner));
            }
            ty::Ref(_, inner, m) => {
                if m.is_mut() {
                    flags.push(J::s("MutRef"));
                }
                stack.push((format!("{} <referent>", key), *inner));
            }
            ty::Array(inner, _) | ty::Slice(inner) => {
                stack.push((format!("{} <elem>", key), *inner));
            }
            ty::Tuple(ts) => {
                for x in ts.iter() {
                    stack.push((format!("{} <tuple>", key), x));
                }
            }
            ty::Pat(base, _) => {
                stack.push((format!("{} <pattern base>", key), *base));
            }
            ty::FnPtr(..) => {
                flags.push(J::s("FnPtr"));
            }
            ty::Dynamic(..) => {
                flags.push(J::s("Dyn"));
            }
            ty::Param(_) => {
                flags.push(J::s("Param"));
            }
            _ => {}
        }
        e.set("flags", J::arr(flags));
        reached.push(e);
    }
    let mut o = J::obj();
    o.set("root", J::s(&path_str(tcx, root)));
    o.set("reached", J::arr(reached));
    o
}

// ---------------------------------------------------------------------------------------

fn dump<'tcx>(tcx: TyCtxt<'tcx>, out: &str) {
    let cx = Ctx { tcx };
    let crate_name = tcx.crate_name(LOCAL_CRATE).to_string();
    let _ = CRATE_NAME.set(crate_name.clone());
    let mut root = J::obj();
    root.set("crate", J::s(&crate_name));
    root.set("crate_types", J::s(&format!("{:?}", tcx.crate_types())));
    root.set("nonce", J::s(&std::env::var("VMIR_NONCE").unwrap_or_default()));
    root.set("cfg", J::s(&std::env::var("VMIR_CFG").unwrap_or_default()));
    root.set("rustc", J::s(&rustc_interface::util::rustc_version_str().unwrap_or("?").to_string()));

    // ADTs, statics, impls (local)
    let mut adts = Vec::new();
    let mut statics = Vec::new();
    let mut impls = Vec::new();
    let mut consts = Vec::new();
    let mut roots: Vec<DefId> = Vec::new();
    let root_names: Vec<String> = std::env::var("VMIR_ROOTS")
        .unwrap_or_default()
        .split(',')
        .filter(|s| !s.is_empty())
        .map(|s| s.to_string())
        .collect();

    for id in tcx.hir_crate_items(()).definitions() {
        let did = id.to_def_id();
        match tcx.def_kind(did) {
            DefKind::Struct | DefKind::Enum | DefKind::Union => {
                let adt = tcx.adt_def(did);
                let mut a = J::obj();
                let p = path_str(tcx, did);
                a.set("path", J::s(&p));
                a.set("kind", J::s(&format!("{:?}", tcx.def_kind(did))));
                a.set("sp", span_json(tcx, tcx.def_span(did)));
                a.set("vis", J::s(&format!("{:?}", tcx.visibility(did))));
                let mut vs = Vec::new();
                for v in adt.variants() {
                    let mut vo = J::obj();
                    vo.set("name", J::s(&v.name.to_string()));
                    let mut fs = Vec::new();
                    for f in v.fields.iter() {
                        let mut fo = J::obj();
                        fo.set("name", J::s(&f.name.to_string()));
                        let fty = tcx.type_of(f.did).instantiate_identity().skip_norm_wip();
                        fo.set("ty", J::s(&tystr(fty)));
                        if let ty::Adt(fa, _) = fty.kind() {
                            fo.set("ty_adt", J::s(&path_str(tcx, fa.did())));
                        }
                        fo.set("vis", J::s(&format!("{:?}", f.vis)));
                        fs.push(fo);
                    }
                    vo.set("fields", J::arr(fs));
                    vs.push(vo);
                }
                a.set("variants", J::arr(vs));
                adts.push(a);
                if root_names.iter().any(|r| p == *r || p.ends_with(&format!("::{}", r))) {
                    roots.push(did);
                }
            }
            DefKind::Static { mutability, nested, .. } => {
                if !nested {
                    let mut s = J::obj();
                    s.set("path", J::s(&path_str(tcx, did)));
                    s.set("mutable", J::b(mutability.is_mut()));
                    let t = tcx.type_of(did).instantiate_identity().skip_norm_wip();
                    s.set("ty", J::s(&tystr(t)));
                    let env = TypingEnv::post_analysis(tcx, did);
                    s.set("freeze", J::b(t.is_freeze(tcx, env)));
                    s.set("thread_local", J::b(tcx.is_thread_local_static(did)));
                    s.set("sp", span_json(tcx, tcx.def_span(did)));
                    statics.push(s);
                }
            }
            DefKind::Const { .. } | DefKind::AssocConst { .. } => {
                let mut c = J::obj();
                c.set("path", J::s(&path_str(tcx, did)));
                let t = tcx.type_of(did).instantiate_identity().skip_norm_wip();
                c.set("ty", J::s(&tystr(t)));
                consts.push(c);
            }
            DefKind::Impl { of_trait } => {
                let mut i = J::obj();
                let st = tcx.type_of(did).instantiate_identity().skip_norm_wip();
                i.set("self_ty", J::s(&tystr(st)));
                if let ty::Adt(adt, _) = st.kind() {
                    i.set("self_adt", J::s(&path_str(tcx, adt.did())));
                }
                if of_trait {
                    if let Some(tr) = tcx.impl_opt_trait_ref(did) {
                        let tr = tr.instantiate_identity().skip_norm_wip();
                        i.set("trait", J::s(&path_str(tcx, tr.def_id)));
                        i.set("trait_ref", J::s(&fix_crate(with_crate_prefix!(with_no_trimmed_paths!(format!("{}", tr))))));
                    }
                }
                if let Some(d) = is_derive_span(tcx.def_span(did)) {
                    i.set("derive", J::s(&d));
                }
                i.set("sp", span_json(tcx, tcx.def_span(did)));
                let ms: Vec<J> = tcx
                    .associated_item_def_ids(did)
                    .iter()
                    .map(|m| J::s(&path_str(tcx, *m)))
                    .collect();
                i.set("items", J::arr(ms));
                impls.push(i);
            }
            _ => {}
        }
    }
    root.set("adts", J::arr(adts));
    root.set("statics", J::arr(statics));
    root.set("consts", J::arr(consts));
    root.set("impls", J::arr(impls));

    // functions with MIR
    let mut fns = Vec::new();
    let mut n_bodies = 0usize;
    for ldid in tcx.mir_keys(()).iter() {
        let did = ldid.to_def_id();
        match tcx.def_kind(did) {
            DefKind::Fn | DefKind::AssocFn | DefKind::Closure => {
                // skip constructors and const fns' ctfe-only bodies are fine
                if let Some(j) = cx.fn_json(did, true) {
                    n_bodies += 1;
                    fns.push(j);
                }
            }
            _ => {}
        }
    }
    // trait method declarations (no body) for kind tables
    for id in tcx.hir_crate_items(()).definitions() {
        let did = id.to_def_id();
        if tcx.def_kind(did) == DefKind::AssocFn {
            if let Some(a) = tcx.opt_associated_item(did) {
                if matches!(a.container, ty::AssocContainer::Trait) && !tcx.is_mir_available(did) {
                    if let Some(j) = cx.fn_json(did, false) {
                        fns.push(j);
                    }
                }
            }
        }
    }
    root.set("n_bodies", J::i(n_bodies as i128));

    // foreign codec impls: impls of bincode Encode/Decode/BorrowDecode whose self type lives in
    // a crate named in VMIR_FOREIGN (default: rucrf)
    let foreign: Vec<String> = std::env::var("VMIR_FOREIGN")
        .unwrap_or_else(|_| "rucrf".to_string())
        .split(',')
        .map(|s| s.to_string())
        .collect();
    let mut fimpls = Vec::new();
    let mut foreign_adts: BTreeMap<String, J> = BTreeMap::new();
    if !roots.is_empty() || crate_name == "vibrato" {
        for tr in tcx.all_traits_including_private() {
            let tp = path_str(tcx, tr);
            if !(tp == "bincode::Encode"
                || tp == "bincode::Decode"
                || tp == "bincode::BorrowDecode"
                || tp == "bincode::enc::Encode"
                || tp == "bincode::de::Decode"
                || tp == "bincode::de::BorrowDecode")
            {
                continue;
            }
            for imp in tcx.all_impls(tr) {
                if imp.is_local() {
                    continue;
                }
                let st = tcx.type_of(imp).instantiate_identity().skip_norm_wip();
                let (adt_path, adt_krate) = match st.kind() {
                    ty::Adt(adt, _) => (
                        path_str(tcx, adt.did()),
                        tcx.crate_name(adt.did().krate).to_string(),
                    ),
                    _ => continue,
                };
                if !foreign.contains(&adt_krate) {
                    continue;
                }
                let mut i = J::obj();
                i.set("self_ty", J::s(&tystr(st)));
                i.set("self_adt", J::s(&adt_path));
                i.set("trait", J::s(&tp));
                i.set("krate", J::s(&adt_krate));
                if let Some(d) = is_derive_span(tcx.def_span(imp)) {
                    i.set("derive", J::s(&d));
                }
                i.set("sp", span_json(tcx, tcx.def_span(imp)));
                let mut items = Vec::new();
                for m in tcx.associated_item_def_ids(imp) {
                    items.push(J::s(&path_str(tcx, *m)));
                    if tcx.def_kind(*m) == DefKind::AssocFn && tcx.is_mir_available(*m) {
                        if let Some(j) = cx.fn_json(*m, true) {
                            fns.push(j);
                        }
                    }
                }
                i.set("items", J::arr(items));
                fimpls.push(i);
                if let ty::Adt(adt, _) = st.kind() {
                    if !foreign_adts.contains_key(&adt_path) {
                        let mut a = J::obj();
                        a.set("path", J::s(&adt_path));
                        let mut vs = Vec::new();
                        for v in adt.variants() {
                            let mut vo = J::obj();
                            vo.set("name", J::s(&v.name.to_string()));
                            let mut fs = Vec::new();
                            for f in v.fields.iter() {
                                let mut fo = J::obj();
                                fo.set("name", J::s(&f.name.to_string()));
                                let fty = tcx.type_of(f.did).instantiate_identity().skip_norm_wip();
                                fo.set("ty", J::s(&tystr(fty)));
                                fs.push(fo);
                            }
                            vo.set("fields", J::arr(fs));
                            vs.push(vo);
                        }
                        a.set("variants", J::arr(vs));
                        foreign_adts.insert(adt_path.clone(), a);
                    }
                }
            }
        }
    }
    root.set("foreign_impls", J::arr(fimpls));
    root.set("foreign_adts", J::arr(foreign_adts.into_values().collect()));
    root.set("fns", J::arr(fns));

    // type walks
    let mut walks = Vec::new();
    let mut seen_roots = BTreeSet::new();
    for r in roots {
        if seen_roots.insert(path_str(tcx, r)) {
            walks.push(type_walk(tcx, r));
        }
    }
    root.set("type_walks", J::arr(walks));

    let mut s = String::new();
    root.write(&mut s);
    let kind = if tcx.crate_types().iter().any(|t| format!("{:?}", t).contains("Executable")) {
        "bin"
    } else {
        "lib"
    };
    let mut fname = String::new();
    let _ = write!(fname, "{}/{}-{}-{}.json", out, crate_name, kind, std::process::id());
    std::fs::create_dir_all(out).ok();
    std::fs::write(&fname, s).expect("vmir: cannot write fact file");
}

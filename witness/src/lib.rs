//! Type-level witnesses for property C04 (SHARE): obligations the Rust type checker discharges
//! on /repo's current tree. Nothing here is ever executed: the crate is only type-checked
//! (`cargo check`) and its doctests are `compile_fail,E…` witnesses paired with `no_run` twins
//! that differ in the offending line only.

use vibrato::tokenizer::worker::Worker;
use vibrato::{Dictionary, Tokenizer};

fn assert_send<T: Send>() {}
fn assert_sync<T: Sync>() {}

/// Compile-pass obligations: the tokenizer and the dictionary can be shared between threads,
/// and a worker can be moved to another thread.
pub fn share_obligations() {
    assert_send::<Tokenizer>();
    assert_sync::<Tokenizer>();
    assert_send::<Dictionary>();
    assert_sync::<Dictionary>();
    assert_send::<Worker<'static>>();
    // workers of one tokenizer on several threads: only `&Tokenizer` crosses the thread boundary
    assert_send::<&'static Tokenizer>();
}

/// A worker borrows the tokenizer immutably for its whole life: `new_worker(&self)` ties the
/// worker's lifetime to the borrow.
pub fn worker_borrows<'t>(t: &'t Tokenizer) -> Worker<'t> {
    t.new_worker()
}

const _DICT: &str = "";

/// W-MOVE: the dictionary is moved into the tokenizer; the caller keeps no handle to it.
///
/// ```compile_fail,E0382
/// use vibrato::{SystemDictionaryBuilder, Tokenizer};
/// let dict = SystemDictionaryBuilder::from_readers(&b""[..], &b""[..], &b""[..], &b""[..]).unwrap();
/// let tokenizer = Tokenizer::new(dict);
/// let _again = Tokenizer::new(dict); // use after move
/// let _ = tokenizer;
/// ```
///
/// Twin (compiles):
/// ```no_run
/// use vibrato::{SystemDictionaryBuilder, Tokenizer};
/// let dict = SystemDictionaryBuilder::from_readers(&b""[..], &b""[..], &b""[..], &b""[..]).unwrap();
/// let tokenizer = Tokenizer::new(dict);
/// let _ = tokenizer;
/// ```
pub struct WMove;

/// W-OPTION: options cannot be changed while a worker exists (`ignore_space` and
/// `max_grouping_len` take the tokenizer by value).
///
/// ```compile_fail,E0505
/// use vibrato::{SystemDictionaryBuilder, Tokenizer};
/// let dict = SystemDictionaryBuilder::from_readers(&b""[..], &b""[..], &b""[..], &b""[..]).unwrap();
/// let tokenizer = Tokenizer::new(dict);
/// let mut worker = tokenizer.new_worker();
/// let tokenizer2 = tokenizer.max_grouping_len(24); // moves out while borrowed
/// worker.reset_sentence("a");
/// let _ = tokenizer2;
/// ```
///
/// Twin (compiles):
/// ```no_run
/// use vibrato::{SystemDictionaryBuilder, Tokenizer};
/// let dict = SystemDictionaryBuilder::from_readers(&b""[..], &b""[..], &b""[..], &b""[..]).unwrap();
/// let tokenizer = Tokenizer::new(dict);
/// let tokenizer2 = tokenizer.max_grouping_len(24);
/// let mut worker = tokenizer2.new_worker();
/// worker.reset_sentence("a");
/// ```
pub struct WOption;

/// W-OPTION2: same for `ignore_space`.
///
/// ```compile_fail,E0505
/// use vibrato::{SystemDictionaryBuilder, Tokenizer};
/// let dict = SystemDictionaryBuilder::from_readers(&b""[..], &b""[..], &b""[..], &b""[..]).unwrap();
/// let tokenizer = Tokenizer::new(dict);
/// let mut worker = tokenizer.new_worker();
/// let tokenizer2 = tokenizer.ignore_space(true).unwrap(); // moves out while borrowed
/// worker.reset_sentence("a");
/// let _ = tokenizer2;
/// ```
///
/// Twin (compiles):
/// ```no_run
/// use vibrato::{SystemDictionaryBuilder, Tokenizer};
/// let dict = SystemDictionaryBuilder::from_readers(&b""[..], &b""[..], &b""[..], &b""[..]).unwrap();
/// let tokenizer = Tokenizer::new(dict);
/// let tokenizer2 = tokenizer.ignore_space(true).unwrap();
/// let mut worker = tokenizer2.new_worker();
/// worker.reset_sentence("a");
/// ```
pub struct WOption2;

/// W-DICT: the dictionary inside a tokenizer can only be reached through `&Dictionary`; the
/// by-value editing functions (`reset_user_lexicon_from_reader`, `map_connection_ids_from_iter`)
/// cannot be applied to it.
///
/// ```compile_fail,E0507
/// use vibrato::{SystemDictionaryBuilder, Tokenizer};
/// let dict = SystemDictionaryBuilder::from_readers(&b""[..], &b""[..], &b""[..], &b""[..]).unwrap();
/// let tokenizer = Tokenizer::new(dict);
/// let worker = tokenizer.new_worker();
/// let d2 = (*tokenizer.dictionary()).reset_user_lexicon_from_reader(None::<&[u8]>); // cannot move out of a shared reference
/// let _ = (worker, d2);
/// ```
///
/// ```compile_fail,E0507
/// use vibrato::{SystemDictionaryBuilder, Tokenizer};
/// let dict = SystemDictionaryBuilder::from_readers(&b""[..], &b""[..], &b""[..], &b""[..]).unwrap();
/// let tokenizer = Tokenizer::new(dict);
/// let d2 = (*tokenizer.dictionary()).map_connection_ids_from_iter(vec![1u16], vec![1u16]);
/// let _ = d2;
/// ```
///
/// Twin (compiles):
/// ```no_run
/// use vibrato::{SystemDictionaryBuilder, Tokenizer};
/// let dict = SystemDictionaryBuilder::from_readers(&b""[..], &b""[..], &b""[..], &b""[..]).unwrap();
/// let dict = dict.reset_user_lexicon_from_reader(None::<&[u8]>).unwrap();
/// let dict = dict.map_connection_ids_from_iter(vec![1u16], vec![1u16]).unwrap();
/// let tokenizer = Tokenizer::new(dict);
/// let worker = tokenizer.new_worker();
/// let _ = (worker, tokenizer.dictionary());
/// ```
pub struct WDict;

/// W-WORKER-MUT: tokenization needs exclusive access to the worker, so one worker cannot be
/// driven from two places at once, and tokens borrow the worker (no reset while a token is held).
///
/// ```compile_fail,E0502
/// use vibrato::{SystemDictionaryBuilder, Tokenizer};
/// let dict = SystemDictionaryBuilder::from_readers(&b""[..], &b""[..], &b""[..], &b""[..]).unwrap();
/// let tokenizer = Tokenizer::new(dict);
/// let mut worker = tokenizer.new_worker();
/// worker.reset_sentence("a");
/// worker.tokenize();
/// let t = worker.token(0);
/// worker.reset_sentence("b"); // mutable borrow while a token is alive
/// let _ = t.surface();
/// ```
///
/// Twin (compiles):
/// ```no_run
/// use vibrato::{SystemDictionaryBuilder, Tokenizer};
/// let dict = SystemDictionaryBuilder::from_readers(&b""[..], &b""[..], &b""[..], &b""[..]).unwrap();
/// let tokenizer = Tokenizer::new(dict);
/// let mut worker = tokenizer.new_worker();
/// worker.reset_sentence("a");
/// worker.tokenize();
/// let t = worker.token(0);
/// let _ = t.surface();
/// worker.reset_sentence("b");
/// ```
pub struct WWorkerMut;

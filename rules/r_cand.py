"""CAND / UNKFALL / PAIR: candidate sources at each lattice position (C03, C08, C01)."""
from effects import Effects
from facts import EngineError
from flow import calls_named, must_pass, switch_on_discriminant_of, bool_switch_targets
from mir import AP, FnA, callee_of, callee_paths, op_place, op_const, strip_generics
from r_viterbi import base_local, elem_source, same_node
from sym import Sym, show, short, strip_casts

P_EDGES = "vibrato::tokenizer::Tokenizer::add_lattice_edges"
P_UNK = "vibrato::dictionary::unknown::UnkHandler::gen_unk_words"


def fn_loc(crate, p):
    f = crate.fns[p]
    return "%s:%s" % (f.file, f.line)


ITER_KEEP = ("into_iter", "iter", "by_ref", "fuse", "peekable", "inspect", "copied", "cloned", "map",
             "flat_map", "chain", "as_ref", "as_deref", "deref", "borrow", "unwrap_or_default")
ITER_DROP = ("take", "skip", "filter", "filter_map", "step_by", "take_while", "skip_while", "rev",
             "nth", "last", "map_while", "zip", "dedup", "find")


def _listed_lexicons(E, fa, op):
    """When the operand is the item of a loop over a list of lexicons built from `once(x)`,
    `opt.into_iter()` and `chain` only: (block of the outer `next`, [access path of each member, in
    order]); otherwise None. Every member of such a list is visited, in that order."""
    pl = op_place(op)
    nxt = None
    for _ in range(8):
        if pl is None:
            return None
        d = fa.single_def(pl["l"])
        fields = [e for e in pl["p"] if e != "*"]
        if fields:
            if d is not None and d[2] == "call" and (callee_of(d[3]) or {}).get("name") == "next" and \
                    any(isinstance(e, dict) and e.get("n") == "Some" for e in fields):
                nxt = (d[0], d[3])
            break
        if d is None or d[2] != "assign":
            return None
        pl = op_place(d[3]["op"]) if d[3]["k"] in ("use", "cast") else d[3].get("place") if d[3]["k"] == "ref" else None
    if nxt is None:
        return None

    def members(o, depth=0):
        if depth > 8:
            return None
        p0 = op_place(o)
        if p0 is None:
            return None
        d0 = fa.single_def(p0["l"]) if not [e for e in p0["p"] if e != "*"] else None
        if d0 is None:
            return None
        if d0[2] == "assign":
            nx = d0[3]["op"] if d0[3]["k"] in ("use", "cast") else {"c": d0[3]["place"]} if d0[3]["k"] == "ref" else None
            return members(nx, depth + 1) if nx is not None else None
        t0 = d0[3]
        n0 = (callee_of(t0) or {}).get("name") or ""
        if n0 == "chain" and len(t0["args"]) == 2:
            a, b = members(t0["args"][0], depth + 1), members(t0["args"][1], depth + 1)
            return a + b if a is not None and b is not None else None
        if n0 in ("once",) and len(t0["args"]) == 1:
            ap = E.ap_operand(fa, t0["args"][0])
            return [ap] if ap is not None else None
        if n0 in ("into_iter", "iter") and len(t0["args"]) == 1:
            ty = fa.fn.locals[op_place(t0["args"][0])["l"]]["ty"] if op_place(t0["args"][0]) is not None else ""
            if "Option<" in ty:
                ap = E.ap_operand(fa, t0["args"][0])
                return [ap] if ap is not None else None
            return members(t0["args"][0], depth + 1)
        return None
    aps = members(nxt[1]["args"][0])
    return (nxt[0], aps) if aps else None


def _feeds(E, fa, op, depth=0):
    """The common_prefix_iterator calls whose results flow into an iterator operand, through
    chains of adaptors (also when the call sits in the closure of a flat_map over an optional
    lexicon). -> [dict(lex=AP in fa's frame, suffix=repr, block, term, drop=[adaptors that drop items])]"""
    out = []
    if depth > 12:
        return out
    pl = op_place(op)
    drop = []
    for _ in range(24):
        if pl is None:
            break
        d = fa.single_def(pl["l"])
        if d is None:
            break
        if d[2] == "call":
            t = d[3]
            nm = (callee_of(t) or {}).get("name") or ""
            if nm == "common_prefix_iterator":
                S = Sym(E, fa)
                sfx_ = repr(E.ap_operand(fa, t["args"][1]) or S.operand(t["args"][1]))
                listed = _listed_lexicons(E, fa, t["args"][0])
                if listed is not None:
                    # `for lexicon in user.into_iter().chain(once(system)) { for m in lexicon.common_prefix_iterator(..) {..} }`:
                    # one search, run for every lexicon of the list in turn
                    outer_nb, aps = listed
                    for lap in aps:
                        out.append(dict(lex=lap, suffix=sfx_, block=d[0], term=t, drop=list(drop), frame=fa, outer=outer_nb))
                    break
                out.append(dict(lex=E.ap_operand(fa, t["args"][0]), suffix=sfx_,
                                block=d[0], term=t, drop=list(drop), frame=fa))
                break
            if nm in ITER_DROP:
                drop.append(nm)
            elif nm not in ITER_KEEP:
                break
            if nm in ("chain", "zip") and len(t["args"]) > 1:
                for x in _feeds(E, fa, t["args"][1], depth + 1):
                    x["drop"] = x["drop"] + drop
                    out.append(x)
            if nm in ("flat_map", "map", "filter_map") and len(t["args"]) > 1:
                cop = t["args"][1]
                cl = E.closure_of_operand(fa, cop)
                for _c in range(3):
                    if cl is not None:
                        break
                    cpl = op_place(cop)
                    cd = fa.single_def(cpl["l"]) if cpl is not None and not cpl["p"] else None
                    if cd and cd[2] == "assign" and cd[3]["k"] in ("cast", "use"):
                        cop = cd[3]["op"]
                        cl = E.closure_of_operand(fa, cop)
                    else:
                        break
                if cl is not None:
                    cpath, caps = cl
                    cfa = E.fa(cpath)
                    CS = Sym(E, cfa)
                    base = E.ap_operand(fa, t["args"][0])
                    for cb, ct in calls_named(cfa, "common_prefix_iterator"):
                        lex = E.ap_operand(cfa, ct["args"][0])
                        if lex is not None and lex.root == ("arg", 2):
                            lexo = base                     # the item of the mapped collection
                        else:
                            lexo = Effects.map_closure_ap(lex, caps) if lex is not None else None
                        sfx = E.ap_operand(cfa, ct["args"][1])
                        sfo = Effects.map_closure_ap(sfx, caps) if sfx is not None else None
                        out.append(dict(lex=lexo, suffix=repr(sfo), block=cb, term=ct, drop=list(drop), frame=cfa))
            if not t["args"]:
                break
            pl = op_place(t["args"][0])
            continue
        rv = d[3]
        pl = op_place(rv["op"]) if rv["k"] in ("use", "cast") else rv.get("place") if rv["k"] in ("ref", "rawptr") else None
    return out


def loops_over(E, fa, S, getter_suffix):
    """Loops whose iterator is fed by X.common_prefix_iterator(suffix), X coming from the
    dictionary getter with the given name - directly (`for m in X.common_prefix_iterator(..)`)
    or through adaptor chains (`user.into_iter().flat_map(|l| l.common_prefix_iterator(..))
    .chain(system.common_prefix_iterator(..))`). Returns [(next block, source dict)]."""
    out = []
    for nb, nt in fa.calls():
        if not any(strip_generics(x).endswith("::next") for x in callee_paths(nt)):
            continue
        for src in _feeds(E, fa, nt["args"][0]):
            lex = src["lex"]
            if lex is not None and getter_suffix in [str(x) for x in lex.proj]:
                out.append((nb, src))
    return out


OPTION_APPLY = ("map_or", "map", "is_some_and", "map_or_else", "and_then", "is_none_or", "inspect")


def closure_sites(E, fa, S, getter_suffix):
    """Invocations of a local *matcher closure* (`|lexicon| { for m in lexicon.common_prefix_
    iterator(suffix) { insert .. } .. }`) with a lexicon that comes from the given dictionary
    getter: directly (`matcher(self.dict.system_lexicon())`) or through an Option combinator
    (`self.dict.user_lexicon().map_or(false, &mut matcher)`).
    -> [(block of the invocation, closure path, captures, destination local of the result)]"""
    out = []
    matchers = {}
    for b, i, s0 in fa.stmts():
        rv = s0.get("rv")
        if rv and rv["k"] == "agg" and rv.get("agg") == "closure" and not s0["lhs"]["p"]:
            cpath = rv["closure"]
            cfa = E.fa(cpath)
            for cb, ct in calls_named(cfa, "common_prefix_iterator"):
                lex = E.ap_operand(cfa, ct["args"][0])
                if lex is not None and lex.root == ("arg", 2):
                    matchers[s0["lhs"]["l"]] = (cpath, [E.ap_operand(fa, o) for o in rv["ops"]])

    def closure_local(op):
        pl = op_place(op)
        for _ in range(8):
            if pl is None:
                return None
            if pl["l"] in matchers and all(e == "*" for e in pl["p"]):
                return pl["l"]
            d = fa.single_def(pl["l"])
            if d is None or d[2] != "assign":
                return None
            rv = d[3]
            pl = op_place(rv["op"]) if rv["k"] in ("use", "cast") else rv.get("place") if rv["k"] in ("ref", "rawptr") else None
        return None
    for b, t in fa.calls():
        nm = (callee_of(t) or {}).get("name") or ""
        cl = None
        lex = None
        if nm in ("call_mut", "call", "call_once") and len(t["args"]) == 2:
            cl = closure_local(t["args"][0])
            o = fa.origin(t["args"][1])
            if cl is not None and o[0] == "rv" and o[1]["k"] == "agg" and o[1]["ops"]:
                lex = E.ap_operand(fa, o[1]["ops"][0])
        elif nm in OPTION_APPLY and len(t["args"]) >= 2:
            for a in t["args"][1:]:
                cl = cl if cl is not None else closure_local(a)
            if cl is not None:
                lex = E.ap_operand(fa, t["args"][0])
        if cl is not None and lex is not None and getter_suffix in [str(x) for x in lex.proj]:
            out.append((b, matchers[cl][0], matchers[cl][1], t["dest"]["l"]))
    return out


def judge_matcher_closure(ctx, E, crate, label, cpath, caps):
    """The per-match obligations of CAND/PAIR, read inside a matcher closure."""
    cfa = E.fa(cpath)
    CS = Sym(E, cfa)
    loc = fn_loc(crate, cpath)

    def outer(op):
        a = E.ap_operand(cfa, op)
        return Effects.map_closure_ap(a, caps) if a is not None else None
    heads = []
    for nb, nt in cfa.calls():
        if any(strip_generics(x).endswith("::next") for x in callee_paths(nt)):
            for src in _feeds(E, cfa, nt["args"][0]):
                if src["lex"] is not None and src["lex"].root == ("arg", 2) and not src["drop"]:
                    heads.append((nb, src))
    if len(heads) != 1:
        ctx.ob("CAND", "add_lattice_edges|%s-every-match-inserted" % label, False, loc,
               "the matcher closure does not loop over the prefix matches of the lexicon it is given")
        return None
    nb, src = heads[0]
    some_t, none_t = loop_parts(cfa, nb)
    body = cfa.reachable(some_t, avoid={nb})
    ins = [(b, t) for b, t in calls_named(cfa, "insert_node") if b in body]
    oki = len(ins) == 1 and nb not in cfa.reachable(some_t, avoid={ins[0][0]})
    ctx.ob("CAND", "add_lattice_edges|%s-every-match-inserted" % label, oki, cfa.loc(nb),
           "every %s-lexicon match becomes a lattice node" % label if oki else
           "a %s-lexicon match can be skipped without inserting a node" % label)
    # the closure's result is true exactly when the body ran: a bool local set in the body
    flags = set()
    for b in body:
        for s0 in cfa.blocks[b]["stmts"]:
            if "lhs" in s0 and not s0["lhs"]["p"] and s0["rv"]["k"] == "use" and \
                    (op_const(s0["rv"]["op"]) or {}).get("int") == 1 and \
                    cfa.fn.locals[s0["lhs"]["l"]]["ty"] == "bool":
                flags.add((s0["lhs"]["l"], b))
    ret_l = None
    for b, i, s0 in cfa.stmts():
        if "lhs" in s0 and s0["lhs"]["l"] == 0 and not s0["lhs"]["p"] and s0["rv"]["k"] == "use":
            pl = op_place(s0["rv"]["op"])
            ret_l = pl["l"] if pl is not None else None
    okh = any(l == ret_l for l, b in flags) and \
        nb not in cfa.reachable(some_t, avoid={b for l, b in flags if l == ret_l})
    ctx.ob("CAND", "add_lattice_edges|%s-sets-has_matched" % label, okh, cfa.loc(nb),
           "a %s-lexicon match makes the matcher report `matched`" % label if okh else
           "a %s-lexicon match does not make the matcher closure return true: unknown words are "
           "generated as if nothing had matched" % label)
    if ins:
        ib, it = ins[0]
        ia = [CS.operand(x) for x in it["args"]]
        m_bl = [base_local(cfa, it["args"][k]) for k in (3, 4, 5)]
        end = ia[3]
        o4, o5 = outer(it["args"][1]), outer(it["args"][2])
        ok_pos = o4 == AP(("arg", 4)) and o5 == AP(("arg", 5))
        ok_end = end[0] == "binop" and end[1] == "Add" and "end_char" in show(end) and \
            any(outer_txt == AP(("arg", 5)) for outer_txt in
                [Effects.map_closure_ap(x[1], caps) for x in (end[2], end[3]) if x[0] == "ap"])
        ok_pair = all(x is not None for x in m_bl) and \
            m_bl[1][1][-1:] == ["word_idx"] and m_bl[2][1][-1:] == ["word_param"] and \
            same_node(cfa, m_bl[1][0], m_bl[2][0])
        ctx.ob("PAIR", "add_lattice_edges|%s|idx-and-param-from-same-match" % label, ok_pair,
               cfa.loc(ib), "word_idx and word_param of an inserted node come from the same "
               "lexicon match" if ok_pair else
               "insert_node receives word_idx=%s and word_param=%s from different matches"
               % (show(ia[4]), show(ia[5])))
        ctx.ob("CAND", "add_lattice_edges|%s|positions" % label, ok_pos and ok_end, cfa.loc(ib),
               "node inserted with (start_node, start_word, start_word + match length)"
               if ok_pos and ok_end else
               "node inserted with positions (%s, %s, %s)" % (show(ia[1]), show(ia[2]), show(ia[3])))
    return src["suffix"] if src["frame"] is not cfa else repr(Effects.map_closure_ap(
        E.ap_operand(cfa, src["term"]["args"][1]), caps))


def _capture_locals(fa, ops):
    """for each captured operand of a closure aggregate: the local it is, or refers to"""
    out = []
    for o in ops:
        pl = op_place(o)
        l = None
        for _ in range(6):
            if pl is None:
                break
            if pl["p"] and not all(e == "*" for e in pl["p"]):
                break
            d = fa.single_def(pl["l"])
            if d is not None and d[2] == "assign" and d[3]["k"] in ("ref", "rawptr") and not d[3]["place"]["p"]:
                l = d[3]["place"]["l"]
                break
            if d is not None and d[2] == "assign" and d[3]["k"] == "use" and op_place(d[3]["op"]) is not None:
                pl = op_place(d[3]["op"])
                continue
            l = pl["l"]
            break
        out.append(l)
    return out


def _closure_defs(E, fa):
    """closure local -> (path, capture APs, capture locals) for the closures created in fa"""
    out = {}
    for b, i, s0 in fa.stmts():
        rv = s0.get("rv")
        if rv and rv["k"] == "agg" and rv.get("agg") == "closure" and not s0["lhs"]["p"]:
            out[s0["lhs"]["l"]] = (rv["closure"], [E.ap_operand(fa, o) for o in rv["ops"]],
                                   _capture_locals(fa, rv["ops"]))
    return out


def _closure_of(fa, defs, op):
    pl = op_place(op)
    for _ in range(8):
        if pl is None:
            return None
        if pl["l"] in defs and all(e == "*" for e in pl["p"]):
            return pl["l"]
        d = fa.single_def(pl["l"])
        if d is None or d[2] != "assign":
            return None
        rv = d[3]
        pl = op_place(rv["op"]) if rv["k"] in ("use", "cast") else rv.get("place") if rv["k"] in ("ref", "rawptr") else None
    return None


def _sets_flag(E, fa, s, hm_local):
    """`has_matched = true`, written to the variable or through a reference to it"""
    if "lhs" not in s or s["rv"]["k"] != "use" or (op_const(s["rv"]["op"]) or {}).get("int") != 1:
        return False
    if s["lhs"]["l"] == hm_local and not s["lhs"]["p"]:
        return True
    if not s["lhs"]["p"]:
        return False
    if s["lhs"]["p"] != ["*"]:
        return False
    cur = s["lhs"]["l"]
    for _ in range(8):
        ds = [d for d in fa.defs().get(cur, []) if d[2] != "partial"]
        if len(ds) != 1 or ds[0][2] != "assign":
            return False
        rv = ds[0][3]
        if rv["k"] == "ref":
            return rv["place"] == {"l": hm_local, "p": []}
        pl = op_place(rv["op"]) if rv["k"] == "use" else None
        if pl is None or pl["p"]:
            return False
        cur = pl["l"]
    return False


def judge_per_match_closure(ctx, E, crate, label, cdef, hm_local, where, outer_sets_flag=False):
    """CAND/PAIR obligations read inside a closure that is applied to each lexicon match
    (`|m: LexMatch| { lattice.insert_node(..); has_matched = true; }`)."""
    cpath, caps, caplocals = cdef
    cfa = E.fa(cpath)
    CS = Sym(E, cfa)
    rets = cfa.return_blocks()
    ins = calls_named(cfa, "insert_node")
    oki = len(ins) == 1 and all(must_pass(cfa, r, {ins[0][0]}) for r in rets)
    ctx.ob("CAND", "add_lattice_edges|%s-every-match-inserted" % label, oki, where,
           "every %s-lexicon match becomes a lattice node" % label if oki else
           "a %s-lexicon match can be skipped without inserting a node" % label)
    # has_matched: a store of `true` through the capture that refers to the flag
    okh = False
    for b, i, s0 in cfa.stmts():
        if "lhs" in s0 and s0["lhs"]["p"] and s0["rv"]["k"] == "use" and \
                (op_const(s0["rv"]["op"]) or {}).get("int") == 1:
            a = E.ap_place(cfa, s0["lhs"])
            if a is not None and a.root == ("arg", 1) and a.proj and str(a.proj[0]).startswith("#"):
                k = int(str(a.proj[0])[1:])
                if k < len(caplocals) and caplocals[k] == hm_local and \
                        all(must_pass(cfa, r, {b}) for r in rets):
                    okh = True
    okh = okh or outer_sets_flag
    ctx.ob("CAND", "add_lattice_edges|%s-sets-has_matched" % label, okh, where,
           "a %s-lexicon match sets the flag passed to gen_unk_words (so invoke=0 categories "
           "add no unknown word next to a dictionary word)" % label if okh else
           "a %s-lexicon match does not set has_matched: unknown words are generated as if "
           "nothing had matched" % label)
    if ins:
        ib, it = ins[0]
        ia = [CS.operand(x) for x in it["args"]]

        def outer(op):
            a = E.ap_operand(cfa, op)
            return Effects.map_closure_ap(a, caps) if a is not None else None
        ok_pos = outer(it["args"][1]) == AP(("arg", 4)) and outer(it["args"][2]) == AP(("arg", 5))
        end = ia[3]
        ok_end = end[0] == "binop" and end[1] == "Add" and "end_char" in show(end) and \
            any(Effects.map_closure_ap(x[1], caps) == AP(("arg", 5)) for x in (end[2], end[3]) if x[0] == "ap")
        m_ap = [E.ap_operand(cfa, it["args"][k]) for k in (4, 5)]
        ok_pair = all(a is not None and a.root == ("arg", 2) for a in m_ap) and \
            str(m_ap[0].proj[-1]) == "word_idx" and str(m_ap[1].proj[-1]) == "word_param"
        ctx.ob("PAIR", "add_lattice_edges|%s|idx-and-param-from-same-match" % label, ok_pair, where,
               "word_idx and word_param of an inserted node come from the same lexicon match"
               if ok_pair else
               "insert_node receives word_idx=%s and word_param=%s from different matches"
               % (show(ia[4]), show(ia[5])))
        ctx.ob("CAND", "add_lattice_edges|%s|positions" % label, ok_pos and ok_end, where,
               "node inserted with (start_node, start_word, start_word + match length)"
               if ok_pos and ok_end else
               "node inserted with positions (%s, %s, %s)" % (show(ia[1]), show(ia[2]), show(ia[3])))


def loop_parts(fa, nb):
    sw = fa.term(nb).get("t")
    st = fa.term(sw)
    some_t = [tg for v, tg in zip(st["vals"], st["targets"]) if v == 1]
    none_t = [tg for v, tg in zip(st["vals"], st["targets"]) if v == 0] or [st["otherwise"]]
    return some_t[0], none_t[0]


def cand(ctx):
    crate = ctx.facts("A").lib
    E = Effects(crate)
    fa = E.fa(P_EDGES)
    S = Sym(E, fa)
    rets = fa.return_blocks()
    names = fa.fn.local_names()
    # has_matched: the bool local passed to gen_unk_words
    gu = calls_named(fa, "gen_unk_words")
    ctx.ob("CAND", "add_lattice_edges|gen_unk_words-once", len(gu) == 1, fn_loc(crate, P_EDGES),
           "unknown-word generation is invoked exactly once per position" if len(gu) == 1 else
           "gen_unk_words is called %d times in add_lattice_edges" % len(gu))
    if len(gu) != 1:
        return
    gb, gt = gu[0]
    ok = all(must_pass(fa, r, {gb}) for r in rets)
    ctx.ob("CAND", "add_lattice_edges|gen_unk_words-on-every-path", ok, fa.loc(gb),
           "every path through add_lattice_edges offers unknown words" if ok else
           "some path returns without consulting the unknown-word handler")
    hm_bl = base_local(fa, gt["args"][3])
    hm_local = hm_bl[0] if hm_bl else None
    if hm_local is None:
        # the flag variable itself: follow plain copies back from the argument
        pl_ = op_place(gt["args"][3])
        for _ in range(6):
            if pl_ is None or pl_["p"]:
                break
            hm_local = pl_["l"]
            d_ = fa.single_def(pl_["l"])
            if d_ is None or d_[2] != "assign" or d_[3]["k"] != "use" or op_place(d_[3]["op"]) is None:
                break
            pl_ = op_place(d_[3]["op"])
    a = [S.operand(x) for x in gt["args"]]
    ok_args = a[0][0] == "ap" and a[0][1].proj[-1:] == ("unk_handler",) and \
        a[1] == ("ap", AP(("arg", 2))) and a[2] == ("ap", AP(("arg", 5))) and \
        a[4] == ("ap", AP(("arg", 1), ("max_grouping_len",)))
    ctx.ob("CAND", "add_lattice_edges|gen_unk_words-args", ok_args, fa.loc(gb),
           "gen_unk_words(dictionary's unknown handler, sentence, start_word, has_matched, "
           "tokenizer.max_grouping_len)" if ok_args else
           "gen_unk_words is called with (%s)" % ", ".join(show(x) for x in a[:5]))
    suffixes = set()
    for src, label, optional in (("user_lexicon", "user", True), ("system_lexicon", "system", False)):
        loops = loops_over(E, fa, S, src)
        cdefs = _closure_defs(E, fa)
        # `lexicon.common_prefix_iterator(suffix).for_each(&mut insert_match)`
        fe_sites = []
        if not loops:
            for fb, ft in calls_named(fa, "for_each"):
                if len(ft["args"]) < 2:
                    continue
                cl = _closure_of(fa, cdefs, ft["args"][1])
                if cl is None:
                    continue
                for srcd in _feeds(E, fa, ft["args"][0]):
                    if srcd["lex"] is not None and src in [str(x) for x in srcd["lex"].proj] and not srcd["drop"]:
                        fe_sites.append((fb, cl, srcd))
        if len(fe_sites) == 1:
            fb, cl, srcd = fe_sites[0]
            ctx.ob("CAND", "add_lattice_edges|%s-lexicon-consulted" % label, True, fa.loc(fb),
                   "the %s lexicon is searched for prefixes of the remaining text" % label)
            suffixes.add(srcd["suffix"])
            through = {fb}
            if optional:
                ulap = E.ap_operand(fa, srcd["term"]["args"][0])
                for b in sorted(fa.live_blocks()):
                    t = fa.term(b)
                    if t["k"] == "switch":
                        o = fa.origin(t["op"])
                        if o[0] == "rv" and o[1]["k"] == "discr":
                            x = E.ap_place(fa, o[1]["place"])
                            if ulap is not None and x == ulap:
                                through.add(t["otherwise"])
            okp = all(must_pass(fa, r, through) for r in rets)
            ctx.ob("CAND", "add_lattice_edges|%s-loop-on-every-path" % label, okp, fa.loc(fb),
                   "every path runs the %s-lexicon search%s" % (label, " (or the lexicon is absent)"
                                                                if optional else "") if okp else
                   "the %s-lexicon search can be bypassed" % label)
            judge_per_match_closure(ctx, E, crate, label, cdefs[cl], hm_local, fa.loc(fb))
            continue
        sites = closure_sites(E, fa, S, src) if not loops else []
        if len(sites) == 1:
            sb, cpath, caps, dest = sites[0]
            ctx.ob("CAND", "add_lattice_edges|%s-lexicon-consulted" % label, True, fa.loc(sb),
                   "the %s lexicon is handed to the matcher closure that searches it for prefixes of "
                   "the remaining text" % label)
            okp = all(must_pass(fa, r, {sb}) for r in rets)
            ctx.ob("CAND", "add_lattice_edges|%s-loop-on-every-path" % label, okp, fa.loc(sb),
                   "every path runs the %s-lexicon search%s" % (label, " (or the lexicon is absent)"
                                                                if optional else "") if okp else
                   "the %s-lexicon search can be bypassed (it is not on every path through "
                   "add_lattice_edges - a short-circuit `||`, an early return)" % label)
            sfx = judge_matcher_closure(ctx, E, crate, label, cpath, caps)
            if sfx is not None:
                suffixes.add(sfx)
            # its result reaches the flag handed to gen_unk_words
            seen_l, work, reach = set(), [gt["args"][3]], False
            while work:
                pl = op_place(work.pop())
                if pl is None or pl["l"] in seen_l:
                    continue
                seen_l.add(pl["l"])
                if pl["l"] == dest:
                    reach = True
                    break
                for (db, di, dk, dp) in fa.defs().get(pl["l"], []):
                    if dk == "call":
                        work.extend(dp["args"])
                    elif dk == "assign":
                        for key in ("op", "a", "b"):
                            if key in dp and isinstance(dp[key], dict):
                                work.append(dp[key])
            ctx.ob("CAND", "add_lattice_edges|%s-result-reaches-has_matched" % label, reach, fa.loc(gb),
                   "the matcher's result for the %s lexicon is part of the flag passed to gen_unk_words"
                   % label if reach else
                   "the flag passed to gen_unk_words does not depend on whether the %s lexicon matched"
                   % label)
            continue
        okl = len(loops) == 1 and not loops[0][1]["drop"]
        ctx.ob("CAND", "add_lattice_edges|%s-lexicon-consulted" % label, okl, fn_loc(crate, P_EDGES),
               "the %s lexicon is searched for prefixes of the remaining text" % label if okl else
               "no (or more than one) prefix search over the %s lexicon feeds a candidate loop%s" % (
                   label, " (matches pass through %s)" % loops[0][1]["drop"] if len(loops) == 1 else ""))
        if not okl:
            continue
        nb, srcd = loops[0]
        cb, ct = srcd["block"], srcd["term"]
        suffixes.add(srcd["suffix"])
        through = {nb}
        if srcd.get("outer") is not None:
            # the search runs once per member of a list that always holds this lexicon (when it is
            # there): what every path must pass is the walk over that list
            through = {srcd["outer"]}
        elif optional and srcd["frame"] is fa:
            ulap = E.ap_operand(fa, ct["args"][0])
            # None branch of `if let Some(user_lexicon) = self.dict.user_lexicon()`
            for b in sorted(fa.live_blocks()):
                t = fa.term(b)
                if t["k"] == "switch":
                    o = fa.origin(t["op"])
                    if o[0] == "rv" and o[1]["k"] == "discr":
                        x = E.ap_place(fa, o[1]["place"])
                        if ulap is not None and x == ulap:
                            for v, tg in zip(t["vals"], t["targets"]):
                                pass
                            through.add(t["otherwise"])
        okp = all(must_pass(fa, r, through) for r in rets)
        ctx.ob("CAND", "add_lattice_edges|%s-loop-on-every-path" % label, okp, fa.loc(nb),
               "every path runs the %s-lexicon search%s" % (label, " (or the lexicon is absent)"
                                                            if optional else "") if okp else
               "the %s-lexicon search can be bypassed" % label)
        some_t, none_t = loop_parts(fa, nb)
        body = fa.reachable(some_t, avoid={nb})
        ins = [(b, t) for b, t in calls_named(fa, "insert_node") if b in body]
        if not ins:
            # `for m in .. { insert_match(m); }`: the body applies a local closure to each match
            applied = []
            for xb in sorted(body):
                xt = fa.term(xb)
                if xt["k"] == "call" and (callee_of(xt) or {}).get("name") in ("call_mut", "call", "call_once") \
                        and len(xt["args"]) == 2:
                    cl = _closure_of(fa, cdefs, xt["args"][0])
                    if cl is not None:
                        applied.append((xb, cl))
            if len(applied) == 1 and nb not in fa.reachable(some_t, avoid={applied[0][0]}):
                hb0 = [b for b in body for s0 in fa.blocks[b]["stmts"] if _sets_flag(E, fa, s0, hm_local)]
                outer_flag = bool(hb0) and nb not in fa.reachable(some_t, avoid=set(hb0))
                judge_per_match_closure(ctx, E, crate, label, cdefs[applied[0][1]], hm_local,
                                        fa.loc(applied[0][0]), outer_flag)
                continue
        oki = len(ins) == 1 and nb not in fa.reachable(some_t, avoid={ins[0][0]})
        ctx.ob("CAND", "add_lattice_edges|%s-every-match-inserted" % label, oki, fa.loc(nb),
               "every %s-lexicon match becomes a lattice node" % label if oki else
               "a %s-lexicon match can be skipped without inserting a node" % label)
        # has_matched = true on every trip through the body
        hb = [b for b in body for s in fa.blocks[b]["stmts"] if _sets_flag(E, fa, s, hm_local)]
        okh = bool(hb) and nb not in fa.reachable(some_t, avoid=set(hb))
        if not okh and ins:
            # decided on the values instead of on the statement: on every path on which a match
            # of this lexicon was inserted, the flag that reaches gen_unk_words is known to be
            # true (`has_matched |= helper(..)`, a flag returned from an expanded helper, ..)
            from flow import bool_states
            st_ = bool_states(fa, [gb], marks={ins[0][0]: "match"})
            if st_ is not None:
                arr = [env for env, ms in st_[gb] if "match" in ms]
                fpl = op_place(gt["args"][3])
                okh = bool(arr) and fpl is not None and not fpl["p"] and \
                    all(env.get(fpl["l"]) == 1 for env in arr)
        ctx.ob("CAND", "add_lattice_edges|%s-sets-has_matched" % label, okh, fa.loc(nb),
               "a %s-lexicon match sets the flag passed to gen_unk_words (so invoke=0 categories "
               "add no unknown word next to a dictionary word)" % label if okh else
               "a %s-lexicon match does not set has_matched: unknown words are generated as if "
               "nothing had matched" % label)
        if ins:
            ib, it = ins[0]
            ia = [S.operand(x) for x in it["args"]]
            m_bl = [base_local(fa, it["args"][k]) for k in (3, 4, 5)]
            # end = start_word + m.end_char ; word_idx, word_param from the same match
            end = ia[3]
            ok_end = end[0] == "binop" and end[1] == "Add" and ("ap", AP(("arg", 5))) in (end[2], end[3])
            ok_pair = all(x is not None for x in m_bl) and \
                m_bl[1][1][-1:] == ["word_idx"] and m_bl[2][1][-1:] == ["word_param"] and \
                same_node(fa, m_bl[1][0], m_bl[2][0])
            ok_pos = ia[1] == ("ap", AP(("arg", 4))) and ia[2] == ("ap", AP(("arg", 5)))
            ctx.ob("PAIR", "add_lattice_edges|%s|idx-and-param-from-same-match" % label, ok_pair,
                   fa.loc(ib), "word_idx and word_param of an inserted node come from the same "
                   "lexicon match" if ok_pair else
                   "insert_node receives word_idx=%s and word_param=%s from different matches"
                   % (show(ia[4]), show(ia[5])))
            ctx.ob("CAND", "add_lattice_edges|%s|positions" % label, ok_pos and ok_end, fa.loc(ib),
                   "node inserted with (start_node, start_word, start_word + match length)"
                   if ok_pos and ok_end else
                   "node inserted with positions (%s, %s, %s)" % (show(ia[1]), show(ia[2]), show(ia[3])))
    ctx.ob("CAND", "add_lattice_edges|same-suffix", len(suffixes) == 1, fn_loc(crate, P_EDGES),
           "user and system lexicon are searched over the same remaining text" if len(suffixes) == 1
           else "the lexicons are searched over different slices: %s" % sorted(suffixes))
    # the unknown-word closure
    cl = E.closure_of_operand(fa, gt["args"][5])
    if cl is None:
        raise EngineError("CAND: closure passed to gen_unk_words not found")
    cpath, caps = cl
    cfa = E.fa(cpath)
    CS = Sym(E, cfa)
    ins = calls_named(cfa, "insert_node")
    okc = len(ins) == 1
    if okc:
        ib, it = ins[0]
        srcs = []
        for k, nm in ((2, "start_char"), (3, "end_char"), (4, "word_idx"), (5, "word_param")):
            e = CS.operand(it["args"][k])
            good = (e[0] == "call" and short(e[1]) == nm and e[2] and e[2][0][0] == "ap"
                    and e[2][0][1].root == ("arg", 2)) or \
                   (e[0] == "ap" and e[1].root == ("arg", 2) and e[1].proj[-1:] == (nm,))
            srcs.append(good)
        cap0 = Effects.map_closure_ap(E.ap_operand(cfa, it["args"][1]) or AP(("x", 0)), caps)
        ok_node = cap0 == AP(("arg", 4))
        okc = all(srcs) and ok_node
    ctx.ob("PAIR", "add_lattice_edges|unknown|node-from-one-UnkWord", okc, fn_loc(crate, cpath),
           "an unknown-word node takes start, end, word index and parameters from the one UnkWord "
           "it is generated for, and is linked at start_node" if okc else
           "the unknown-word closure builds its node from mixed sources")


def unkfall(ctx):
    """Path-sensitive pass over the one boolean: when nothing matched and no candidate was
    emitted, gen_unk_words cannot return."""
    crate = ctx.facts("A").lib
    E = Effects(crate)
    fa = E.fa(P_UNK)
    f = fa.fn
    # the bool parameter
    hm = None
    for i in range(1, fa.arg_count + 1):
        if f.locals[i]["ty"] == "bool":
            hm = i
    if hm is None:
        raise EngineError("UNKFALL: bool parameter of gen_unk_words not found")
    scans = {b for b, t in calls_named(fa, "scan_entries")}
    ctx.floor("UNKFALL", "scan_entries call sites", len(scans), 3)

    def cond_of(t):
        """(polarity) if the switch tests the has_matched local: +1 direct, -1 negated."""
        pl = op_place(t["op"])
        if pl is None:
            return None
        l = pl["l"]
        pol = 1
        for _ in range(6):
            if l == hm:
                return pol
            d = fa.single_def(l)
            if d is None or d[2] != "assign":
                return None
            rv = d[3]
            if rv["k"] == "use" and op_place(rv["op"]) is not None and not op_place(rv["op"])["p"]:
                l = op_place(rv["op"])["l"]
            elif rv["k"] == "unop" and rv["op"] == "Not" and op_place(rv["a"]) is not None:
                l = op_place(rv["a"])["l"]
                pol = -pol
            else:
                return None
        return None

    start = (0, False, "P", None)
    seen = {start}
    work = [start]
    bad = []
    nstates = 0
    while work:
        b, called, val, assume = work.pop()
        nstates += 1
        bb = fa.blocks[b]
        for s in bb["stmts"]:
            if "lhs" in s and s["lhs"]["l"] == hm and not s["lhs"]["p"]:
                k = op_const(s["rv"]["op"]) if s["rv"]["k"] == "use" else None
                val = "T" if (k and k.get("int") == 1) else "F" if (k and k.get("int") == 0) else "?"
        t = bb["term"]
        if b in scans:
            called = True
        if t["k"] == "return":
            if not called and assume is not True:
                bad.append((b, assume))
            continue
        succs = fa.succs(b)
        if t["k"] == "switch":
            pol = cond_of(t)
            if pol is not None:
                f_t, t_t = bool_switch_targets(t)
                outs = []
                for truth, tgt in ((True, t_t), (False, f_t)):
                    v = truth if pol == 1 else (not truth)   # value of has_matched on this edge
                    if val == "T" and not v:
                        continue
                    if val == "F" and v:
                        continue
                    if val == "P":
                        if assume is not None and assume != v:
                            continue
                        outs.append((tgt, called, val, v))
                    else:
                        outs.append((tgt, called, val, assume))
                for st in outs:
                    if st not in seen:
                        seen.add(st)
                        work.append(st)
                continue
        for sct in succs:
            st = (sct, called, val, assume)
            if st not in seen:
                seen.add(st)
                work.append(st)
    ctx.count("UNKFALL", "abstract states explored", nstates)
    ctx.ob("UNKFALL", "gen_unk_words|fallback-cannot-be-skipped", not bad, fn_loc(crate, P_UNK),
           "on every path on which no lexicon word matched, at least one unknown-word candidate "
           "is emitted before gen_unk_words returns (%d abstract states)" % nstates if not bad else
           "gen_unk_words can return without emitting any candidate although nothing matched "
           "(return at %s): the position would be unreachable and tokenization breaks"
           % fa.loc(bad[0][0]))
    # the early return is guarded by has_matched && !invoke
    ctx.assume("UNKFALL tracks only the has_matched flag; invoke/group/length arithmetic is not "
               "decided")


def unkgroup(ctx):
    """UNKGROUP (C03): in gen_unk_words the prefix loop skips the prefix whose length equals the
    run length exactly when the category has group=1 - whether or not the grouped candidate was
    emitted (an over-long run is omitted altogether; it must not come back as a prefix), and
    never for a group=0 category.

    Decided path-sensitively over two booleans: the outcome of CharInfo::group() and the value
    of the flag the loop tests. Both spellings are accepted: a flag local, or a direct test of
    group() inside the loop."""
    from r_panic import root_of
    crate = ctx.facts("A").lib
    E = Effects(crate)
    fa = E.fa(P_UNK)
    S = Sym(E, fa)
    loc = fn_loc(crate, P_UNK)
    # the prefix loop: a next() call whose Some-arm reaches a scan_entries call
    scans = [(b, t) for b, t in calls_named(fa, "scan_entries")]
    ctx.floor("UNKGROUP", "scan_entries call sites", len(scans), 3)
    heads = []
    for nb, nt in fa.calls():
        if any(strip_generics(x).endswith("::next") for x in callee_paths(nt)):
            some_t, none_t = loop_parts(fa, nb)
            body = fa.reachable(some_t, avoid={nb})
            inloop = [b for b, t in scans if b in body and nb in fa.reachable(b)]
            if inloop:
                heads.append((nb, some_t, inloop))
    if len(heads) != 1:
        raise EngineError("UNKGROUP: expected one prefix loop in gen_unk_words, found %d" % len(heads))
    H, some_t, inloop = heads[0]
    P = inloop[0]
    body = fa.reachable(some_t, avoid={H})
    # group() calls
    gcalls = [b for b, t in calls_named(fa, "group")
              if any(strip_generics(x).endswith("CharInfo::group") for x in callee_paths(t))]
    if not gcalls:
        raise EngineError("UNKGROUP: no CharInfo::group() call in gen_unk_words")
    # the `continue` test: a switch in the body on Eq(x, y) one of whose edges returns to the
    # loop head without passing the prefix scan
    conts = []
    for b in sorted(body):
        t = fa.term(b)
        if t["k"] != "switch":
            continue
        r = root_of(fa, t["op"])
        if r[0] == "rv" and r[1]["k"] == "binop" and r[1]["op"] in ("Eq", "Ne"):
            f_t, t_t = bool_switch_targets(t)
            eq_t = t_t if r[1]["op"] == "Eq" else f_t
            if P not in fa.reachable(eq_t, avoid={H}):
                conts.append((b, eq_t, r[1]))
    if not conts:
        r_ = _unkgroup_filter(ctx, E, crate, fa, S, H, gcalls, loc)
        if r_ is not None:
            return
        r_ = _unkgroup_table(ctx, E, crate, fa, S, H, some_t, P, gcalls, loc)
        if r_ is not None:
            return
    ctx.ob("UNKGROUP", "run-length-prefix-skip-present", len(conts) == 1, loc,
           "the prefix loop skips one length by an equality test (prefix length == run length)"
           if len(conts) == 1 else
           "the prefix loop has %d `length == run` skip tests (expected 1): with group=1 the "
           "run-length candidate is produced twice or a wrong length is dropped" % len(conts))
    if len(conts) != 1:
        return
    Q, _, eq = conts[0]
    # operands of the equality: the loop variable and the run length (Sentence::groupable)
    ea, eb = S.operand(eq["a"]), S.operand(eq["b"])
    txt = "%s == %s" % (show(ea), show(eb))
    has_run = _is_run(ea) or _is_run(eb)
    ctx.ob("UNKGROUP", "skip-compares-with-run-length", has_run, fa.loc(Q),
           "the skipped length is the run length: %s" % txt if has_run else
           "the skip test %s does not compare with Sentence::groupable(start)" % txt)
    # conditions under which Q is reached inside the body
    guards = []
    for b in sorted(body):
        t = fa.term(b)
        if b == Q or t["k"] != "switch" or not fa.dominates(b, Q):
            continue
        if b == fa.term(H).get("t"):
            continue          # the Some/None switch of the iterator
        # which edge leads to Q
        f_t, t_t = bool_switch_targets(t)
        to_q_true = Q in fa.reachable(t_t, avoid={H}) and Q not in fa.reachable(f_t, avoid={H})
        to_q_false = Q in fa.reachable(f_t, avoid={H}) and Q not in fa.reachable(t_t, avoid={H})
        if not (to_q_true or to_q_false):
            continue
        guards.append((b, to_q_true))
    if not guards:
        ctx.ob("UNKGROUP", "skip-only-for-group=1", False, fa.loc(Q),
               "the run-length prefix is skipped unconditionally: a group=0 category loses the "
               "prefix whose length equals the run")
        return
    if len(guards) > 1:
        raise EngineError("UNKGROUP: more than one condition guards the skip test at %s" % fa.loc(Q))
    gb, pol = guards[0]
    r = root_of(fa, fa.term(gb)["op"])
    neg = False
    if r[0] == "rv" and r[1]["k"] == "unop" and r[1]["op"] == "Not":
        r = root_of(fa, r[1]["a"])
        neg = True
    want_true = pol != neg       # flag value under which the skip test is reached
    if r[0] == "call" and any(strip_generics(x).endswith("CharInfo::group") for x in callee_paths(r[2])):
        ctx.ob("UNKGROUP", "skip-only-for-group=1", want_true, fa.loc(gb),
               "the skip is guarded by CharInfo::group() itself" if want_true else
               "the skip is taken when group() is false")
        return
    if r[0] != "local":
        raise EngineError("UNKGROUP: the guard of the skip test at %s is neither a flag nor group()"
                          % fa.loc(gb))
    L = r[1]
    # path-sensitive pass from the entry to the loop head: (block, flag value, group outcome)
    gsw = {}
    for g in gcalls:
        sw = fa.term(g).get("t")
        st = fa.term(sw) if sw is not None else None
        if st is None or st["k"] != "switch":
            raise EngineError("UNKGROUP: the result of group() at %s is not branched on" % fa.loc(g))
        rr = root_of(fa, st["op"])
        ng = rr[0] == "rv" and rr[1]["k"] == "unop" and rr[1]["op"] == "Not"
        f_t, t_t = bool_switch_targets(st)
        gsw[sw] = (f_t, t_t) if not ng else (t_t, f_t)
    start = (0, "?", "?")
    seen = {start}
    work = [start]
    arrivals = set()
    n = 0
    while work:
        b, lv, gv = work.pop()
        n += 1
        for s in fa.blocks[b]["stmts"]:
            if "lhs" in s and s["lhs"]["l"] == L and not s["lhs"]["p"]:
                k = op_const(s["rv"]["op"]) if s["rv"]["k"] == "use" else None
                lv = "T" if (k and k.get("int") == 1) else "F" if (k and k.get("int") == 0) else "?"
        if b == H:
            arrivals.add((lv, gv))
            continue
        if b in gsw:
            f_t, t_t = gsw[b]
            nxt = [(f_t, lv, "F"), (t_t, lv, "T")]
        else:
            nxt = [(x, lv, gv) for x in fa.succs(b)]
        for st_ in nxt:
            if st_ not in seen and not fa.blocks[st_[0]].get("cleanup"):
                seen.add(st_)
                work.append(st_)
    ctx.count("UNKGROUP", "path states explored", n)
    if not arrivals:
        raise EngineError("UNKGROUP: the prefix loop is not reachable from the entry")
    wantT = "T" if want_true else "F"
    wantF = "F" if want_true else "T"
    bad1 = [(lv, gv) for lv, gv in arrivals if gv == "T" and lv != wantT]
    bad0 = [(lv, gv) for lv, gv in arrivals if gv == "F" and lv != wantF]
    unk = [(lv, gv) for lv, gv in arrivals if gv == "?"]
    name = fa.fn.local_names().get(L, "_%d" % L)
    ctx.ob("UNKGROUP", "skip-whenever-group=1", not bad1 and not unk, fa.loc(gb),
           "on every path with group()=true the flag `%s` is set when the prefix loop starts, "
           "whether or not the grouped candidate was emitted" % name if not bad1 and not unk else
           "there is a path with group()=true on which the flag `%s` is not set when the prefix "
           "loop starts (e.g. when the run exceeds max_grouping_len+1): the omitted over-long "
           "run comes back as a prefix of the same length" % name)
    ctx.ob("UNKGROUP", "skip-only-for-group=1", not bad0, fa.loc(gb),
           "with group()=false the flag `%s` stays clear: the run-length prefix is kept" % name
           if not bad0 else
           "the flag `%s` can be set on a path with group()=false: a group=0 category loses "
           "the prefix whose length equals the run" % name)


def _group_flag_ok(fa, L, gcalls):
    """(when group() is true the flag is true at every use, when false false): the flag local is
    the result of CharInfo::group() itself - assigned once, from that call, by plain moves."""
    from r_panic import root_of
    ds = [d for d in fa.defs().get(L, []) if d[2] != "partial"]
    if len(ds) != 1:
        return False
    r = root_of(fa, {"c": {"l": L, "p": []}})
    return r[0] == "call" and r[1] in gcalls


def _unkgroup_table(ctx, E, crate, fa, S, H, some_t, P, gcalls, loc):
    """The skip in any control shape (`let skip = grouped && i == run; if !skip {..}`, a guarded
    body instead of `continue`): the loop body is run once per assignment of (flag, i == run);
    it must go back to the loop head without scanning exactly for (true, true), and reach the
    scan (or leave the loop) otherwise. Returns None when no `== run` test is found in the body
    (the caller reports the missing skip)."""
    from flow import bool_states
    none_t = [x for x in fa.succs(fa.term(H).get("t")) if x != some_t] if fa.term(H).get("t") is not None else []
    st_sw = fa.term(fa.term(H)["t"])
    none_t = [tg for v, tg in zip(st_sw["vals"], st_sw["targets"]) if v == 0] or [st_sw["otherwise"]]
    after = fa.reachable(none_t[0], avoid={H})
    body = fa.reachable(some_t, avoid={H}) - after
    eqs = []
    for b in sorted(body):
        for s0 in fa.blocks[b]["stmts"]:
            rv = s0.get("rv")
            if rv and rv["k"] == "binop" and rv["op"] in ("Eq", "Ne") and rv.get("ty") != "bool":
                ea, eb = S.operand(rv["a"]), S.operand(rv["b"])
                if _is_run(ea) or _is_run(eb):
                    eqs.append((id(s0), rv["op"] == "Ne", show(ea), show(eb)))
    if len(eqs) != 1:
        return None
    eq_id, eq_neg, ta, tb = eqs[0]
    # flags: bool locals defined outside the body and read inside it
    flags = set()
    for b in sorted(body):
        for s0 in fa.blocks[b]["stmts"]:
            rv = s0.get("rv") or {}
            for key in ("op", "a", "b"):
                pl = op_place(rv.get(key)) if isinstance(rv.get(key), dict) else None
                if pl is not None and not pl["p"] and fa.fn.locals[pl["l"]]["ty"] == "bool":
                    ds = [d for d in fa.defs().get(pl["l"], []) if d[2] != "partial"]
                    if ds and all(d[0] not in body for d in ds):
                        flags.add(pl["l"])
        t = fa.term(b)
        if t["k"] == "switch":
            pl = op_place(t["op"])
            if pl is not None and not pl["p"] and fa.fn.locals[pl["l"]]["ty"] == "bool":
                ds = [d for d in fa.defs().get(pl["l"], []) if d[2] != "partial"]
                if ds and all(d[0] not in body for d in ds):
                    flags.add(pl["l"])
    names = fa.fn.local_names()
    cands = [L for L in sorted(flags) if _group_flag_ok(fa, L, gcalls)]
    ctx.ob("UNKGROUP", "run-length-prefix-skip-present", True, loc,
           "the prefix loop tests prefix length == run length (%s == %s)" % (ta, tb))
    ctx.ob("UNKGROUP", "skip-compares-with-run-length", True, loc,
           "the tested length is the run length: %s == %s" % (ta, tb))
    if len(cands) != 1:
        ctx.ob("UNKGROUP", "skip-only-for-group=1", False, loc,
               "the prefix loop's `length == run` test is not combined with a flag that is the "
               "outcome of CharInfo::group() (flags read in the loop: %s)"
               % [names.get(L, "_%d" % L) for L in sorted(flags)])
        return True
    L = cands[0]
    table = {}
    for fv in (0, 1):
        for ev in (0, 1):
            def atom(s0, ev=ev):
                if id(s0) == eq_id:
                    return ev ^ (1 if eq_neg else 0)
                return None
            st = bool_states(fa, [P, H] + sorted(after), start=some_t, env0={L: fv}, atom=atom)
            if st is None:
                raise EngineError("UNKGROUP: the prefix loop body has too many paths to enumerate")
            out = set()
            if st[P]:
                out.add("scan")
            if st[H]:
                out.add("next")
            if any(st[x] for x in after):
                out.add("leave")
            table[(fv, ev)] = out
    ok1 = table[(1, 1)] == {"next"}
    ctx.ob("UNKGROUP", "skip-whenever-group=1", ok1, loc,
           "with group()=true (flag `%s`) the prefix whose length equals the run goes straight to "
           "the next length, whether or not the grouped candidate was emitted" % names.get(L, "_%d" % L)
           if ok1 else
           "with group()=true the run-length prefix is not skipped (the loop body does: %s): the "
           "omitted over-long run comes back as a prefix of the same length" % sorted(table[(1, 1)]))
    ok0 = all("scan" in table[k] and "next" not in table[k] for k in ((0, 0), (0, 1), (1, 0)))
    ctx.ob("UNKGROUP", "skip-only-for-group=1", ok0, loc,
           "every other prefix length reaches the prefix scan (or ends the loop at the end of the "
           "sentence); with group()=false nothing is skipped" if ok0 else
           "a prefix that must be kept is skipped: (flag, equal) -> %s"
           % {k: sorted(v) for k, v in table.items()})
    return True


def _is_run(e):
    """the run length itself: the value Sentence::groupable(start) returned (not an expression
    that merely contains it, such as min(length, run))"""
    e = strip_casts(e)
    for _ in range(4):
        if e[0] in ("ref", "deref") and len(e) > 1 and isinstance(e[1], tuple):
            e = strip_casts(e[1])
    if e[0] == "ap":         # the getter seen through: sent.groupable[start]
        return tuple(str(x) for x in e[1].proj) == ("groupable", "[]")
    return e[0] == "call" and short(e[1]) == "groupable"


def _unkgroup_filter(ctx, E, crate, fa, S, H, gcalls, loc):
    """The skip written as an adaptor: `for i in (1..=n).filter(|&i| !(grouped && i == run))`.
    The closure's truth table over (flag, i == run) must be `keep unless flag and equal`; the
    flag must be the outcome of CharInfo::group() itself. Returns None when the loop's iterator
    has no filter closure (the caller then reports the missing skip)."""
    from flow import bool_table
    from r_panic import root_of
    cur = fa.term(H)["args"][0]
    filt = None
    for _ in range(10):
        o = fa.origin(cur)
        if o[0] != "call":
            break
        nm = {strip_generics(x).rsplit("::", 1)[-1] for x in callee_paths(o[2])}
        if "filter" in nm and len(o[2]["args"]) == 2:
            if filt is not None:
                return None
            filt = o[2]
        elif nm & {"skip", "take", "step_by", "rev", "skip_while", "filter_map"}:
            return None
        elif nm & {"map", "take_while", "inspect"} and filt is not None:
            # between the range and the filter: the filter would not see the prefix length
            return None
        if not o[2]["args"]:
            break
        cur = o[2]["args"][0]
    if filt is None:
        return None
    cl = E.closure_of_operand(fa, filt["args"][1])
    if cl is None:
        return None
    cpath, _caps = cl
    cfa = E.fa(cpath)
    CS = Sym(E, cfa)
    capops = None
    for b, i, s0 in fa.stmts():
        rv = s0.get("rv")
        if rv and rv["k"] == "agg" and rv.get("agg") == "closure" and rv.get("closure") == cpath:
            capops = rv["ops"]
    if capops is None:
        return None

    def cap_index(e):
        if e[0] == "ap" and e[1].root == ("arg", 1) and len(e[1].proj) == 1 and str(e[1].proj[0]).startswith("#"):
            return int(str(e[1].proj[0])[1:])
        return None
    # the flag: a captured bool that is the result of group() in the parent
    flag_k = None
    for k, o in enumerate(capops):
        r = root_of(fa, o)
        if r[0] == "rv" and r[1]["k"] == "ref":
            r = root_of(fa, {"c": r[1]["place"]})
        if r[0] == "call" and any(strip_generics(x).endswith("CharInfo::group") for x in callee_paths(r[2])):
            flag_k = k
    eqs = []

    def atom_of(s0):
        rv = s0["rv"]
        if rv["k"] == "use":
            e = CS.operand(rv["op"])
            if cap_index(e) is not None and cap_index(e) == flag_k and \
                    cfa.fn.locals[s0["lhs"]["l"]]["ty"] == "bool":
                return (0, False)
        if rv["k"] == "binop" and rv["op"] in ("Eq", "Ne") and rv.get("ty") != "bool":
            ea, eb = CS.operand(rv["a"]), CS.operand(rv["b"])
            sides = []
            for e in (ea, eb):
                k = cap_index(e)
                sides.append("cap%d" % k if k is not None else show(e))
            eqs.append((sides, ea, eb))
            return (1, rv["op"] == "Ne")
        return None
    table = bool_table(cfa, atom_of, 2)
    want = {(0, 0): {1}, (0, 1): {1}, (1, 0): {1}, (1, 1): {0}}
    ctx.ob("UNKGROUP", "run-length-prefix-skip-present", bool(eqs), cfa.loc(0),
           "the prefix loop filters one length out by an equality test (prefix length == run length)"
           if eqs else
           "the filter of the prefix loop has no `length == run` test")
    if not eqs:
        return True
    # what is compared: the closure's item and the captured run length
    sides, ea, eb = eqs[0]
    run_ok = False
    for sd, e in zip(sides, (ea, eb)):
        if sd.startswith("cap"):
            k = int(sd[3:])
            if k < len(capops) and _is_run(S.operand(capops[k])):
                run_ok = True
    item_ok = any(e[0] == "ap" and e[1].root == ("arg", 2) for e in (ea, eb))
    ctx.ob("UNKGROUP", "skip-compares-with-run-length", run_ok and item_ok, cfa.loc(0),
           "the filtered length is the run length" if run_ok and item_ok else
           "the filter's equality test (%s == %s) does not compare the prefix length with "
           "Sentence::groupable(start)" % tuple(sides))
    ok1 = flag_k is not None and table[(1, 1)] == want[(1, 1)]
    ctx.ob("UNKGROUP", "skip-whenever-group=1", ok1, cfa.loc(0),
           "with group()=true the prefix whose length equals the run is filtered out, whether or "
           "not the grouped candidate was emitted (the flag is the result of group() itself)"
           if ok1 else
           "the filter keeps the run-length prefix for a group=1 category (%s): the omitted "
           "over-long run comes back as a prefix of the same length"
           % ("no captured group() result" if flag_k is None else "returns %s" % sorted(map(str, table[(1, 1)]))))
    ok0 = flag_k is not None and all(table[k_] == want[k_] for k_ in ((0, 0), (0, 1), (1, 0)))
    ctx.ob("UNKGROUP", "skip-only-for-group=1", ok0, cfa.loc(0),
           "every other prefix length is kept; with group()=false nothing is filtered" if ok0 else
           "the filter drops prefixes it must keep (flag, equal) -> %s"
           % {k_: sorted(map(str, v)) for k_, v in table.items()})
    return True


def _decides_error(fa, cb):
    """the result of the call at block cb feeds a branch one side of which can only end in an
    error (`if v.is_empty() { return Err(..) }`, `.then(..).ok_or(..)?`); a length that is merely
    added up or stored does not reject anything"""
    from flow import back_slice, result_exits
    ok_b, err_b, other_b = result_exits(fa)
    if fa.fn.j.get("kind") == "Closure":
        # inside a closure (e.g. of an iterator adaptor) any branch on the result counts: the
        # error is raised by the consumer
        ok_b, err_b = set(), None
    for b in sorted(fa.live_blocks()):
        t = fa.term(b)
        if t["k"] != "switch":
            continue
        src = back_slice(fa, t["op"], lambda bb, tt: ("call", bb) if bb == cb else None)
        if ("call", cb) not in src:
            continue
        if err_b is None:
            return True
        for x in set(list(t["targets"]) + [t["otherwise"]]):
            r = fa.reachable(x, avoid={b})
            if (r & err_b) and not (r & ok_b) and not (r & other_b):
                return True
    return False


def unkcover(ctx):
    """UNKCOVER (C10, C01): every character must be able to start some candidate. A character
    that no lexicon entry covers relies on the unk.def entries of its primary category, so the
    builder has to reject a category that has no entry (MeCab does). The rule looks for the
    rejecting test: in UnkHandler::from_reader (and the closures it creates) some emptiness test
    (`is_empty()` / `len()`) on a per-category list `Vec<UnkEntry>` while the function can still
    return Err."""
    crate = ctx.facts("A").lib
    E = Effects(crate)
    p = "vibrato::dictionary::unknown::UnkHandler::from_reader"
    f = crate.fns.get(p)
    if f is None or not f.body:
        raise EngineError("UNKCOVER: anchor lost: %s" % p)
    fns = [p] + [q for q in crate.fns if q.startswith(p + "::{closure")]
    tests = []
    ncalls = 0
    for q in fns:
        fa = E.fa(q)
        for b, t in fa.calls():
            ncalls += 1
            nm = {strip_generics(x).rsplit("::", 1)[-1] for x in callee_paths(t)}
            if not (nm & {"is_empty", "len"}) or not t["args"]:
                continue
            pl = op_place(t["args"][0])
            ty = fa.fn.locals[pl["l"]]["ty"] if pl else ""
            if ty.replace(" ", "").endswith("Vec<vibrato::dictionary::unknown::UnkEntry>") and ty.startswith("&"):
                # the receiver must be an element (per-category list), not the flat entries table
                ap = E.ap_operand(fa, t["args"][0])
                per_cat = ap is not None and ("[]" in ap.proj or (q != p and ap.root[0] == "arg"))
                if per_cat and _decides_error(fa, b):
                    tests.append(fa.loc(b))
    ctx.floor("UNKCOVER", "calls inspected in UnkHandler::from_reader", ncalls, 10)
    ok = bool(tests)
    ctx.ob("UNKCOVER", "%s|category-without-entries-rejected" % p, ok, "%s:%s" % (f.file, f.line),
           "UnkHandler::from_reader tests the per-category entry lists for emptiness (%s)" % tests
           if ok else
           "UnkHandler::from_reader never tests whether a category has unk.def entries: a "
           "category defined in char.def without entries is accepted, and a character of that "
           "category which no lexicon entry covers cannot start any candidate (tokenization "
           "panics in Lattice::append_top_nodes)")


def _lin(e):
    """(core expression text, constant offset) of `x`, `x + c`, `x - c`, saturating/wrapping forms"""
    e = strip_casts(e)
    if e[0] == "binop" and e[1] in ("Add", "AddWithOverflow") and strip_casts(e[3])[0] == "const":
        t, c = _lin(e[2])
        return t, c + strip_casts(e[3])[1]
    if e[0] == "binop" and e[1] in ("Add", "AddWithOverflow") and strip_casts(e[2])[0] == "const" \
            and isinstance(strip_casts(e[2])[1], int):
        t, c = _lin(e[3])
        return t, c + strip_casts(e[2])[1]
    if e[0] == "binop" and e[1] in ("Sub", "SubWithOverflow") and strip_casts(e[3])[0] == "const":
        t, c = _lin(e[2])
        return t, c - strip_casts(e[3])[1]
    if e[0] == "call" and short(e[1]) in ("saturating_add", "wrapping_add") and len(e[2]) == 2 \
            and strip_casts(e[2][1])[0] == "const":
        t, c = _lin(e[2][0])
        return t, c + strip_casts(e[2][1])[1]
    if e[0] == "call" and short(e[1]) in ("saturating_sub", "wrapping_sub") and len(e[2]) == 2 \
            and strip_casts(e[2][1])[0] == "const":
        t, c = _lin(e[2][0])
        return t, c - strip_casts(e[2][1])[1]
    return show(e), 0


def unkspans(ctx):
    """UNKSPAN (C03): the arithmetic shape of the unknown-word candidates in gen_unk_words.
      * the grouped candidate spans start..start+run and is emitted iff run - limit <= 1
        (limit = max_grouping_len, unbounded when None): `omitted when the run exceeds
        max_grouping_len + 1`;
      * the prefix candidates are start..start+i for i in 1..=min(length, run), stopping at the
        end of the sentence;
      * the fallback candidate is the single character start..start+1.
    Comparisons are normalised as linear inequalities, so `run - 1 <= limit`, `run <= limit + 1`
    and `run < limit + 2` are the same rule instance."""
    crate = ctx.facts("A").lib
    E = Effects(crate)
    fa = E.fa(P_UNK)
    S = Sym(E, fa)
    loc = fn_loc(crate, P_UNK)
    scans = [(b, t, S.operand(t["args"][1]), S.operand(t["args"][2])) for b, t in calls_named(fa, "scan_entries")]
    ctx.floor("UNKSPAN", "scan_entries call sites", len(scans), 3)
    start_txt = {show(s) for _, _, s, _ in scans}
    ok0 = len(start_txt) == 1
    ctx.ob("UNKSPAN", "all-candidates-start-at-the-position", ok0, loc,
           "every candidate starts at the position being processed (%s)" % sorted(start_txt) if ok0 else
           "candidates start at different positions: %s" % sorted(start_txt))
    start = sorted(start_txt)[0]
    kinds = {}
    for b, t, s, e in scans:
        txt, c = _lin(e)
        if txt == start and c == 1:
            kinds.setdefault("single", []).append(b)
        elif "groupable" in show(e) and "Add" in show(e):
            kinds.setdefault("grouped", []).append(b)
        else:
            kinds.setdefault("prefix", []).append((b, show(e)))
    okk = all(len(kinds.get(k, [])) == 1 for k in ("single", "grouped", "prefix"))
    ctx.ob("UNKSPAN", "three-candidate-forms", okk, loc,
           "one grouped (start+run), one prefix (start+i) and one single-character (start+1) "
           "candidate form" if okk else "candidate forms found: %s" % {k: len(v) for k, v in kinds.items()})
    if not okk:
        return
    gb = kinds["grouped"][0]
    # the limit test: the nearest dominating comparison that mentions the run length
    best = None
    for b in sorted(fa.dominators().get(gb, ()), reverse=True):
        t = fa.term(b)
        if t["k"] != "switch":
            continue
        e = S.operand(t["op"])
        if e[0] == "binop" and e[1] in ("Le", "Lt", "Ge", "Gt") and "groupable" in show(e):
            best = (b, e, t)
            break
    if best is None:
        ctx.ob("UNKSPAN", "grouped-candidate-limited", False, fa.loc(gb),
               "the grouped candidate is not guarded by a comparison of the run length with "
               "max_grouping_len: over-long runs are not omitted")
    else:
        b, e, t = best
        f_t, t_t = bool_switch_targets(t)
        on_true = gb in fa.reachable(t_t, avoid={f_t}) if t_t != f_t else False
        (lt, lc), (rt, rc) = _lin(e[2]), _lin(e[3])
        opn = e[1]
        # normalise to  run - limit <= k  on the edge that reaches the grouped candidate
        if "groupable" in lt:
            run_side = "l"
        else:
            run_side = "r"
        if not on_true:
            opn = {"Le": "Gt", "Lt": "Ge", "Ge": "Lt", "Gt": "Le"}[opn]
        # l + lc OP r + rc
        if run_side == "l":
            # run + lc OP lim + rc  ->  run - lim OP rc - lc
            k = rc - lc
            if opn == "Lt":
                k -= 1
            ok = opn in ("Le", "Lt")
        else:
            # lim + lc OP run + rc -> run - lim OP' lc - rc
            k = lc - rc
            if opn == "Gt":
                k -= 1
            ok = opn in ("Ge", "Gt")
        lim_txt = rt if run_side == "l" else lt
        lim_e = strip_casts(e[3] if run_side == "l" else e[2])
        while lim_e[0] == "binop" and lim_e[1] in ("Add", "Sub", "AddWithOverflow", "SubWithOverflow"):
            lim_e = strip_casts(lim_e[2] if strip_casts(lim_e[3])[0] == "const" else lim_e[3])
        if lim_e[0] == "phi":
            # `match max_grouping_len { Some(l) => l, None => MAX }`: one value per arm
            vals = []
            for d in fa.defs().get(lim_e[1], []):
                if d[2] == "assign" and d[3]["k"] == "use":
                    vals.append(show(S.operand(d[3]["op"])))
                else:
                    vals.append("?")
            if len(vals) == 2 and any("arg5" in v for v in vals) and any(v.isdigit() for v in vals):
                lim_txt = "unwrap_or(%s, %s)" % ([v for v in vals if "arg5" in v][0], [v for v in vals if v.isdigit()][0])
        oklim = "map_or" in lim_txt or "unwrap_or" in lim_txt or "arg5" in lim_txt
        good = ok and k == 1 and oklim
        ctx.ob("UNKSPAN", "grouped-candidate-limited", good, fa.loc(b),
               "the grouped candidate is emitted iff run - limit <= 1 (limit = %s)" % lim_txt[:50] if good else
               "the grouped candidate is emitted iff run - limit %s %s (limit = %s): the property "
               "omits it exactly when the run exceeds max_grouping_len + 1"
               % ("<=" if ok else "?", k, lim_txt[:50]))
        # default: unbounded when no limit is given
        if "map_or" in lim_txt or "unwrap_or" in lim_txt:
            okd = "18446744073709551615" in lim_txt
            ctx.ob("UNKSPAN", "no-limit-means-unbounded", okd, fa.loc(b),
                   "without max_grouping_len the limit is usize::MAX" if okd else
                   "without max_grouping_len the limit is not unbounded (%s)" % lim_txt[:60])
    # the prefix loop range
    pb, ptxt = kinds["prefix"][0]
    rng = None
    for b, t in fa.calls():
        if {strip_generics(x).rsplit("::", 1)[-1] for x in callee_paths(t)} & {"new"} and \
                "RangeInclusive" in " ".join(callee_paths(t)) and len(t["args"]) == 2:
            rng = ("incl", S.operand(t["args"][0]), S.operand(t["args"][1]), b)
    for b, i, s in fa.stmts():
        rv = s.get("rv")
        if rv and rv["k"] == "agg" and str(rv.get("adt", "")).endswith("ops::Range") and len(rv["ops"]) == 2:
            rng = rng or ("excl", S.operand(rv["ops"][0]), S.operand(rv["ops"][1]), b)
    if rng is None:
        raise EngineError("UNKSPAN: the prefix loop's range was not recognised")
    kind, lo, hi, rb = rng
    hit, hic = _lin(hi)
    if kind == "excl":
        hic -= 1
    oklo = strip_casts(lo) == ("const", 1)
    okhi = hic == 0 and "min(" in hit and "length(" in hit and "groupable" in hit
    ctx.ob("UNKSPAN", "prefix-lengths-1..=min(length,run)", oklo and okhi, fa.loc(rb),
           "prefix lengths run over 1..=min(length, run)" if oklo and okhi else
           "prefix lengths run over %s..%s%s: the property asks for 1..=min(length, run)"
           % (show(lo), "=" if kind == "incl" else "", show(hi)[:70]))
    # stopping at the end of the sentence: a prefix candidate may be skipped on account of the
    # sentence length only when it would end *beyond* the last character (end - len >= 1); a
    # candidate ending exactly at the end of the sentence is a candidate like any other
    nlen = 0
    for b in sorted(fa.live_blocks()):
        t = fa.term(b)
        if t["k"] != "switch" or pb not in fa.reachable(b):
            continue
        e = S.operand(t["op"])
        if not (e[0] == "binop" and e[1] in ("Lt", "Le", "Gt", "Ge") and "len_char(" in show(e)):
            continue
        f_t, t_t = bool_switch_targets(t)
        # which edge still reaches the prefix candidate without coming back through this test?
        keep_true = pb in fa.reachable(t_t, avoid={b})
        keep_false = pb in fa.reachable(f_t, avoid={b})
        if keep_true == keep_false:
            continue
        (lt, lc), (rt, rc) = _lin(e[2]), _lin(e[3])
        len_left = "len_char(" in lt
        opn = e[1] if not keep_true else {"Lt": "Ge", "Le": "Gt", "Gt": "Le", "Ge": "Lt"}[e[1]]
        # on the skipping edge:  L + lc OPN R + rc ; want  end - len >= 1
        if len_left:     # len + lc OPN end + rc  ->  end - len  OPN'  lc - rc
            k = (lc - rc + 1) if opn == "Lt" else (lc - rc) if opn == "Le" else None
        else:            # end + lc OPN len + rc  ->  end - len OPN rc - lc
            k = (rc - lc + 1) if opn == "Gt" else (rc - lc) if opn == "Ge" else None
        nlen += 1
        okl = k is not None and k >= 1
        ctx.ob("UNKSPAN", "prefix-skipped-only-beyond-the-sentence-end|%d" % nlen, okl, fa.loc(b),
               "a prefix candidate is skipped for length only when it would end beyond the sentence"
               if okl else
               "a prefix candidate is skipped when end - len_char >= %s: a candidate that ends "
               "exactly at the end of the sentence is dropped, so the last word of a sentence gets "
               "fewer candidates than the same word followed by more text" % k)


def unkscan(ctx):
    """UNKSCAN (C03, C01): `each unknown candidate carries the ids, cost and feature of every
    unk.def entry of the first character's primary category`. In UnkHandler::scan_entries
      * the loop runs over exactly offsets[base_id] .. offsets[base_id + 1] (both bounds read
        from the offsets table at the primary category of the CharInfo it was given, nothing
        clamps them);
      * the entry it reads is entries[loop variable];
      * the candidate handed to the callback has left_id / right_id / word_cost from that entry,
        word_id = that loop variable and the span it was given."""
    crate = ctx.facts("A").lib
    E = Effects(crate)
    p = "vibrato::dictionary::unknown::UnkHandler::scan_entries"
    f = crate.fns.get(p)
    if f is None or not f.body:
        raise EngineError("UNKSCAN: anchor lost: %s" % p)
    fa = E.fa(p)
    S = Sym(E, fa, depth=30)
    loc = fn_loc(crate, p)
    names = f.j.get("param_names") or []
    arg = {n: i + 1 for i, n in enumerate(names)}
    # the range aggregate feeding the loop
    rngs = [(b, i, s0["rv"]) for b, i, s0 in fa.stmts()
            if s0.get("rv") and s0["rv"]["k"] == "agg" and str(s0["rv"].get("adt", "")).endswith("ops::Range")]
    if len(rngs) != 1:
        raise EngineError("UNKSCAN: expected one range loop in scan_entries, found %d" % len(rngs))
    rb, ri, rrv = rngs[0]

    def offsets_index(op):
        """(is a read of self.offsets, linear form of the index) of a range bound"""
        o = fa.origin(op)
        cur = op
        for _ in range(6):
            o = fa.origin(cur)
            if o[0] == "call" and sorted({strip_generics(x).rsplit("::", 1)[-1] for x in callee_paths(o[2])})[0] in ("index", "deref", "clone"):
                t = o[2]
                if len(t["args"]) == 2:
                    base = show(S.operand(t["args"][0]))
                    return ("offsets" in base and base.startswith("arg1")), _lin(S.operand(t["args"][1])), None
                cur = t["args"][0]
                continue
            break
        return False, (show(S.operand(op)), 0), o[0]
    (lo_ok, (lo_t, lo_c), _), (hi_ok, (hi_t, hi_c), _) = offsets_index(rrv["ops"][0]), offsets_index(rrv["ops"][1])
    okr = lo_ok and hi_ok and lo_t == hi_t and lo_c == 0 and hi_c == 1 and "base_id(" in lo_t and \
        ("arg%d" % arg.get("cinfo", 4)) in lo_t
    ctx.ob("UNKSCAN", "scan_entries|all-entries-of-the-primary-category", okr, fa.loc(rb, ri),
           "the loop runs over offsets[base_id] .. offsets[base_id + 1] of the given CharInfo" if okr else
           "scan_entries does not loop over exactly offsets[base_id]..offsets[base_id+1] (bounds: %s%+d .. "
           "%s%+d%s): some unk.def entries of the category are never offered, or entries of another "
           "category are" % (lo_t[:50], lo_c, hi_t[:50], hi_c,
                             "" if lo_ok and hi_ok else "; a bound is not read straight from the offsets table"))
    # the UnkWord aggregate
    aggs = [(b, i, s0["rv"]) for b, i, s0 in fa.stmts()
            if s0.get("rv") and s0["rv"]["k"] == "agg" and str(s0["rv"].get("adt", "")).endswith("unknown::UnkWord")]
    if len(aggs) != 1:
        raise EngineError("UNKSCAN: expected one UnkWord construction in scan_entries")
    ab, ai, arv = aggs[0]
    fields = dict(zip(arv["fields"], arv["ops"]))
    # the loop variable: item of next() on the range iterator
    nexts = calls_named(fa, "next")
    if len(nexts) != 1:
        raise EngineError("UNKSCAN: loop shape not recognised")
    it_local = nexts[0][1]["dest"]["l"]

    def is_loop_var(op):
        pl = op_place(op)
        for _ in range(8):
            if pl is None:
                return False
            if pl["l"] == it_local:
                return True
            d = fa.single_def(pl["l"])
            if d is None or d[2] != "assign" or d[3]["k"] not in ("use", "cast"):
                return False
            pl = op_place(d[3]["op"])
        return False

    def entry_field(op, name):
        """operand = entries[loop var].<name>"""
        pl = op_place(op)
        for _ in range(8):
            if pl is None:
                return False
            fs = [e.get("n") for e in pl["p"] if e != "*" and isinstance(e, dict) and "f" in e]
            d = fa.single_def(pl["l"])
            if fs:
                if fs != [name]:
                    return False
                base = pl["l"]
                for _ in range(8):
                    d = fa.single_def(base)
                    if d is None:
                        return False
                    if d[2] == "call":
                        t = d[3]
                        return (callee_of(t) or {}).get("name") == "index" and len(t["args"]) == 2 and \
                            "entries" in show(S.operand(t["args"][0])) and is_loop_var(t["args"][1])
                    rv = d[3]
                    nxt = op_place(rv["op"]) if rv["k"] in ("use", "cast") else rv.get("place") if rv["k"] == "ref" else None
                    if nxt is None or [e for e in nxt["p"] if e != "*"]:
                        return False
                    base = nxt["l"]
                return False
            if d is None or d[2] != "assign" or d[3]["k"] not in ("use", "cast"):
                return False
            pl = op_place(d[3]["op"])
        return False
    bad = []
    for nm in ("left_id", "right_id", "word_cost"):
        if nm not in fields or not entry_field(fields[nm], nm):
            bad.append("%s = %s" % (nm, show(S.operand(fields[nm]))[:50] if nm in fields else "?"))
    if "word_id" not in fields or not is_loop_var(fields["word_id"]):
        bad.append("word_id = %s" % (show(S.operand(fields["word_id"]))[:50] if "word_id" in fields else "?"))
    for nm in ("start_char", "end_char"):
        o = fa.origin(fields[nm]) if nm in fields else ("?",)
        if not (o[0] == "arg" and o[1] == arg.get(nm)):
            bad.append("%s = %s" % (nm, show(S.operand(fields[nm]))[:40] if nm in fields else "?"))
    ctx.ob("UNKSCAN", "scan_entries|candidate-is-the-entry-it-names", not bad, fa.loc(ab, ai),
           "each candidate carries left_id/right_id/word_cost of entries[i], word_id = i and the given span"
           if not bad else
           "the unknown candidate built in scan_entries does not describe the entry it names (%s): "
           "tokens report the parameters or feature of another unk.def entry" % "; ".join(bad))


def grouprun(ctx):
    """GROUPRUN (C03, C12, C01): `the maximal run of category-sharing characters` - a run continues
    from one character to the next when *these two* characters share a category (each adjacent
    pair; a character with two categories bridges them). In Sentence::compute_groupable every
    test that decides continuation is `(A & B) != 0` where A and B are category sets of single
    characters: `cate_idset()` of an element of cinfos, or a variable every definition of which
    is such a value. A variable that is updated with the result of an AND (`shared &= ..`) makes
    the run require one category common to the whole run - a different, smaller run."""
    crate = ctx.facts("A").lib
    E = Effects(crate)
    p = "vibrato::sentence::Sentence::compute_groupable"
    f = crate.fns.get(p)
    if f is None or not f.body:
        raise EngineError("GROUPRUN: anchor lost: %s" % p)
    region = [p] + sorted(q for q in crate.fns if q.startswith(p + "::{closure") and crate.fns[q].body)
    n = 0
    for q in region:
        fa = E.fa(q)
        S = Sym(E, fa, depth=20)

        def single_char_set(op, seen=None):
            """operand is cate_idset(<one CharInfo>) or a variable all of whose definitions are"""
            seen = seen if seen is not None else set()
            pl = op_place(op)
            if pl is None:
                return False, "a constant"
            if pl["p"] and not all(e == "*" for e in pl["p"]):
                # a captured variable of a closure / a field: judge its definitions in the parent
                e = S.operand(op)
                return ("cate_idset(" in show(e) and "BitAnd" not in show(e)), show(e)[:50]
            l = pl["l"]
            if l in seen:
                return True, ""
            seen.add(l)
            ds = [d for d in fa.defs().get(l, []) if d[2] != "partial"]
            if not ds:
                if 1 <= l <= fa.arg_count:
                    return True, ""         # a parameter (closure item): a CharInfo's set by type
                return False, "an undefined value"
            for (b, i, kind, payload) in ds:
                if kind == "call":
                    nm = (callee_of(payload) or {}).get("name")
                    if nm == "cate_idset":
                        continue
                    if nm in ("clone", "deref", "unwrap", "copied") and payload["args"]:
                        ok, why = single_char_set(payload["args"][0], seen)
                        if not ok:
                            return False, why
                        continue
                    if nm == "replace" and len(payload["args"]) == 2 and \
                            any("mem::replace" in x for x in callee_paths(payload)):
                        # `mem::replace(&mut var, new)`: the former value of `var`; `var` now holds `new`
                        for a in payload["args"]:
                            ok, why = single_char_set(a, seen)
                            if not ok:
                                return False, why
                        continue
                    return False, "the result of %s()" % nm
                rv = payload
                if rv["k"] in ("use", "cast"):
                    if op_const(rv["op"]) is not None:
                        return False, "a constant"
                    ok, why = single_char_set(rv["op"], seen)
                    if not ok:
                        return False, why
                elif rv["k"] == "ref":
                    ok, why = single_char_set({"c": rv["place"]}, seen)
                    if not ok:
                        return False, why
                elif rv["k"] == "binop":
                    return False, "the result of %s (an accumulated value)" % rv["op"]
                else:
                    return False, rv["k"]
            return True, ""

        for b in sorted(fa.live_blocks()):
            t = fa.term(b)
            if t["k"] != "switch":
                continue
            o = fa.origin(t["op"])
            if not (o[0] == "rv" and o[1]["k"] == "binop" and o[1]["op"] in ("Ne", "Eq")):
                continue
            for side in ("a", "b"):
                oo = fa.origin(o[1][side])
                if oo[0] == "rv" and oo[1]["k"] == "binop" and oo[1]["op"] == "BitAnd":
                    n += 1
                    bad = []
                    for k in ("a", "b"):
                        ok, why = single_char_set(oo[1][k])
                        if not ok:
                            bad.append(why)
                    ctx.ob("GROUPRUN", "compute_groupable|continuation-test-on-two-single-characters|%d" % n,
                           not bad, fa.loc(b),
                           "a run continues when two single characters share a category" if not bad else
                           "the run-continuation test of compute_groupable ANDs %s: the run is no longer "
                           "`each adjacent pair shares a category` (a character in two categories no "
                           "longer bridges them)" % " and ".join(bad))
        # closures mutating a captured accumulator: `shared &= x` inside take_while
        for b, i, s0 in fa.stmts():
            rv = s0.get("rv")
            if rv and rv["k"] == "binop" and rv["op"] == "BitAnd" and q != p and s0["lhs"]["p"]:
                n += 1
                ctx.ob("GROUPRUN", "compute_groupable|no-accumulated-intersection|%d" % n, False, fa.loc(b, i),
                       "a closure of compute_groupable stores `captured & set` back into the captured "
                       "variable: the run requires one category common to all of its characters "
                       "instead of each adjacent pair sharing one")
                continue
            if rv and rv["k"] == "binop" and rv["op"] == "BitAnd" and q != p:
                # result stored back into a capture?
                for b2, i2, s2 in fa.stmts():
                    if "lhs" in s2 and s2["lhs"]["p"] and s2["rv"]["k"] == "use" and \
                            op_place(s2["rv"]["op"]) and op_place(s2["rv"]["op"])["l"] == s0["lhs"]["l"]:
                        n += 1
                        ctx.ob("GROUPRUN", "compute_groupable|no-accumulated-intersection|%d" % n, False, fa.loc(b, i),
                               "a closure of compute_groupable stores `captured & set` back into the captured "
                               "variable: the run requires one category common to all of its characters "
                               "instead of each adjacent pair sharing one")
    ctx.floor("GROUPRUN", "run-continuation tests", n, 1)


def charrange(ctx):
    """CHARRANGE (C03, C12): `A character's categories come from the last char.def range line
    covering it (inclusive bounds)`.
      * parse_char_range stores start = lower bound and end = upper bound + 1 (exclusive);
      * from_reader overwrites exactly the code points [r.start, r.end) of the table, range by
        range in file order (later lines win by overwriting).
    The window of an iterator chain is computed symbolically: take(n).skip(m) visits [m, n),
    skip(m).take(n) visits [m, m + n), a slice [a..b] visits [a, b)."""
    crate = ctx.facts("A").lib
    E = Effects(crate)
    P_RD = "vibrato::dictionary::character::CharProperty::from_reader"
    P_PR = "vibrato::dictionary::character::CharProperty::parse_char_range"
    # --- parser: the CharRange aggregate
    fa = E.fa(P_PR)
    S = Sym(E, fa)
    agg = None
    for b, i, s in fa.stmts():
        rv = s.get("rv")
        if rv and rv["k"] == "agg" and str(rv.get("adt", "")).endswith("CharRange"):
            agg = dict(zip(rv["fields"], [S.operand(o) for o in rv["ops"]]))
    if agg is None:
        raise EngineError("CHARRANGE: construction of CharRange not found")
    st, sc = _lin(agg["start"])
    et, ec = _lin(agg["end"])
    # which columns of the split range text each bound is computed from: `r[0]` / `r.get(1)`
    from flow import back_slice

    def column(b, t):
        nm = {strip_generics(x).rsplit("::", 1)[-1] for x in callee_paths(t)}
        if nm & {"index", "get", "get_unchecked", "nth"} and len(t["args"]) == 2:
            k = op_const(t["args"][1])
            if k is None:
                o = fa.origin(t["args"][1])
                k = o[1] if o[0] == "const" else None
            if k is not None and "int" in k:
                return ("col", k["int"])
        if nm & {"first"}:
            return ("col", 0)
        if nm & {"last"}:
            return ("col", "last")
        return None
    agg_ops = None
    for b, i, s in fa.stmts():
        rv = s.get("rv")
        if rv and rv["k"] == "agg" and str(rv.get("adt", "")).endswith("CharRange"):
            agg_ops = dict(zip(rv["fields"], rv["ops"]))
    scol = {x[1] for x in back_slice(fa, agg_ops["start"], column) if x[0] == "col"}
    ecol = {x[1] for x in back_slice(fa, agg_ops["end"], column) if x[0] == "col"}
    radix = bool(calls_named(fa, "from_str_radix"))
    okcols = radix and scol == {0} and 1 in ecol and ecol <= {0, 1}
    ok = sc == 0 and ec == 1 and okcols
    if sc == 0 and ec == 1 and not okcols:
        ctx.ob("CHARRANGE", "%s|end-is-upper-bound-plus-one" % P_PR, False, fn_loc(crate, P_PR),
               "the lower bound of a char.def range is computed from column(s) %s and the upper "
               "bound from column(s) %s of `LOW..HIGH` (expected {0} and {0, 1})"
               % (sorted(map(str, scol)), sorted(map(str, ecol))))
        ok = None
    if ok is not None:
        ctx.ob("CHARRANGE", "%s|end-is-upper-bound-plus-one" % P_PR, ok, fn_loc(crate, P_PR),
           "CharRange{start: lower bound, end: upper bound + 1}" if ok else
           "CharRange is built with start offset %+d and end offset %+d from the parsed bounds "
           "(expected +0 / +1): the upper bound is not inclusive" % (sc, ec))
    # --- table fill
    fa = E.fa(P_RD)
    S = Sym(E, fa)
    fills = []
    for nb, nt in fa.calls():
        if not any(strip_generics(x).endswith("::next") for x in callee_paths(nt)):
            continue
        # chain of adaptors back to chr2inf
        chain = []
        cur = nt["args"][0]
        for _ in range(12):
            o = fa.origin(cur)
            if o[0] != "call":
                break
            nm = sorted({strip_generics(x).rsplit("::", 1)[-1] for x in callee_paths(o[2])})[0]
            chain.append((nm, [S.operand(a) for a in o[2]["args"][1:]]))
            if not o[2]["args"]:
                break
            cur = o[2]["args"][0]
        names_ = [c[0] for c in chain]
        if "iter_mut" not in names_ or not ({"take", "skip"} & set(names_)):
            continue
        lo, hi = ("0", 0), None
        # apply adaptors innermost first
        for nm, a in reversed(chain):
            if nm == "skip":
                t, c = _lin(a[0])
                lo = (t, c) if lo == ("0", 0) else ("%s+%s" % (lo[0], t), lo[1] + c)
                if hi is not None and hi[2] == "len":
                    hi = (hi[0], hi[1], "len-skipped")   # take(n).skip(m): upper bound stays n
            elif nm == "take":
                t, c = _lin(a[0])
                if lo == ("0", 0):
                    hi = (t, c, "abs")
                else:
                    hi = ("%s+%s" % (lo[0], t), lo[1] + c, "rel")
        fills.append((nb, lo, hi, names_))
    # other spellings of the same fill: a slice `table[a..b]` (then fill / iter_mut), or a loop
    # `for c in a..b { table[c] = .. }`
    for b, t in fa.calls():
        nm = {strip_generics(x).rsplit("::", 1)[-1] for x in callee_paths(t)}
        if not (nm & {"index_mut"}) or len(t["args"]) != 2:
            continue
        pl = op_place(t["args"][0])
        if pl is None or "CharInfo" not in fa.fn.locals[pl["l"]]["ty"]:
            continue
        idx = S.operand(t["args"][1])
        if idx[0] == "agg" and (idx[1].endswith("ops::Range") or idx[1].endswith("Range::Range")):
            fills.append((b, _lin(idx[2]["start"]), _lin(idx[2]["end"]) + ("abs",), ["slice"]))
        elif idx[0] == "ap" and idx[1].root[0] == "call":
            # element of a range iterator: find the Range aggregate it iterates
            o = fa.origin(t["args"][1])
            cur = None
            if o[0] == "place" and o[1].root[0] == "call":
                cur = fa.term(o[1].root[1])["args"][0]
            for _ in range(8):
                if cur is None:
                    break
                oo = fa.origin(cur)
                if oo[0] == "call" and oo[2]["args"]:
                    cur = oo[2]["args"][0]
                    continue
                if oo[0] == "rv" and oo[1]["k"] == "agg" and str(oo[1].get("adt", "")).endswith("ops::Range"):
                    lo_e, hi_e = S.operand(oo[1]["ops"][0]), S.operand(oo[1]["ops"][1])
                    fills.append((b, _lin(lo_e), _lin(hi_e) + ("abs",), ["for-range"]))
                break
    ctx.floor("CHARRANGE", "range fills of the character table", len(fills), 1)
    for k, (nb, lo, hi, names_) in enumerate(fills):
        oklo = lo[0].endswith(".start") and lo[1] == 0
        okhi = hi is not None and hi[0].endswith(".end") and hi[1] == 0 and hi[2] in ("abs", "len-skipped")
        if hi is not None and hi[2] == "rel":
            # skip(start).take(n): n must be end - start
            okhi = False
        ctx.ob("CHARRANGE", "%s|fill|%d" % (P_RD, k), oklo and okhi, fa.loc(nb),
               "the table is overwritten for the code points [r.start, r.end)" if oklo and okhi else
               "the table is overwritten for [%s%+d, %s) (adaptors %s): a range line changes the "
               "category of a code point outside its inclusive bounds (or misses its last one)"
               % (lo[0], lo[1], ("%s%+d" % (hi[0], hi[1])) if hi else "?", names_))

"""RESET: persistent-buffer typestate of Worker (C04, C13, C01).

Locations = fields reachable from `Worker` (enumerated from the struct definitions).  Abstract
state per location: Dirty (content depends on earlier calls) / Clean (killed - cleared or wholly
overwritten - during the current protocol step).  Scenarios:

  W0  reset_sentence from an all-Dirty worker: no grow/read of a Dirty location; every field of
      `sent` and the result list are must-killed.
  W1  tokenize on a worker whose non-input locations are all Dirty (a previous result is still
      there): no grow/read of a Dirty location (idempotence, reuse).
  W2  after reset_sentence; tokenize (for each valuation of the emptiness predicate the entry
      points branch on) every location an observer reads is Clean.
  W3  reset completeness: tokenize's non-empty path must-kills every field of `lattice`.
  POOL the outer `ends` vector (history-dependent length by design) is only touched by the
      function that performs the element-wise clear.
"""
from effects import Effects
from facts import EngineError
from mir import AP, callee_of, strip_generics

WORKER = "vibrato::tokenizer::worker::Worker"
TOKEN = "vibrato::token::Token"
TOKENITER = "vibrato::token::TokenIter"

# observers of the connection-id statistics (C13); all other observers expose tokens (C04, C01)
COUNT_OBSERVERS = {"update_connid_counts", "compute_connid_probs", "init_connid_counter"}

# Table exceptions (one line of reason each)
ACCUMULATORS = {"counter": "C13: sentences add to the connection-id counter by contract"}
CONFIG = {"tokenizer": "shared immutable configuration (& reference; see SHARE)"}
POOLS = {("lattice", "ends"): "outer vector of per-boundary lists: only grows; content of the "
                              "elements is what matters (A.1)"}


def worker_locations(crate):
    """[(proj tuple, type)] for every field path under Worker (two levels into local structs)."""
    out = []
    w = crate.adt(WORKER)
    for f in w["variants"][0]["fields"]:
        name = f["name"]
        adt = f.get("ty_adt")
        if adt and adt in crate.adts and adt.startswith("vibrato::") and name not in CONFIG:
            for g in crate.adts[adt]["variants"][0]["fields"]:
                out.append(((name, g["name"]), g["ty"]))
        else:
            out.append(((name,), f["ty"]))
    return out


def entry_points(crate):
    """(&mut self entry points, &self observers) of Worker, plus Token/TokenIter observers."""
    muts, obs = [], []
    for p, f in crate.fns.items():
        if not f.body or f.j.get("kind") != "AssocFn":
            continue
        adt = f.j.get("impl_self_adt")
        if adt not in (WORKER, TOKEN, TOKENITER):
            continue
        ins = f.j.get("inputs", [])
        if not ins:
            continue
        vis = f.j.get("vis", "")
        if "Public" not in vis and adt == WORKER:
            # pub(crate) helpers (Worker::new) are not API entry points
            if f.name == "new":
                continue
        first = ins[0]
        if adt == WORKER and first.startswith("&mut "):
            muts.append(p)
        elif first.startswith("&"):
            obs.append(p)
    # Debug impl of Token is an observer as well
    for p, f in crate.fns.items():
        if f.body and f.j.get("impl_trait") == "std::fmt::Debug" and \
                f.j.get("impl_self_adt") in (TOKEN,):
            obs.append(p)
    return sorted(set(muts)), sorted(set(obs))


def norm_loc(ap, kind):
    """Map an AP of an entry point / observer to a Worker-relative projection tuple."""
    proj = list(ap.proj)
    if kind in (TOKEN, TOKENITER):
        if proj and proj[0] == "worker":
            proj = proj[1:]
        else:
            return None
    return tuple(proj)


def state_of(state, proj):
    """Dirty if any prefix-compatible tracked location is Dirty: look up the most specific
    declared location that is a prefix of proj (or of which proj is a prefix)."""
    # exact or prefix match
    best = None
    for loc in state:
        if proj[:len(loc)] == loc:
            if best is None or len(loc) > len(best):
                best = loc
    if best is not None:
        return state[best], best
    # proj is a prefix of several locations (reading the whole struct): Dirty if any is
    subs = [loc for loc in state if loc[:len(proj)] == proj]
    if subs:
        d = [l for l in subs if state[l] == "D"]
        return ("D" if d else "C"), (d[0] if d else subs[0])
    return None, None


def apply_kills(state, must_kill, kind):
    new = dict(state)
    for ap in must_kill:
        if ap.root != ("arg", 1):
            continue
        proj = norm_loc(ap, kind)
        if proj is None:
            continue
        for loc in state:
            # a kill of a prefix kills the location; element-wise kill of ends kills 'ends[]'
            if loc[:len(proj)] == proj:
                new[loc] = "C"
    return new


def run(ctx, scope="tokens"):
    F = ctx.facts("A")
    crate = F.lib
    E = Effects(crate)
    locs = worker_locations(crate)
    ctx.floor("RESET", "persistent locations", len(locs), 11)
    muts, obs = entry_points(crate)
    ctx.floor("RESET", "mutating entry points", len(muts), 4)
    ctx.floor("RESET", "observers", len(obs), 14)
    for l, ty in locs:
        ctx.listed("RESET", "locations", ".".join(l) + ": " + ty)
    for p in muts:
        ctx.listed("RESET", "mutating_entry_points", p)
    for p in obs:
        ctx.listed("RESET", "observers", p)

    # state keys: for pools the tracked location is the element level
    def init_state(val):
        st = {}
        for l, ty in locs:
            if l[0] in CONFIG or l[0] in ACCUMULATORS:
                continue
            if l in POOLS:
                st[l + ("[]",)] = val
            else:
                st[l] = val
        return st

    def fn_kind(p):
        return crate.fns[p].j.get("impl_self_adt")

    def find(name):
        c = [p for p in muts if crate.fns[p].name == name]
        if len(c) != 1:
            raise EngineError("anchor lost: Worker::%s" % name)
        return c[0]

    p_reset = find("reset_sentence")
    p_tok = find("tokenize")

    def check_exposed(rule, scenario, summ, state, kind, inputs=()):
        """Every upward-exposed grow/read of a Dirty location is a violation."""
        bad = {}
        nchecked = 0
        for e in summ.exposed:
            if e.ap.root != ("arg", 1):
                continue
            proj = norm_loc(e.ap, kind)
            if proj is None or not proj:
                continue
            if proj[0] in CONFIG or proj[0] in ACCUMULATORS:
                continue
            if tuple(proj[:2]) in POOLS and (len(proj) == 2 or proj[2] != "[]"):
                continue  # outer pool vector: POOL rule
            st, loc = state_of(state, proj)
            if st is None:
                continue
            nchecked += 1
            if st == "D" and not any(proj[:len(i)] == i for i in inputs):
                key = (e.kind, loc, e.site[0], e.site[2])
                bad.setdefault(key, e)
        return bad, nchecked

    # ---- W0: reset_sentence ----------------------------------------------------------------
    s_reset = E.summary(p_reset)
    bad, n = check_exposed("RESET-W0", "reset_sentence", s_reset, init_state("D"), WORKER)
    ctx.count("RESET", "exposed uses checked (W0)", n)
    ctx.ob("RESET-W0", "%s|no-use-before-kill" % p_reset, not bad,
           "%s:%s" % (crate.fns[p_reset].file, crate.fns[p_reset].line),
           "reset_sentence starts from arbitrary worker history and must not read or extend "
           "a buffer before clearing it"
           + ("".join("; %s of %s in %s (%s)" % (k[0], ".".join(k[1]), k[2], k[3])
                      for k in sorted(bad)) if bad else ""),
           {"must_kill": sorted(repr(a) for a in s_reset.must_kill)})
    for k, e in sorted(bad.items()):
        ctx.ob("RESET-W0", "%s|%s|%s|%s" % (p_reset, ".".join(k[1]), k[0], k[2]), False,
               e.site[1], "%s of history-dependent buffer `%s` before it is cleared (in %s via %s)"
               % (k[0], ".".join(k[1]), k[2], k[3]))
    st1 = apply_kills(init_state("D"), s_reset.must_kill, WORKER)
    for loc in sorted(st1):
        if loc[0] == "sent" or loc == ("top_nodes",):
            ctx.ob("RESET-W0", "%s|must-kill|%s" % (p_reset, ".".join(loc)), st1[loc] == "C",
                   "%s:%s" % (crate.fns[p_reset].file, crate.fns[p_reset].line),
                   "reset_sentence clears `%s` on every path" % ".".join(loc))

    # ---- valuations of the emptiness predicate in the entry points -------------------------------
    preds = {}   # AP repr -> {fn path: (block, t_empty, t_nonempty)}
    for p in muts + obs:
        fa = E.fa(p)
        for b in sorted(fa.live_blocks()):
            r = E.emptiness_predicate(fa, b)
            if r is None:
                continue
            ap, te, tn = r
            proj = norm_loc(ap, fn_kind(p))
            if proj is None:
                continue
            preds.setdefault(proj, {}).setdefault(p, []).append((b, te, tn))
    for proj, d in preds.items():
        ctx.listed("RESET", "tracked_predicates", "is_empty(%s) in %s"
                   % (".".join(proj), sorted(x.split("::")[-1] for x in d)))
    pred_list = sorted(preds)
    # the predicates must be over locations tokenize does not modify (so that the valuation is
    # the same in tokenize and in the observers that follow)
    s_tok_full = E.summary(p_tok)
    tok_mod = set()
    for e in s_tok_full.may:
        if e.kind in ("kill", "grow", "write") and e.ap.root == ("arg", 1):
            tok_mod.add(norm_loc(e.ap, WORKER))
    stable = [pr for pr in pred_list
              if not any(m[:len(pr)] == pr or pr[:len(m)] == m for m in tok_mod if m)]
    ctx.count("RESET", "stable predicates", len(stable))

    def valuations(ps):
        if not ps:
            yield {}
            return
        for rest in valuations(ps[1:]):
            for v in (True, False):
                d = dict(rest)
                d[ps[0]] = v
                yield d

    def pruned(p, val):
        removed = set()
        for proj, v in val.items():
            for (b, te, tn) in preds.get(proj, {}).get(p, []):
                removed.add((b, tn if v else te))
        return E.summary_pruned(p, removed) if removed else E.summary(p)

    # ---- W1: tokenize on a worker holding a previous result --------------------------------------
    inputs = [l for l in init_state("D") if l[0] == "sent"]
    st_in = init_state("D")
    for l in inputs:
        st_in[l] = "C"
    for val in valuations(stable):
        vname = ",".join("%s=%s" % (".".join(k), "empty" if v else "nonempty")
                         for k, v in sorted(val.items())) or "-"
        s_tok = pruned(p_tok, val)
        bad, n = check_exposed("RESET-W1", "tokenize", s_tok, st_in, WORKER)
        ctx.count("RESET", "exposed uses checked (W1)", n)
        ctx.ob("RESET-W1", "%s|%s|no-use-before-kill" % (p_tok, vname), not bad,
               "%s:%s" % (crate.fns[p_tok].file, crate.fns[p_tok].line),
               "tokenize [%s] on a reused worker (previous result still present) neither reads "
               "nor extends a stale buffer" % vname,
               {"must_kill": sorted(repr(a) for a in s_tok.must_kill)})
        for k, e in sorted(bad.items()):
            ctx.ob("RESET-W1", "%s|%s|%s|%s" % (p_tok, ".".join(k[1]), k[0], k[2]), False,
                   e.site[1],
                   "tokenize: %s of stale buffer `%s` without a preceding clear in the same call "
                   "(in %s via %s) - repeated or reused tokenization depends on history"
                   % (k[0], ".".join(k[1]), k[2], k[3]))
        # tokenize must not modify its input
        for e in s_tok.may:
            if e.kind in ("kill", "grow", "write") and e.ap.root == ("arg", 1):
                pr = norm_loc(e.ap, WORKER)
                if pr and pr[0] == "sent":
                    ctx.ob("RESET-W1", "%s|modifies-input|%s" % (p_tok, ".".join(pr)), False,
                           e.site[1], "tokenize modifies its input `%s`" % ".".join(pr))

        # ---- W2: observers after reset_sentence; tokenize ------------------------------------------
        st2 = apply_kills(st1, s_tok.must_kill, WORKER)
        for o in obs + [m for m in muts if m not in (p_reset, p_tok)]:
            is_count = crate.fns[o].name in COUNT_OBSERVERS
            if (scope == "tokens") == is_count:
                continue
            s_o = pruned(o, val)
            kind = fn_kind(o)
            bad, n = check_exposed("RESET-W2", o, s_o, st2, kind)
            ctx.count("RESET", "observer reads checked (W2)", n)
            ctx.ob("RESET-W2", "%s|%s|reads-only-current" % (o, vname), not bad,
                   "%s:%s" % (crate.fns[o].file, crate.fns[o].line),
                   "%s [%s] reads only state established by the current reset_sentence/tokenize"
                   % (o.split("::")[-1], vname))
            for k, e in sorted(bad.items()):
                ctx.ob("RESET-W2", "%s|%s|%s|%s" % (o, ".".join(k[1]), k[0], vname), False,
                       e.site[1],
                       "%s reads `%s`, which neither reset_sentence nor tokenize [%s] refreshed "
                       "(stale data of an earlier sentence)" % (o.split("::")[-1],
                                                                ".".join(k[1]), vname))
        # ---- W3: lattice completely reset on the path that builds it --------------------------------
        if all(v is False for v in val.values()):
            for loc in sorted(st2):
                if loc[0] == "lattice":
                    ctx.ob("RESET-W3", "%s|must-kill|%s" % (p_tok, ".".join(loc)),
                           st2[loc] == "C",
                           "%s:%s" % (crate.fns[p_tok].file, crate.fns[p_tok].line),
                           "tokenize (non-empty sentence) resets `%s` on every path before use"
                           % ".".join(loc))

    # ---- POOL ---------------------------------------------------------------------------------------
    npool = 0
    for p in muts + obs:
        s = E.summary(p)
        kind = fn_kind(p)
        for e in s.may:
            if e.ap.root != ("arg", 1):
                continue
            proj = norm_loc(e.ap, kind)
            if proj is None:
                continue
            if tuple(proj[:2]) in POOLS and len(proj) == 2:
                npool += 1
                owner = e.site[0]
                so = E.summary(owner) if owner in crate.fns else None
                ok = so is not None and any(True for a in so.kill_elems)
                if not ok and e.kind == "read" and owner in crate.fns and _bounded_walk(E, crate, owner, e.ap):
                    ctx.ob("RESET-POOL", "%s|%s|%s|bounded" % (".".join(proj), e.kind, owner), True, e.site[1],
                           "outer vector `%s` is walked only over a prefix bounded by the current "
                           "sentence length (iter().skip(k).take(len_char ..)) in %s"
                           % (".".join(proj), owner.split("::")[-1]))
                    continue
                ctx.ob("RESET-POOL", "%s|%s|%s" % (".".join(proj), e.kind, owner), ok, e.site[1],
                       "outer vector `%s` (history-dependent length) is %s only inside the "
                       "function that clears all of its elements (%s)"
                       % (".".join(proj), e.kind, owner.split("::")[-1]))
    ctx.floor("RESET", "pool accesses", npool, 2)
    prefix_readers(ctx, crate, E)
    if E.unmodelled:
        raise EngineError("UNMODELLED callee receives a tracked &mut location: %s"
                          % E.unmodelled[:3])
    ctx.assume("API model (spec/api_model.json) states the effect of std/hashbrown callees on "
               "their receiver; dependencies' internals are not analysed")
    ctx.assume("W2 accepts two forms: the location is refreshed by reset_sentence/tokenize, or "
               "the observer branches on the same emptiness predicate as tokenize's early return")


def _bounded_walk(E, crate, owner, ap):
    """Every whole-vector read of the pool in `owner` is a walk `pool.iter()[.skip(k)].take(n)` with
    n derived from the current sentence length: the stale tail of the pool (elements of earlier,
    longer sentences) is never reached. (Iterators are aliases of their source in the effect
    model, so every adaptor and every `next` of the walk shows up as a use of the pool.)"""
    from mir import callee_paths as cps, strip_generics as sg
    from sym import Sym, show
    fa = E.fa(owner)
    S = Sym(E, fa)
    PASS = {"deref", "iter", "into_iter", "skip", "take", "as_slice", "by_ref", "enumerate"}
    n = 0
    for b, t in fa.calls():
        if not t["args"]:
            continue
        nm = {sg(x).rsplit("::", 1)[-1] for x in cps(t)}
        a0 = E.ap_operand(fa, t["args"][0])
        # the pool as the owner sees it (the event's path is in the frame of the entry point)
        if a0 is None or a0.root[0] != "arg" or not a0.proj or a0.proj[-1] != ap.proj[-1] or \
                len(a0.proj) > len(ap.proj):
            continue
        if nm & {"index", "get", "get_unchecked", "len"} or nm & PASS:
            continue                    # positional reads are judged elsewhere; adaptors consume nothing
        # a consumer (`next`, `for_each`, `fold`, ..): its iterator must come through a bounded take
        cur, bounded = t["args"][0], False
        for _ in range(10):
            o = fa.origin(cur)
            if o[0] != "call" or not o[2]["args"]:
                break
            on = {sg(x).rsplit("::", 1)[-1] for x in cps(o[2])}
            if "take" in on and len(o[2]["args"]) == 2 and "len_char" in show(S.operand(o[2]["args"][1])):
                bounded = True
            if not (on & PASS):
                break
            cur = o[2]["args"][0]
        if not bounded:
            return False
        n += 1
    return n > 0


def prefix_readers(ctx, crate, E):
    """RESET-PREFIX: when a pool is cleared only over the prefix the new sentence uses
    (`iter_mut().take(new_len)`), elements beyond the prefix keep nodes of earlier sentences. That
    is sound only while every reader addresses the pool by position inside the prefix. A reader
    that walks the *whole* pool (`for v in &self.ends`, `.iter().skip(1)` ...) sees the stale
    tail: each edit looks harmless alone."""
    from mir import callee_paths as cps
    for (kp, coll, bound) in E.prefix_kills:
        # which field of which type is handed to the prefix-clearing function?
        fields = set()
        for p, f in crate.fns.items():
            if not f.body:
                continue
            fa = E.fa(p)
            for b, t in fa.calls():
                c = callee_of(t)
                rp = (c.get("resolved") or c)["path"] if c else None
                if rp is None or strip_generics(rp) != strip_generics(kp):
                    continue
                if coll.root[0] == "arg" and coll.root[1] - 1 < len(t["args"]):
                    ap = E.ap_operand(fa, t["args"][coll.root[1] - 1])
                    if ap is not None and ap.proj:
                        fields.add(ap.proj[-1])
                if p == kp:
                    continue
            if p == kp and coll.root[0] == "arg" and coll.proj:
                fields.add(coll.proj[-1])
        if not fields and coll.proj:
            fields.add(coll.proj[-1])
        readers = []
        for p, f in sorted(crate.fns.items()):
            if not f.body or f.krate != crate.name or strip_generics(p) == strip_generics(kp):
                continue
            fa = E.fa(p)
            for b, t in fa.calls():
                if not any(strip_generics(x).endswith("::next") for x in cps(t)):
                    continue
                # iterator chain back to a field
                chain = []
                cur = t["args"][0]
                src = None
                for _ in range(12):
                    o = fa.origin(cur)
                    if o[0] == "call":
                        chain.append(strip_generics(sorted(cps(o[2]))[0]).rsplit("::", 1)[-1])
                        if not o[2]["args"]:
                            break
                        cur = o[2]["args"][0]
                        continue
                    if o[0] == "place":
                        src = o[1]
                    break
                if src is None or not src.proj or src.proj[-1] not in fields:
                    continue
                if "index" in chain or "get" in chain or "take" in chain:
                    continue       # a positional slice / bounded walk
                readers.append("%s (%s)" % (p.split("::")[-1], fa.loc(b)))
        ctx.ob("RESET-PREFIX", "%s|%s" % (kp, ".".join(str(x) for x in fields)), not readers,
               crate.fns[kp].file + ":" + str(crate.fns[kp].line),
               "`%s` is cleared over the prefix take(%s) only, and no function walks it as a whole"
               % ("/".join(sorted(fields)), bound) if not readers else
               "`%s` is cleared over the prefix take(%s) only, but %s iterates over the whole "
               "vector: elements beyond the prefix still hold nodes of an earlier, longer sentence"
               % ("/".join(sorted(fields)), bound, ", ".join(readers)))


def run_tokens(ctx):
    run(ctx, "tokens")


def run_counts(ctx):
    run(ctx, "counts")

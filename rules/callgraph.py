"""Workspace call graph (resolved callees, closures, class-hierarchy resolution of trait calls)."""
from mir import FnA, callee_of, callee_paths, op_place


class CallGraph:
    def __init__(self, crate):
        self.crate = crate
        self._edges = {}
        self._trait_impls = {}
        for p, f in crate.fns.items():
            tr = f.j.get("impl_trait")
            if tr and f.name and f.body:
                self._trait_impls.setdefault((tr, f.name), []).append(p)

    def callees(self, path):
        """Workspace functions (with body) that `path` may call, incl. closures it creates."""
        if path in self._edges:
            return self._edges[path]
        out = []
        f = self.crate.fns.get(path)
        if f is None or not f.body:
            self._edges[path] = out
            return out
        for bb in f.blocks:
            for s in bb["stmts"]:
                if "rv" in s and s["rv"]["k"] == "agg" and s["rv"].get("agg") == "closure":
                    c = s["rv"]["closure"]
                    if c in self.crate.fns and c not in out:
                        out.append(c)
            t = bb["term"]
            if t["k"] != "call":
                continue
            c = callee_of(t)
            if c is None:
                continue
            rp = (c.get("resolved") or c)["path"]
            if rp in self.crate.fns and self.crate.fns[rp].body:
                if rp not in out:
                    out.append(rp)
            elif c.get("trait") and not c.get("resolved") and \
                    c["trait"].startswith(self.crate.name + "::"):
                # class-hierarchy resolution only for the workspace's own traits
                for ip in self._trait_impls.get((c["trait"], c.get("name")), []):
                    if ip not in out:
                        out.append(ip)
            # function items passed as arguments (e.g. map(Self::parse))
            for a in t["args"]:
                k = a.get("k")
                if k and "fn" in k:
                    fp = (k["fn"].get("resolved") or k["fn"])["path"]
                    if fp in self.crate.fns and self.crate.fns[fp].body and fp not in out:
                        out.append(fp)
        self._edges[path] = out
        return out

    def reachable(self, roots):
        """{fn path: shortest call chain from a root}"""
        seen = {}
        work = [(r, (r,)) for r in roots]
        while work:
            p, chain = work.pop(0)
            if p in seen:
                continue
            seen[p] = chain
            for c in self.callees(p):
                if c not in seen:
                    work.append((c, chain + (c,)))
        return seen

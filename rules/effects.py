"""Effect summaries over access paths: which persistent locations a function kills (clears or
overwrites), grows (appends to / resizes), reads, or partially writes — computed bottom-up over
the workspace call graph with an explicit API model for library callees."""
import json
import os

from facts import EngineError, VERIF
from mir import AP, FnA, callee_of, callee_paths, op_place, op_const, strip_generics, proj_elems

SPEC = os.path.join(VERIF, "spec")


def load_api_model():
    with open(os.path.join(SPEC, "api_model.json")) as fh:
        return json.load(fh)


class Model:
    """API model: generic-stripped callee path -> {"eff": kill|grow|read|none|write_elem,
    "alias": None|"same"|"elem"|"opt", "pure": bool}"""

    def __init__(self):
        m = load_api_model()
        self.exact = {}
        self.suffix = []
        for e in m["functions"]:
            for p in e["paths"]:
                if p.startswith("*"):
                    self.suffix.append((p[1:], e))
                else:
                    self.exact[p] = e
        self.unmodelled = set()

    def lookup(self, term):
        for p in callee_paths(term):
            sp = strip_generics(p)
            if sp in self.exact:
                return self.exact[sp]
            if p in self.exact:
                return self.exact[p]
        for p in callee_paths(term):
            sp = strip_generics(p)
            for suf, e in self.suffix:
                if sp.endswith(suf) or p.endswith(suf):
                    return e
        return None


class Eff:
    """One effect event."""
    __slots__ = ("kind", "ap", "site", "via")

    def __init__(self, kind, ap, site, via=None):
        self.kind = kind      # kill | grow | read | write (partial write)
        self.ap = ap
        self.site = site      # (fn path, loc string, description)
        self.via = via

    def __repr__(self):
        return "%s(%r)@%s" % (self.kind, self.ap, self.site[1])


class Summary:
    """Per function: for each arg-rooted location, upward-exposed uses, must-kill, may-effects."""

    def __init__(self, path):
        self.path = path
        self.exposed = []     # Eff (grow/read) that may happen before a kill of their location
        self.must_kill = set()  # APs killed on every returning path
        self.may = []         # every Eff (for who-modifies queries)
        self.kill_elems = set()  # APs whose *elements* are all killed on every returning path


def loc_covers(killed, ap):
    """A kill of `killed` covers location `ap` if killed is a prefix of ap."""
    return ap.startswith(killed)


class Effects:
    def __init__(self, crate, model=None):
        self.crate = crate
        self.model = model or Model()
        self._fa = {}
        self._sum = {}
        self._inprog = set()
        self.unmodelled = []   # (fn, loc, callee) with tracked &mut location
        self.prefix_kills = []  # (fn path, collection AP, bound text): clears accepted via take(E)

    def fa(self, path):
        if path not in self._fa:
            self._fa[path] = FnA(self.crate.fn(path))
        return self._fa[path]

    def summary_pruned(self, path, removed):
        """Summary of `path` with the CFG edges in `removed` deleted (path-sensitive variant for
        entry points that branch on a tracked predicate)."""
        key = (path, frozenset(removed))
        if key in self._sum:
            return self._sum[key]
        fa = FnA(self.crate.fn(path), removed=removed)
        s = Summary(path)
        s.may_ordered = []
        self.compute(fa, s)
        self._sum[key] = s
        return s

    # ---- predicate signatures ------------------------------------------------------------
    def emptiness_predicate(self, fa, b):
        """If block b ends in a switch on `X.is_empty()` / `X.len() == 0` (or negations) where X
        is an argument-rooted location, return (AP of X, targets_when_empty, targets_when_nonempty)."""
        t = fa.term(b)
        if t["k"] != "switch" or t.get("ty") != "bool":
            return None
        pl = op_place(t["op"])
        if pl is None:
            return None
        r = self._empty_expr(fa, t["op"], 0)
        if r is None:
            return None
        ap, when_true_is_empty = r
        f_t = None
        for v, tg in zip(t["vals"], t["targets"]):
            if v == 0:
                f_t = tg
        t_t = t["otherwise"]
        if f_t is None:
            return None
        if when_true_is_empty:
            return ap, t_t, f_t
        return ap, f_t, t_t

    def _empty_expr(self, fa, op, depth):
        if depth > 6:
            return None
        o = fa.origin(op)
        if o[0] == "call":
            term = o[2]
            ps = callee_paths(term)
            if any(p.endswith("is_empty") for p in ps) and term["args"]:
                ap = self.ap_operand(fa, term["args"][0])
                if ap is not None and ap.root[0] == "arg":
                    return ap, True
            return None
        if o[0] == "rv":
            rv = o[1]
            if rv["k"] == "unop" and rv["op"] == "Not":
                r = self._empty_expr(fa, rv["a"], depth + 1)
                if r is not None:
                    return r[0], not r[1]
                return None
            if rv["k"] == "binop" and rv["op"] in ("Eq", "Ne", "Gt", "Lt", "Ge", "Le"):
                a, bb = rv["a"], rv["b"]
                la, lb = self._len_of(fa, a), self._len_of(fa, bb)
                za, zb = _is_const(a, 0), _is_const(bb, 0)
                opn = rv["op"]
                if la is not None and zb:
                    if opn == "Eq" or opn == "Le":
                        return la, True
                    if opn == "Ne" or opn == "Gt":
                        return la, False
                if lb is not None and za:
                    if opn == "Eq" or opn == "Ge":
                        return lb, True
                    if opn == "Ne" or opn == "Lt":
                        return lb, False
        return None

    def _len_of(self, fa, op):
        o = fa.origin(op)
        if o[0] == "call":
            term = o[2]
            ps = callee_paths(term)
            if any(p.endswith("::len") or p.endswith("len_char") for p in ps) and term["args"]:
                # workspace getter len_char() -> chars.len(): resolve through the getter
                ap = self.ap_operand(fa, term["args"][0])
                c = callee_of(term)
                cp = (c.get("resolved") or c)["path"]
                if cp in self.crate.fns and self.crate.fns[cp].body:
                    inner = self.fa(cp)
                    for b2, t2 in inner.calls():
                        if any(p.endswith("::len") for p in callee_paths(t2)) and t2["args"]:
                            iap = self.ap_operand(inner, t2["args"][0])
                            if iap is not None and iap.root == ("arg", 1) and ap is not None:
                                return ap.extend(iap.proj)
                    return None
                if ap is not None and ap.root[0] == "arg":
                    return ap
        return None

    # ---- alias-aware access paths ---------------------------------------------------------
    def ap_local(self, fa, local, depth=0):
        cache = fa._ap_cache
        key = ("x", local)
        if key in cache:
            return cache[key]
        if depth > 60:
            return AP(("local", local))
        res = None
        if 1 <= local <= fa.arg_count:
            res = AP(("arg", local))
        else:
            d = fa.single_def(local)
            if d is None:
                res = AP(("local", local))
                # a reference obtained on two branches to the same place
                # (`match opt { Some(ref x) => x, None => opt.insert(v) }`) is that place
                ds = [x for x in fa.defs().get(local, []) if x[2] != "partial"]
                if 2 <= len(ds) <= 4 and fa.fn.locals[local]["ty"].startswith(("&", "*")):
                    cache[key] = res
                    aps = set()
                    for (b2, i2, kind2, payload2) in ds:
                        a2 = None
                        if kind2 == "call":
                            a2 = self.ap_call_result(fa, b2, payload2, depth + 1)
                        elif payload2["k"] == "use" and op_place(payload2["op"]) is not None:
                            a2 = self.ap_place(fa, op_place(payload2["op"]), depth + 1)
                        elif payload2["k"] in ("ref", "rawptr"):
                            a2 = self.ap_place(fa, payload2["place"], depth + 1)
                        aps.add(a2)
                    if len(aps) == 1 and None not in aps and list(aps)[0].root[0] == "arg":
                        res = aps.pop()
            else:
                b, i, kind, payload = d
                if kind == "call":
                    res = self.ap_call_result(fa, b, payload, depth)
                else:
                    rv = payload
                    k = rv["k"]
                    if k == "use":
                        pl = op_place(rv["op"])
                        res = self.ap_place(fa, pl, depth + 1) if pl is not None \
                            else AP(("const", local))
                    elif k in ("ref", "rawptr"):
                        res = self.ap_place(fa, rv["place"], depth + 1)
                    elif k == "cast" and op_place(rv["op"]) is not None and (
                            rv["ck"] in ("PtrToPtr", "Transmute", "Subtype")
                            or rv["ck"].startswith("PointerCoercion")):
                        res = self.ap_place(fa, op_place(rv["op"]), depth + 1)
                    else:
                        res = AP(("local", local))
        cache[key] = res
        return res

    def ap_place(self, fa, place, depth=0):
        return self.ap_local(fa, place["l"], depth).extend(proj_elems(place))

    def ap_operand(self, fa, op):
        pl = op_place(op)
        if pl is None:
            return None
        return self.ap_place(fa, pl)

    def ap_call_result(self, fa, b, term, depth):
        """If the callee returns a reference into (or an iterator over) its receiver, alias."""
        m = self.model.lookup(term)
        if m is not None and m.get("alias") and term["args"]:
            base = self.ap_operand(fa, term["args"][m.get("alias_arg", 0)])
            if base is not None:
                a = m["alias"]
                if a == "same":
                    if m.get("enumerate"):
                        return base.extend(["<enum>"])
                    return base
                if a == "elem":
                    return base.extend(["[]"])
                if a == "opt":     # Option<&T> -> content
                    return base
        # workspace accessor returning a field reference: resolve through a one-line getter
        c = callee_of(term)
        if c is not None:
            p = (c.get("resolved") or c)["path"]
            f = self.crate.fns.get(p)
            if f is not None and f.body and term["args"]:
                g = self.getter_field(p)
                if g is not None:
                    idx, proj = g
                    if idx - 1 < len(term["args"]):
                        base = self.ap_operand(fa, term["args"][idx - 1])
                        if base is not None:
                            return base.extend(proj)
        return AP(("call", b))

    def getter_field(self, path):
        """If function `path` returns `&arg.field...` (possibly via as_ref/deref), return
        (arg index, projection)."""
        key = ("getter", path)
        if key in self._sum:
            return self._sum[key]
        self._sum[key] = None
        try:
            fa = self.fa(path)
        except EngineError:
            return None
        if fa.n > 6:
            return None
        ap = self.ap_local(fa, 0)
        res = None
        if ap.root[0] == "arg":
            res = (ap.root[1], list(ap.proj))
        self._sum[key] = res
        return res

    # ---- events of one block -----------------------------------------------------------------
    SCALARS = {"usize", "u8", "u16", "u32", "u64", "u128", "isize", "i8", "i16", "i32", "i64",
               "i128", "bool", "char", "f32", "f64", "()", "&str", "&'static str"}

    def tracked_in(self, fa, ap):
        if ap is None or ap.root[0] != "arg":
            return False
        ty = fa.fn.locals[ap.root[1]]["ty"]
        return ty not in self.SCALARS


    def events_of_block(self, fa, b):
        """Ordered list of Eff for block b (statements then terminator)."""
        ev = []
        fnp = fa.fn.path
        bb = fa.blocks[b]
        for i, s in enumerate(bb["stmts"]):
            if "lhs" not in s:
                continue
            site = (fnp, fa.loc(b, i), "assign")
            # reads in the rvalue
            for pl in rvalue_places(s["rv"]):
                ap = self.ap_place(fa, pl)
                if self.tracked_in(fa, ap) and is_value_read(fa, s, pl):
                    ev.append(Eff("read", ap, site))
            lhs = s["lhs"]
            if lhs["p"]:
                ap = self.ap_place(fa, lhs)
                if self.tracked_in(fa, ap):
                    # assignment through a reference / to a field: whole overwrite of that AP
                    if lhs_is_element(lhs) or "[]" in ap.proj:
                        ev.append(Eff("write", ap, site))
                    else:
                        ev.append(Eff("kill", ap, site))
        t = bb["term"]
        if t["k"] == "call":
            ev.extend(self.events_of_call(fa, b, t))
        elif t["k"] == "switch":
            pl = op_place(t["op"])
            if pl is not None:
                ap = self.ap_place(fa, pl)
                if self.tracked_in(fa, ap):
                    ev.append(Eff("read", ap, (fnp, fa.loc(b), "switch")))
        elif t["k"] == "drop":
            pass
        return ev

    def events_of_call(self, fa, b, t):
        ev = []
        fnp = fa.fn.path
        c = callee_of(t)
        cpath = (c.get("resolved") or c)["path"] if c else None
        site = (fnp, fa.loc(b), "call " + (strip_generics(cpath) if cpath else "<indirect>"))
        arg_aps = [self.ap_operand(fa, a) for a in t["args"]]
        arg_tys = t.get("arg_tys", [])
        m = self.model.lookup(t) if c else None
        ws = self.crate.fns.get(cpath) if cpath else None
        if m is not None and c is not None and cpath is not None and \
                strip_generics(cpath).endswith("::truncate") and len(t["args"]) == 2:
            k = op_const(t["args"][1])
            if k is not None and k.get("int") == 0 and self.tracked_in(fa, arg_aps[0]):
                # truncate(0) clears
                kind0 = "write" if "[]" in arg_aps[0].proj else "kill"
                return [Eff(kind0, arg_aps[0], site)]
        if m is not None:
            effs = m.get("eff", "none")
            if isinstance(effs, str):
                effs = {"0": effs}
            for k, e in effs.items():
                idx = int(k)
                if idx < len(arg_aps) and self.tracked_in(fa, arg_aps[idx]):
                    if e == "kill" and "[]" in arg_aps[idx].proj:
                        # clearing one element is a partial write of the collection; the
                        # element-wise loop idiom is recognised separately
                        ev.append(Eff("write", arg_aps[idx], site))
                    elif e in ("kill", "grow", "read", "write"):
                        ev.append(Eff(e, arg_aps[idx], site))
                    elif e == "killgrow":
                        ev.append(Eff("kill", arg_aps[idx], site))
                        ev.append(Eff("grow", arg_aps[idx], site))
            # other by-reference args of a modelled function are reads
            for idx, ap in enumerate(arg_aps):
                if str(idx) in effs:
                    continue
                if self.tracked_in(fa, ap) and not m.get("ignore_other_args"):
                    ev.append(Eff("read", ap, site))
        elif ws is not None and ws.body:
            s = self.summary(cpath)
            for e in s.may_ordered:
                ap = self.map_ap(e.ap, arg_aps)
                if ap is not None and self.tracked_in(fa, ap):
                    ev.append(Eff(e.kind, ap, e.site, via=site))
        else:
            # unknown callee: trait method on a generic, closure call, or an unmodelled library fn
            handled = False
            if c is not None and c.get("trait") and not c.get("resolved"):
                impls = self.trait_impls(c)
                if impls:
                    handled = True
                    for ip in impls:
                        s = self.summary(ip)
                        for e in s.may_ordered:
                            ap = self.map_ap(e.ap, arg_aps)
                            if ap is not None and self.tracked_in(fa, ap):
                                ev.append(Eff(e.kind if e.kind != "kill" else "write", ap, e.site,
                                              via=site))
            if not handled:
                for idx, ap in enumerate(arg_aps):
                    if not self.tracked_in(fa, ap):
                        continue
                    ty = arg_tys[idx] if idx < len(arg_tys) else ""
                    if ty.startswith("&mut "):
                        self.unmodelled.append((fnp, fa.loc(b), cpath or "<indirect>", repr(ap)))
                        ev.append(Eff("write", ap, site))
                        ev.append(Eff("read", ap, site))
                    else:
                        ev.append(Eff("read", ap, site))
        # closures passed as arguments: their effects on captured tracked locations happen
        # during this call
        for a in t["args"]:
            cl = self.closure_of_operand(fa, a)
            if cl is not None:
                cpath2, cap_aps = cl
                s = self.summary(cpath2)
                for e in s.may_ordered:
                    ap = self.map_closure_ap(e.ap, cap_aps)
                    if ap is not None and self.tracked_in(fa, ap):
                        k = e.kind if e.kind != "kill" else "write"
                        ev.append(Eff(k, ap, e.site, via=site))
        return ev

    def trait_impls(self, c):
        """Workspace impl methods for a trait-method callee (class hierarchy resolution)."""
        name = c.get("name")
        tr = c.get("trait")
        out = []
        for p, f in self.crate.fns.items():
            if f.j.get("impl_trait") == tr and f.name == name and f.body:
                out.append(p)
        return out

    def closure_of_operand(self, fa, op):
        pl = op_place(op)
        if pl is None:
            return None
        l = pl["l"]
        seen = 0
        while seen < 20:
            seen += 1
            d = fa.single_def(l)
            if d is None:
                return None
            b, i, kind, payload = d
            if kind != "assign":
                return None
            rv = payload
            if rv["k"] == "agg" and rv.get("agg") == "closure":
                caps = [self.ap_operand(fa, o) for o in rv["ops"]]
                return rv["closure"], caps
            if rv["k"] == "use" and op_place(rv["op"]) is not None and not op_place(rv["op"])["p"]:
                l = op_place(rv["op"])["l"]
                continue
            if rv["k"] == "ref" and not rv["place"]["p"]:
                l = rv["place"]["l"]
                continue
            return None
        return None

    @staticmethod
    def map_ap(ap, arg_aps):
        if ap.root[0] != "arg":
            return None
        idx = ap.root[1] - 1
        if idx >= len(arg_aps) or arg_aps[idx] is None:
            return None
        return arg_aps[idx].extend(ap.proj)

    @staticmethod
    def map_closure_ap(ap, cap_aps):
        # closure body: arg1 is the environment; its first projection is the capture field
        if ap.root != ("arg", 1) or not ap.proj:
            return None
        f = ap.proj[0]
        if isinstance(f, str) and f.startswith("#"):
            i = int(f[1:])
            if i < len(cap_aps) and cap_aps[i] is not None:
                return cap_aps[i].extend(ap.proj[1:])
        return None

    # ---- summaries ------------------------------------------------------------------------------
    def summary(self, path):
        if path in self._sum and isinstance(self._sum[path], Summary):
            return self._sum[path]
        s = Summary(path)
        s.may_ordered = []
        if path in self._inprog:
            return s   # recursion: empty summary (workspace call graph is acyclic in practice)
        self._inprog.add(path)
        try:
            fa = self.fa(path)
            self.compute(fa, s)
        finally:
            self._inprog.discard(path)
        self._sum[path] = s
        return s

    def compute(self, fa, s):
        live = fa.live_blocks()
        evs = {b: self.events_of_block(fa, b) for b in live}
        # may effects in a stable order (block order)
        for b in sorted(live):
            for e in evs[b]:
                s.may.append(e)
        # forward must-kill dataflow: killed_in[b] = set of APs killed on every path from entry
        # exposed uses: grow/read events whose location is not covered by killed set at that point
        order = sorted(live)
        ALL = None
        kin = {b: ALL for b in order}
        kin[0] = frozenset()
        changed = True
        kout = {}
        it = 0
        while changed:
            changed = False
            it += 1
            if it > 200:
                raise EngineError("must-kill dataflow did not converge in %s" % fa.fn.path)
            for b in order:
                if b != 0:
                    ps = [kout[p] for p in fa.pred[b] if p in kout]
                    if not ps:
                        continue
                    new_in = frozenset.intersection(*ps)
                    if kin[b] is not ALL and new_in == kin[b] and b in kout:
                        continue
                    kin[b] = new_in
                cur = set(kin[b])
                for e in evs[b]:
                    if e.kind == "kill":
                        cur.add(e.ap)
                    elif e.kind == "killelems":
                        cur.add(e.ap.extend(["[]"]))
                new_out = frozenset(cur)
                if kout.get(b) != new_out:
                    kout[b] = new_out
                    changed = True
        # loop idiom: elementwise kills
        elem_kills = self.elementwise_kills(fa, evs) + self.foreach_kills(fa)
        # exposed uses and ordered may list
        for b in order:
            if kin[b] is ALL:
                continue
            cur = set(kin[b])
            for e in evs[b]:
                if e.kind == "kill":
                    cur.add(e.ap)
                    s.may_ordered.append(e)
                    continue
                covered = any(loc_covers(k, e.ap) for k in cur)
                if e.kind in ("grow", "read") and not covered:
                    s.exposed.append(e)
                s.may_ordered.append(e)
        rets = fa.return_blocks()
        if rets:
            outs = [kout[r] for r in rets if r in kout]
            s.must_kill = set(frozenset.intersection(*outs)) if outs else set()
        for ap, ok_blocks in elem_kills:
            # element-wise kill holds at function exit if the loop (its header) dominates returns
            if all(any(fa.dominates(h, r) for h in ok_blocks) for r in rets):
                s.must_kill.add(ap.extend(["[]"]))
                s.kill_elems.add(ap)
                s.may_ordered.insert(0, Eff("kill", ap.extend(["[]"]),
                                            (fa.fn.path, fa.loc(sorted(ok_blocks)[0]), "loop clear")))
        return s

    def elementwise_kills(self, fa, evs):
        """Recognise `for v in X.iter_mut() { v.clear() }` (every element killed, no early exit).
        Returns [(AP of X, {header blocks})]."""
        out = []
        for b, t in fa.calls():
            m = self.model.lookup(t)
            if not m or m.get("eff") not in ("kill", {"0": "kill"}):
                continue
            if not t["args"]:
                continue
            ap = self.ap_operand(fa, t["args"][0])
            if ap is None or not ap.proj or ap.proj[-1] != "[]":
                continue
            # find the `next` call this element came from
            pl = op_place(t["args"][0])
            nxt = self.next_call_of(fa, pl["l"])
            if nxt is None:
                continue
            hb = nxt
            # switch block after next
            sw = fa.term(hb).get("t")
            if sw is None or fa.term(sw)["k"] != "switch":
                continue
            st = fa.term(sw)
            some_t = None
            none_t = None
            for v, tg in zip(st["vals"], st["targets"]):
                if v == 1:
                    some_t = tg
                elif v == 0:
                    none_t = tg
            if some_t is None:
                continue
            if none_t is None:
                none_t = st["otherwise"]
            # (a) every path from the Some branch back to the header passes through block b
            back = fa.reachable(some_t, avoid={b})
            if hb in back:
                continue
            # (b) the loop body cannot leave the loop except through the header
            body = fa.reachable(some_t, avoid={hb})
            exit_ = fa.reachable(none_t, avoid={hb})
            if body & exit_:
                continue
            if any(fa.term(x)["k"] == "return" for x in body):
                continue
            coll = AP(ap.root, ap.proj[:-1])
            # (c) the iterator visits every element: no adaptor that drops elements. A `take(E)`
            # is accepted only when E is the length the function grows the collection to
            # (the prefix that is used afterwards is exactly the prefix that was cleared).
            if not self.full_iteration(fa, fa.term(hb)["args"][0], coll):
                continue
            out.append((coll, {hb}))
        return out

    FULL_ITER = ("iter_mut", "deref_mut", "into_iter", "as_mut_slice", "iter", "deref",
                 "as_mut", "borrow_mut", "by_ref")

    def full_iteration(self, fa, op, coll):
        pl = op_place(op)
        cur = pl["l"] if pl else None
        for _ in range(12):
            ds = fa.defs().get(cur, []) if cur is not None else []
            if cur is not None and 1 <= cur <= fa.arg_count:
                return True
            if len(ds) != 1:
                return len(ds) == 0
            b, i, kind, payload = ds[0]
            if kind == "call":
                nm = strip_generics(sorted(callee_paths(payload))[0]).rsplit("::", 1)[-1]
                if nm == "take" and len(payload["args"]) == 2:
                    if not self.take_covers_growth(fa, payload["args"][1], coll):
                        return False
                elif nm not in self.FULL_ITER:
                    return False
                p0 = op_place(payload["args"][0]) if payload["args"] else None
            else:
                rv = payload
                p0 = op_place(rv["op"]) if rv["k"] == "use" else rv["place"] if rv["k"] == "ref" else None
            if p0 is None:
                return False
            if [e for e in p0["p"] if e != "*"]:
                return True       # reached a field of the owner: the collection itself
            cur = p0["l"]
        return False

    def take_covers_growth(self, fa, bound_op, coll):
        """`take(E)`: E must be the same expression as the length the collection is grown to in
        this function (`for _ in len..E { push }` / `resize(E, ..)`)."""
        from sym import Sym, show
        S = Sym(self, fa)
        want = show(S.operand(bound_op))
        targets = set()
        for b, t in fa.calls():
            nm = strip_generics(sorted(callee_paths(t))[0]).rsplit("::", 1)[-1]
            if nm in ("resize", "resize_with") and len(t["args"]) >= 2:
                if self.ap_operand(fa, t["args"][0]) == coll:
                    targets.add(show(S.operand(t["args"][1])))
        for b in fa.live_blocks():
            for s in fa.blocks[b]["stmts"]:
                if "rv" in s and s["rv"]["k"] == "agg" and str(s["rv"].get("adt", "")).endswith("ops::Range") \
                        and len(s["rv"]["ops"]) == 2:
                    st = S.operand(s["rv"]["ops"][0])
                    if st[0] == "call" and st[1].endswith("len") and st[2] and st[2][0][0] == "ap" \
                            and st[2][0][1] == coll:
                        targets.add(show(S.operand(s["rv"]["ops"][1])))
        if want in targets:
            rec = (fa.fn.path, coll, want)
            if rec not in self.prefix_kills:
                self.prefix_kills.append(rec)
            return True
        return False

    def foreach_kills(self, fa):
        """`X.iter_mut().for_each(Vec::clear)` / `.for_each(|v| v.clear())`: every element killed."""
        out = []
        for b, t in fa.calls():
            ps = [strip_generics(x) for x in callee_paths(t)]
            if not any(x.endswith("Iterator::for_each") for x in ps) or len(t["args"]) != 2:
                continue
            it = self.ap_operand(fa, t["args"][0])
            if it is None:
                continue
            # only iter_mut over the collection itself (no adaptors that drop elements)
            ok_chain = True
            pl = op_place(t["args"][0])
            cur = pl["l"] if pl else None
            for _ in range(8):
                d = fa.single_def(cur) if cur is not None else None
                if d is None:
                    break
                if d[2] == "call":
                    nm = strip_generics(callee_paths(d[3]).pop()).rsplit("::", 1)[-1]
                    if nm not in ("iter_mut", "deref_mut", "into_iter", "as_mut_slice"):
                        ok_chain = False
                    p0 = op_place(d[3]["args"][0]) if d[3]["args"] else None
                else:
                    rv = d[3]
                    p0 = op_place(rv["op"]) if rv["k"] == "use" else rv["place"] if rv["k"] == "ref" else None
                cur = p0["l"] if p0 and not [e for e in p0["p"] if e != "*"] else None
            if not ok_chain:
                continue
            kills = False
            k = op_const(t["args"][1])
            if k is not None and "fn" in k:
                fp = strip_generics((k["fn"].get("resolved") or k["fn"])["path"])
                kills = fp.endswith("Vec::clear") or fp.endswith("String::clear")
            else:
                cl = self.closure_of_operand(fa, t["args"][1])
                if cl is not None:
                    s2 = self.summary(cl[0])
                    kills = any(a == AP(("arg", 2)) for a in s2.must_kill)
            if kills:
                out.append((it, {b}))
        return out

    def next_call_of(self, fa, local, depth=0):
        """Block of the `Iterator::next` call that produced `local` (through `as Some.0`)."""
        if depth > 10:
            return None
        d = fa.single_def(local)
        if d is None:
            return None
        b, i, kind, payload = d
        if kind == "call":
            ps = callee_paths(payload)
            if any(p.endswith("Iterator::next") or p.endswith("::next") for p in ps):
                return b
            return None
        rv = payload
        if rv["k"] in ("use",) and op_place(rv["op"]) is not None:
            return self.next_call_of(fa, op_place(rv["op"])["l"], depth + 1)
        if rv["k"] == "ref":
            return self.next_call_of(fa, rv["place"]["l"], depth + 1)
        return None


def _is_const(op, val):
    k = op_const(op)
    return k is not None and k.get("int") == val


def lhs_is_element(lhs):
    for e in lhs["p"]:
        if e != "*" and ("i" in e or "ci" in e or "sub" in e):
            return True
    return False


def rvalue_places(rv):
    k = rv["k"]
    out = []

    def opp(o):
        p = op_place(o)
        if p is not None:
            out.append(p)
    if k in ("use", "cast", "repeat", "wrap_binder"):
        opp(rv["op"])
    elif k in ("ref", "rawptr", "discr"):
        out.append(rv["place"])
    elif k == "binop":
        opp(rv["a"])
        opp(rv["b"])
    elif k == "unop":
        opp(rv["a"])
    elif k == "agg":
        for o in rv["ops"]:
            opp(o)
    return out


def is_value_read(fa, stmt, pl):
    """Taking a reference, or copying/moving a reference value, is not a read of the content."""
    rv = stmt["rv"]
    if rv["k"] in ("ref", "rawptr"):
        return False
    pty = place_type(fa, pl)
    if pty is not None and (pty.startswith("&") or pty.startswith("*const")
                            or pty.startswith("*mut")):
        return False
    lhs = stmt["lhs"]
    if not lhs["p"]:
        ty = fa.fn.locals[lhs["l"]]["ty"]
        if ty.startswith("&") or ty.startswith("*const") or ty.startswith("*mut"):
            return False
        if ty.startswith("std::option::Option<&") or ty.startswith("(usize, &"):
            return False
    return True


def place_type(fa, pl):
    """Type string of a place when it can be read off the facts (None otherwise)."""
    if not pl["p"]:
        return fa.fn.locals[pl["l"]]["ty"]
    last = pl["p"][-1]
    if last != "*" and "f" in last:
        return last.get("t")
    return None

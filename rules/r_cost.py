"""SIGN / SCALE / COSTTYPE: emitted costs (C14, C16, C20)."""
import re

from effects import Effects
from facts import EngineError
import fmt
from flow import calls_named
from mir import FnA, callee_of, callee_paths, op_place, op_const, strip_generics
from r_fmt import rows_for, arg_ops, args, lits, param_index, M, RCB, MC, fn_loc
from sym import Sym, show, short, strip_casts

SINKS = [
    # (function, writer parameter, label, reader cost type)
    (M + "write_dictionary", "lexicon_wtr", "lex.csv", "i16"),
    (M + "write_dictionary", "unk_handler_wtr", "unk.def", "i16"),
    (M + "write_dictionary", "connector_wtr", "matrix.def", "i16"),
    (M + "write_dictionary", "user_lexicon_wtr", "user.csv", "i16"),
    (M + "write_bigram_details", "cost_wtr", "bigram.cost", "i32"),
    ("vibrato::mecab::generate_bigram_info", "bigram_cost_wtr", "bigram.cost(mecab)", "i32"),
]


def cost_rvalue(fa, op):
    """The FloatToInt cast statement that produced a displayed cost: (rvalue, block) or None."""
    pl = op_place(op)
    cur = pl["l"] if pl else None
    for _ in range(12):
        if cur is None:
            return None
        d = fa.single_def(cur)
        if d is None or d[2] != "assign":
            return None
        rv = d[3]
        if rv["k"] == "cast" and rv["ck"] == "FloatToInt":
            return rv, d[0]
        p0 = op_place(rv["op"]) if rv["k"] in ("use", "cast") else rv["place"] if rv["k"] == "ref" else None
        cur = p0["l"] if p0 else None
    return None


def neg_parity_and_factor(fa, op, depth=0):
    """Walk the float expression below the cast: returns (number of negations, [factor operands],
    weight operand)."""
    pl = op_place(op)
    if pl is None or depth > 12:
        return 0, [], op
    d = fa.single_def(pl["l"])
    if d is None or d[2] != "assign":
        return 0, [], op
    rv = d[3]
    if rv["k"] == "unop" and rv["op"] == "Neg":
        n, f, w = neg_parity_and_factor(fa, rv["a"], depth + 1)
        return n + 1, f, w
    if rv["k"] == "binop" and rv["op"] == "Mul":
        na, fa_, wa = neg_parity_and_factor(fa, rv["a"], depth + 1)
        # convention: left operand carries the weight, right the factor
        return na, fa_ + [rv["b"]], wa
    if rv["k"] == "use":
        return neg_parity_and_factor(fa, rv["op"], depth + 1)
    return 0, [], op


def reader_cost_types(ctx, crate, E):
    """Width the readers parse the cost column with."""
    out = {}
    # matrix parse_body: third tuple field type; lexicon: WordParam.word_cost; bigram parse_cost
    f = crate.fn(MC + "parse_body")
    m = re.search(r"\(usize, usize, (\w+)\)", f.j.get("output", ""))
    out["matrix.def"] = m.group(1) if m else None
    wp = crate.adt("vibrato::dictionary::lexicon::param::WordParam")
    wc = [x["ty"] for v in wp["variants"] for x in v["fields"] if x["name"] == "word_cost"]
    for k in ("lex.csv", "unk.def", "user.csv"):
        out[k] = wc[0] if wc else None
    f = crate.fn(RCB + "parse_cost")
    m = re.search(r"vibrato::num::U31, vibrato::num::U31, (\w+)\)", f.j.get("output", ""))
    out["bigram.cost"] = m.group(1) if m else None
    out["bigram.cost(mecab)"] = out["bigram.cost"]
    return out


def run(ctx, labels=None):
    crate = ctx.facts("A").lib
    E = Effects(crate)
    rtypes = reader_cost_types(ctx, crate, E)
    nsinks = 0
    factors = {}
    for p, wname, label, _ in SINKS:
        if labels and label not in labels:
            continue
        fa = E.fa(p)
        S = Sym(E, fa)
        f = crate.fns[p]
        rows = [tc for tc in rows_for(E, fa, S, param_index(f, wname)) if tc["kind"] == "write_fmt"]
        found = 0
        for tc in rows:
            for o in arg_ops(fa, tc):
                cr = cost_rvalue(fa, o)
                if cr is None:
                    continue
                rv, b = cr
                found += 1
                nsinks += 1
                negs, facs, w = neg_parity_and_factor(fa, rv["op"])
                ok = negs % 2 == 1
                ctx.ob("SIGN", "%s|negated-weight" % label, ok, fa.loc(tc["b"]),
                       "%s cost = -(weight x factor): a higher model score gives a lower cost"
                       % label if ok else
                       "%s cost is written with %d negation(s) of the weight: costs have the wrong "
                       "sign (the cheapest path becomes the least likely one)" % (label, negs))
                wty = rv["ty"]
                okt = wty == rtypes.get(label)
                ctx.ob("COSTTYPE", "%s|cast-matches-reader" % label, okt, fa.loc(tc["b"]),
                       "%s cost is truncated to %s, the type its reader parses" % (label, wty)
                       if okt else
                       "%s cost is cast to %s but the reader parses %s: values outside %s are "
                       "silently clipped and no longer agree with the other generated files"
                       % (label, wty, rtypes.get(label), wty))
                factors.setdefault(p, []).append((label, [show(S.operand(x)) for x in facs], facs, tc["b"]))
        if label != "user.csv":
            ctx.ob("SIGN", "%s|one-cost-sink" % label, found == 1, fn_loc(crate, p),
                   "%s has exactly one computed cost column" % label if found == 1 else
                   "%s has %d computed cost columns" % (label, found))
    if not labels:
        ctx.floor("SIGN", "cost sinks", nsinks, 6)
    # SCALE: within one function every sink uses the same factor, and the factor is
    # i16::MAX / max |w| over the same sources in both model writers
    srcs_by_fn = {}
    for p, lst in factors.items():
        if "mecab" in p:
            continue
        fa = E.fa(p)
        S = Sym(E, fa)
        same = len({tuple(x[1]) for x in lst}) == 1 and all(len(x[1]) == 1 for x in lst)
        ctx.ob("SCALE", "%s|one-factor" % p.split("::")[-1], same, fn_loc(crate, p),
               "all costs written by %s are scaled by one and the same factor" % p.split("::")[-1]
               if same else "%s scales its cost columns with different factors: %s"
               % (p.split("::")[-1], [(x[0], x[1]) for x in lst]))
        if not lst or not lst[0][2]:
            continue
        fac_op = lst[0][2][0]
        # factor = Div(from(i16::MAX), max_abs)
        d = fa.single_def(op_place(fac_op)["l"]) if op_place(fac_op) else None
        # follow copies, and a read through a reference to the variable (`*(&factor)`)
        seen = 0
        while d is not None and d[2] == "assign" and d[3]["k"] == "use" and seen < 8:
            seen += 1
            pl = op_place(d[3]["op"])
            d = fa.single_def(pl["l"]) if pl else None
            if pl is not None and pl["p"] == ["*"] and d is not None and d[2] == "assign" and \
                    d[3]["k"] == "ref" and not d[3]["place"]["p"]:
                d = fa.single_def(d[3]["place"]["l"])
        ok = d is not None and d[2] == "assign" and d[3]["k"] == "binop" and d[3]["op"] == "Div"
        maxabs_local = None
        if ok:
            num = S.operand(d[3]["a"])
            ok = num[0] == "call" and short(num[1]) == "from" and num[2] == [("const", 32767)]
            pl = op_place(d[3]["b"])
            while pl is not None:
                dd = fa.single_def(pl["l"])
                if dd is None:
                    maxabs_local = pl["l"]
                    break
                if dd[2] == "assign" and dd[3]["k"] == "use":
                    pl = op_place(dd[3]["op"])
                else:
                    maxabs_local = pl["l"]
                    break
        ctx.ob("SCALE", "%s|factor=i16::MAX/max|w|" % p.split("::")[-1], bool(ok), fn_loc(crate, p),
               "scale factor = 32767 / (largest absolute weight)" if ok else
               "the scale factor of %s is not 32767 / max|w|" % p.split("::")[-1])
        if maxabs_local is None:
            continue
        srcs = []
        bad = []
        for (b, i, kind, payload) in fa.defs().get(maxabs_local, []):
            if kind == "assign":
                k = op_const(payload["op"]) if payload["k"] == "use" else None
                if k is not None:
                    continue      # initial 0.0
                o = fa.origin(payload["op"]) if payload["k"] == "use" else ("?",)
                if o[0] == "call":
                    kind, payload = "call", o[2]
                else:
                    e = S.operand(payload["op"]) if payload["k"] == "use" else ("?",)
                    bad.append(show(e))
                    continue
            if kind == "call":
                t = payload
                nm = strip_generics((callee_of(t).get("resolved") or callee_of(t))["path"])
                if nm.endswith("f64::max") or nm.endswith("::max"):
                    other = [a for a in t["args"]
                             if not (op_place(a) and through_copy(fa, a) == maxabs_local)]
                    for a in other:
                        e = S.operand(a)
                        if e[0] == "call" and short(e[1]) == "abs":
                            srcs.append(src_name(e[2][0], fa, E))
                        else:
                            bad.append("max(.., %s) without abs()" % show(e))
                elif short(nm) == "fold" and "Iterator" in nm or nm.endswith("::fold"):
                    fs_, fb_ = _fold_sources(E, crate, fa, t, 0)
                    srcs += fs_
                    bad += fb_
                else:
                    bad.append("%s(..)" % short(nm))
        srcs_by_fn[p] = sorted(set(srcs))
        ctx.ob("SCALE", "%s|max-over-absolute-values" % p.split("::")[-1], not bad and bool(srcs),
               fn_loc(crate, p),
               "the largest weight is folded with max(m, w.abs()) over %s" % sorted(set(srcs))
               if not bad and srcs else
               "the largest-weight scan of %s takes a value without abs() or in an unrecognised "
               "form (%s): a negative weight of largest magnitude is ignored and costs overflow "
               "16 bits" % (p.split("::")[-1], bad))
    for p_, sr in sorted(srcs_by_fn.items()):
        # every weight that is written as a cost takes part in the maximum: the word weights
        # (feature_sets[..].weight) and the connection weights (matrix[..] values)
        need = {"feature_sets.weight", "matrix.values"}
        okc = need <= set(sr)
        ctx.ob("SCALE", "%s|max-covers-every-written-weight" % p_.split("::")[-1], okc, fn_loc(crate, p_),
               "the largest-weight scan of %s covers the word weights and the connection weights"
               % p_.split("::")[-1] if okc else
               "the largest-weight scan of %s covers only %s: a larger weight of the other kind is "
               "scaled beyond 32767 and its cost no longer fits 16 bits" % (p_.split("::")[-1], sr))
    if len(srcs_by_fn) == 2:
        vals = list(srcs_by_fn.values())
        same = vals[0] == vals[1] and len(vals[0]) == 2
        ctx.ob("SCALE", "same-sources-in-both-writers", same, M + "write_dictionary / write_bigram_details",
               "matrix.def and bigram.cost are scaled from the same weight sources %s" % vals[0]
               if same else
               "write_dictionary and write_bigram_details derive their scale from different "
               "sources (%s vs %s): the bigram files no longer agree with matrix.def" % (vals[0], vals[1]))


def _fold_sources(E, crate, fa, t, depth):
    """`it.fold(init, |acc, x| acc.max(x.abs()))`: the accumulator loop in combinator form. The seed
    is the literal 0.0 or the result of another such fold; the closure is max(acc, abs(item[.field]))
    and nothing else; the source is named from the receiver chain."""
    srcs, bad = [], []
    if depth > 4 or len(t["args"]) != 3:
        return srcs, ["fold(..) in an unrecognised form"]
    if op_const(t["args"][1]) is None:
        o = fa.origin(t["args"][1])
        if o[0] == "call" and strip_generics(callee_of(o[2])["path"]).endswith("fold"):
            s2, b2 = _fold_sources(E, crate, fa, o[2], depth + 1)
            srcs += s2
            bad += b2
        else:
            bad.append("fold seeded with a computed value")
    cl = E.closure_of_operand(fa, t["args"][2])
    if cl is None or cl[1]:
        return srcs, bad + ["fold with a capturing or unknown closure"]
    ca = E.fa(cl[0])
    CS = Sym(E, ca)
    calls = list(ca.calls())
    names = sorted(short(strip_generics((callee_of(c).get("resolved") or callee_of(c))["path"])) for _, c in calls)
    binops = [1 for _, _, s_ in ca.stmts() if "rv" in s_ and s_["rv"]["k"] in ("binop", "unop")]
    mx = [(b, c) for b, c in calls if short(strip_generics((callee_of(c).get("resolved") or callee_of(c))["path"])) == "max"]
    if names != ["abs", "max"] or binops or len(mx) != 1 or mx[0][1]["dest"]["l"] != 0 or mx[0][1]["dest"]["p"]:
        return srcs, bad + ["fold closure is not max(acc, item.abs()) (%s)" % names]
    field = None
    okargs = 0
    for a in mx[0][1]["args"]:
        if op_place(a) and through_copy(ca, a) == 2:
            okargs += 1
            continue
        e = CS.operand(a)
        if e[0] == "call" and short(e[1]) == "abs":
            x = strip_casts(e[2][0])
            if x[0] == "ap" and x[1].root == ("arg", 3):
                okargs += 1
                fs = [y for y in x[1].proj if isinstance(y, str) and not y.startswith(("[", "<", "#", "as ", "*"))]
                field = fs[-1] if fs else None
    if okargs != 2:
        return srcs, bad + ["fold closure is not max(acc, item.abs())"]
    # the receiver chain: iter()/into_iter()/flat_map(.., |m| m.values()) over a field of the model
    vals = False
    op = t["args"][0]
    ap = None
    for _ in range(8):
        o = fa.origin(op)
        if o[0] != "call":
            ap = E.ap_operand(fa, op)
            break
        ct = o[2]
        nm = short(strip_generics(callee_of(ct)["path"]))
        if nm == "flat_map":
            fc = E.closure_of_operand(fa, ct["args"][1])
            if fc is None or sorted(short(strip_generics(callee_of(c)["path"])) for _, c in E.fa(fc[0]).calls()) != ["values"]:
                return srcs, bad + ["fold over an unrecognised flat_map"]
            vals = True
        elif nm not in ("iter", "into_iter", "deref"):
            ap = E.ap_operand(fa, op)
            break
        op = ct["args"][0]
    else:
        return srcs, bad + ["fold over an unrecognised receiver"]
    if ap is None:
        return srcs, bad + ["fold over an unrecognised receiver"]
    fs = [y for y in ap.proj if isinstance(y, str) and not y.startswith(("[", "<", "#", "as ", "*"))]
    if not fs or (field is None) != vals:
        return srcs, bad + ["fold over an unrecognised receiver (%s)" % ap]
    srcs.append(fs[-1] + (".values" if vals else "." + field))
    return srcs, bad


def through_copy(fa, op):
    pl = op_place(op)
    for _ in range(6):
        if pl is None:
            return None
        d = fa.single_def(pl["l"])
        if d is None:
            return pl["l"]
        if d[2] == "assign" and d[3]["k"] == "use" and op_place(d[3]["op"]) is not None:
            pl = op_place(d[3]["op"])
        else:
            return pl["l"]
    return pl["l"] if pl else None


def src_name(e, fa=None, E=None):
    e = strip_casts(e)
    if e[0] == "ap" and e[1].root[0] == "call" and fa is not None:
        # element of an iterator produced by a call (hm.values()): name the receiver's field
        ap = e[1]
        for _ in range(6):
            if ap.root[0] != "call":
                break
            t = fa.term(ap.root[1])
            if not t["args"]:
                break
            ap = E.ap_operand(fa, t["args"][0])
            if ap is None:
                break
        if ap is not None and ap.root[0] == "arg":
            fs = [x for x in ap.proj if isinstance(x, str) and not x.startswith(("[", "<", "#", "as "))]
            return ".".join(fs[-1:]) + ".values"
    if e[0] == "ap":
        fs = [x for x in e[1].proj if isinstance(x, str) and not x.startswith(("[", "<", "#", "as "))]
        return ".".join(fs[-2:]) if fs else repr(e[1])
    return show(e)


def run_c14(ctx):
    run(ctx, ("lex.csv", "unk.def", "matrix.def", "user.csv"))


def run_c16(ctx):
    run(ctx, None)


def run_c20(ctx):
    run(ctx, ("bigram.cost(mecab)",))

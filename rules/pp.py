"""Pretty printer for the MIR facts (debugging aid and used in evidence samples)."""
import sys


def place(p, names=None):
    s = "_%d" % p["l"]
    if names and p["l"] in names:
        s = "%s(_%d)" % (names[p["l"]], p["l"])
    for e in p["p"]:
        if e == "*":
            s = "(*%s)" % s
        elif "f" in e:
            s += "." + (e.get("n") or str(e["f"]))
        elif "i" in e:
            s += "[_%d]" % e["i"]
        elif "ci" in e:
            s += "[%s%d]" % ("-" if e.get("from_end") else "", e["ci"])
        elif "sub" in e:
            s += "[%d..%s%d]" % (e["sub"][0], "-" if e.get("from_end") else "", e["sub"][1])
        elif "dc" in e:
            s += " as %s" % e.get("n")
        else:
            s += "<%s>" % list(e.keys())[0]
    return s


def const(k):
    if "fn" in k:
        f = k["fn"]
        r = f.get("resolved")
        return "fn " + f["path"] + ("{->%s}" % r["path"] if r else "")
    if "str" in k:
        return repr(k["str"])
    if "bytes" in k:
        return "b" + repr(bytes(k["bytes"]))[1:]
    if "int" in k:
        return "%d_%s" % (k["int"], k["ty"])
    if "char" in k:
        return repr(k["char"])
    return "const<%s %s>" % (k.get("ty"), k.get("dbg", ""))


def operand(o, names=None):
    if "c" in o:
        return place(o["c"], names)
    if "m" in o:
        return "move " + place(o["m"], names)
    if "k" in o:
        return const(o["k"])
    return "?" + str(o)


def rvalue(rv, names=None):
    k = rv["k"]
    if k == "use":
        return operand(rv["op"], names)
    if k == "ref":
        return "&%s%s" % ("mut " if rv["bk"] == "mut" else "", place(rv["place"], names))
    if k == "rawptr":
        return "&raw %s" % place(rv["place"], names)
    if k == "cast":
        return "%s as %s (%s)" % (operand(rv["op"], names), rv["ty"], rv["ck"])
    if k == "binop":
        return "%s(%s, %s)" % (rv["op"], operand(rv["a"], names), operand(rv["b"], names))
    if k == "unop":
        return "%s(%s)" % (rv["op"], operand(rv["a"], names))
    if k == "discr":
        return "discriminant(%s)" % place(rv["place"], names)
    if k == "agg":
        ops = [operand(x, names) for x in rv["ops"]]
        if rv["agg"] == "adt":
            fs = rv.get("fields", [])
            body = ", ".join("%s: %s" % (f, o) for f, o in zip(fs, ops)) if len(fs) == len(ops) \
                else ", ".join(ops)
            return "%s::%s{%s}" % (rv["adt"], rv["variant"], body)
        return "%s(%s)" % (rv["agg"], ", ".join(ops))
    if k == "repeat":
        return "[%s; %s]" % (operand(rv["op"], names), rv["n"])
    return "%s<%s>" % (k, rv.get("dbg", ""))


def term(t, names=None):
    k = t["k"]
    if k == "goto":
        return "goto bb%d" % t["t"]
    if k == "switch":
        arms = ", ".join("%s: bb%d" % (v, b) for v, b in zip(t["vals"], t["targets"]))
        return "switch(%s) [%s, otherwise: bb%d]" % (operand(t["op"], names), arms, t["otherwise"])
    if k == "call":
        return "%s = %s(%s) -> %s" % (place(t["dest"], names), operand(t["func"], names),
                                      ", ".join(operand(a, names) for a in t["args"]),
                                      "bb%d" % t["t"] if "t" in t else "!")
    if k == "assert":
        m = t["msg"]
        return "assert(%s == %s, %s) -> bb%d" % (operand(t["cond"], names), t["expected"],
                                                m["kind"], t["t"])
    if k == "drop":
        return "drop(%s) -> bb%d" % (place(t["place"], names), t["t"])
    return k


def fn(f, out=sys.stdout):
    j = f.j
    out.write("fn %s  [%s:%s]\n" % (f.path, j["sp"]["file"], j["sp"]["line"]))
    if not f.body:
        out.write("  (no body)\n")
        return
    names = f.local_names()
    for i, l in enumerate(f.locals):
        out.write("  let _%d: %s%s\n" % (i, l["ty"], "  // " + names[i] if i in names else ""))
    for i, bb in enumerate(f.blocks):
        out.write("  bb%d%s:\n" % (i, " (cleanup)" if bb.get("cleanup") else ""))
        for s in bb["stmts"]:
            if "lhs" in s:
                out.write("    %s = %s   // L%s\n" % (place(s["lhs"], names), rvalue(s["rv"], names),
                                                   s["sp"]["line"]))
            else:
                out.write("    %s\n" % str(s)[:200])
        out.write("    %s   // L%s\n" % (term(bb["term"], names), bb["term"]["sp"]["line"]))


if __name__ == "__main__":
    import facts
    cfg = "A"
    args = sys.argv[1:]
    if args and args[0] in ("A", "B", "C"):
        cfg = args.pop(0)
    crate = "vibrato-lib"
    if args and args[0].startswith("@"):
        crate = args.pop(0)[1:]
    F = facts.load(cfg)
    c = F.crate(crate)
    for pat in args:
        for p, f in sorted(c.fns.items()):
            if pat in p:
                fn(f)
                print()

"""Fact extraction (runs the vmir driver over /repo) and the in-memory fact base."""
import glob
import hashlib
import json
import os
import shutil
import subprocess
import sys
import time

VERIF = os.path.dirname(os.path.dirname(os.path.abspath(__file__)))
REPO = os.environ.get("VERIF_REPO", "/repo")
CACHE = os.environ.get("VERIF_CACHE") or os.path.join(VERIF, ".cache")
DRIVER = os.path.join(VERIF, "driver", "target", "release", "vmir")
ROOTS = "Tokenizer,Dictionary,DictionaryInner,Worker,ModelData,Model"
MEMBERS = ["vibrato", "compile", "map", "tokenize", "benchmark", "train", "dictgen", "evaluate"]
EXPECTED_CRATES = {
    "A": ["vibrato-lib", "compile-bin", "map-bin", "reorder-bin", "tokenize-bin", "train-bin",
          "dictgen-bin", "evaluate-bin", "split-bin", "benchmark-bin"],
    "B": ["vibrato-lib"],
    "C": ["vibrato-lib"],
}
CONFIGS = {
    "A": {"rustflags": "-Zmir-opt-level=0 -Zalways-encode-mir -Awarnings", "args": ["--workspace", "--lib", "--bins"]},
    "B": {"rustflags": "-Zmir-opt-level=0 -Awarnings -C target-feature=+avx2",
          "args": ["-p", "vibrato", "--lib"]},
    "C": {"rustflags": "-Zmir-opt-level=0 -Awarnings",
          "args": ["-p", "vibrato", "--lib", "--no-default-features"]},
}


class EngineError(Exception):
    """Machinery failure (missing anchor, extraction failure...). Never a property verdict."""


def _sysroot():
    return subprocess.check_output(["rustc", "+nightly", "--print", "sysroot"], text=True).strip()


def tree_hash(repo=None):
    repo = repo or REPO
    h = hashlib.sha256()
    files = subprocess.check_output(
        ["git", "-C", repo, "ls-files", "-co", "--exclude-standard"], text=True).split("\n")
    for f in sorted(x for x in files if x):
        p = os.path.join(repo, f)
        if not os.path.isfile(p):
            continue
        if not (f.endswith(".rs") or f.endswith(".toml") or f.endswith(".lock")):
            continue
        h.update(f.encode())
        h.update(b"\0")
        with open(p, "rb") as fh:
            h.update(fh.read())
        h.update(b"\0")
    try:
        with open(DRIVER, "rb") as fh:
            h.update(hashlib.sha256(fh.read()).digest())
    except OSError:
        raise EngineError("driver binary missing: run setup (bin/setup)")
    h.update(subprocess.check_output(["rustc", "+nightly", "-V"]))
    return h.hexdigest()[:24]


def ensure_driver():
    if not os.path.exists(DRIVER):
        r = subprocess.run(["cargo", "build", "--release", "--offline"],
                           cwd=os.path.join(VERIF, "driver"),
                           env=dict(os.environ, CARGO_NET_OFFLINE="true"),
                           stdout=subprocess.PIPE, stderr=subprocess.STDOUT, text=True)
        if r.returncode != 0:
            raise EngineError("cannot build driver:\n" + r.stdout[-3000:])


def extract(cfg, repo=None, key=None, quiet=True):
    """Run the driver for configuration cfg; return the directory with the fact files."""
    repo = repo or REPO
    ensure_driver()
    key = key or tree_hash(repo)
    outdir = os.path.join(CACHE, "facts", key, cfg)
    stamp = os.path.join(outdir, "OK")
    if os.path.exists(stamp):
        return outdir
    # facts depend on the tree only: every cache directory (sweeps, self-tests, scratch runs)
    # shares one pool of extracted trees
    pbase = os.environ.get("VERIF_FACTPOOL") or os.path.join(VERIF, ".cache", "factpool")
    pool = os.path.join(pbase, key, cfg)
    if os.path.exists(os.path.join(pool, "OK")):
        try:
            os.utime(os.path.join(pbase, key))
        except OSError:
            pass
        return pool
    if os.path.isdir(outdir):
        shutil.rmtree(outdir)
    os.makedirs(outdir)
    target = os.path.join(CACHE, "target-" + cfg)
    # cargo must not skip the wrapper: drop the members' fingerprints
    fp = os.path.join(target, "debug", ".fingerprint")
    if os.path.isdir(fp):
        for d in os.listdir(fp):
            base = d.rsplit("-", 1)[0]
            if base in MEMBERS:
                shutil.rmtree(os.path.join(fp, d), ignore_errors=True)
    nonce = "%s-%s-%d" % (key, cfg, int(time.time() * 1000))
    env = dict(os.environ)
    env.update({
        "LD_LIBRARY_PATH": _sysroot() + "/lib",
        "RUSTFLAGS": CONFIGS[cfg]["rustflags"],
        "RUSTC_WORKSPACE_WRAPPER": DRIVER,
        "VMIR_OUT": outdir,
        "VMIR_NONCE": nonce,
        "VMIR_CFG": cfg,
        "VMIR_ROOTS": ROOTS,
        "CARGO_TARGET_DIR": target,
        "CARGO_NET_OFFLINE": "true",
    })
    env.pop("RUSTC_WRAPPER", None)
    cmd = ["cargo", "+nightly", "check", "--offline"] + CONFIGS[cfg]["args"]
    r = subprocess.run(cmd, cwd=repo, env=env, stdout=subprocess.PIPE, stderr=subprocess.STDOUT,
                       text=True)
    if r.returncode != 0:
        raise EngineError("extraction failed (cfg %s): the tree does not compile?\n%s"
                          % (cfg, r.stdout[-4000:]))
    have = {}
    for f in glob.glob(os.path.join(outdir, "*.json")):
        name = os.path.basename(f).rsplit("-", 1)[0]
        have[name] = f
    for c in EXPECTED_CRATES[cfg]:
        if c not in have:
            raise EngineError("extraction produced no facts for %s (cfg %s)" % (c, cfg))
        with open(have[c]) as fh:
            head = fh.read(4096)
        if nonce not in head:
            raise EngineError("stale fact file for %s (nonce mismatch)" % c)
    with open(stamp, "w") as fh:
        fh.write(nonce)
    try:
        os.makedirs(os.path.join(pbase, key), exist_ok=True)
        tmp = pool + ".tmp%d" % os.getpid()
        shutil.copytree(outdir, tmp)
        os.rename(tmp, pool)
        ds = sorted((os.path.getmtime(os.path.join(pbase, d)), d) for d in os.listdir(pbase))
        for _, d in ds[:-450]:
            if d != key:
                shutil.rmtree(os.path.join(pbase, d), ignore_errors=True)
    except OSError:
        shutil.rmtree(pool + ".tmp%d" % os.getpid(), ignore_errors=True)
    # keep the cache bounded: drop fact dirs of other tree hashes (keep the 6 newest)
    base = os.path.join(CACHE, "facts")
    ds = sorted((os.path.getmtime(os.path.join(base, d)), d) for d in os.listdir(base))
    for _, d in ds[:-6]:
        if d != key:
            shutil.rmtree(os.path.join(base, d), ignore_errors=True)
    return outdir


class Fn:
    __slots__ = ("j", "path", "krate", "body", "blocks", "locals", "name", "_names")

    def __init__(self, j):
        self.j = j
        self.path = j["path"]
        self.krate = j.get("krate")
        self.body = j.get("body")
        self.blocks = self.body["blocks"] if self.body else []
        self.locals = self.body["locals"] if self.body else []
        self.name = j.get("name")
        self._names = None

    def __repr__(self):
        return "<Fn %s>" % self.path

    @property
    def file(self):
        return self.j["sp"]["file"]

    @property
    def line(self):
        return self.j["sp"]["line"]

    def local_names(self):
        """local index -> debug name (only for whole-local debug entries)."""
        if self._names is None:
            m = {}
            if self.body:
                for d in self.body["debug"]:
                    pl = d.get("place")
                    if pl is not None and not pl["p"]:
                        m.setdefault(pl["l"], d["name"])
            self._names = m
        return self._names

    def arg_index(self, name):
        """MIR local of the parameter called `name` (1-based locals), or None."""
        if not self.body:
            return None
        for d in self.body["debug"]:
            pl = d.get("place")
            if d["name"] == name and pl is not None and not pl["p"] and \
                    1 <= pl["l"] <= self.body["arg_count"]:
                return pl["l"]
        return None


class FnTable(dict):
    """Functions of a crate by path. A function of the confirmed tree that no longer exists and
    had exactly one caller there (spec/fn_baseline.json: sole_caller) was merged into that caller
    by hand; rules anchored at it are pointed at the caller, which now holds its statements."""

    def _alias(self, path):
        import inline
        g = inline.sole_caller(path)
        seen = set()
        while g is not None and g not in seen:
            seen.add(g)
            if dict.__contains__(self, g):
                return dict.__getitem__(self, g)
            g = inline.sole_caller(g)
        return None

    def __missing__(self, path):
        f = self._alias(path)
        if f is None:
            raise KeyError(path)
        return f

    def get(self, path, default=None):
        if dict.__contains__(self, path):
            return dict.__getitem__(self, path)
        f = self._alias(path)
        return default if f is None else f


class Crate:
    def __init__(self, j):
        self.j = j
        self.name = j["crate"]
        self.fns = FnTable()
        for f in j["fns"]:
            fn = Fn(f)
            # a path can in principle repeat (cfg twins never coexist); keep the first with body
            if fn.path in self.fns and self.fns[fn.path].body and not fn.body:
                continue
            self.fns[fn.path] = fn
        self.adts = {a["path"]: a for a in j["adts"]}
        for a in j.get("foreign_adts", []):
            self.adts.setdefault(a["path"], a)
        self.impls = j["impls"] + j.get("foreign_impls", [])
        self.statics = j["statics"]
        self.walks = {w["root"]: w for w in j["type_walks"]}

    def fn(self, path):
        f = self.fns.get(path)
        if f is None:
            raise EngineError("anchor lost: function %s not found in crate %s" % (path, self.name))
        return f

    def fns_matching(self, pred):
        return [f for f in self.fns.values() if pred(f)]

    def closures_of(self, path):
        return [f for f in self.fns.values() if f.j.get("closure_of") == path]

    def adt(self, path):
        a = self.adts.get(path)
        if a is None:
            raise EngineError("anchor lost: type %s not found" % path)
        return a

    def fields(self, path):
        a = self.adt(path)
        return [f["name"] for v in a["variants"] for f in v["fields"]]


class Facts:
    """All crates of one configuration."""

    def __init__(self, cfg, outdir):
        self.cfg = cfg
        self.dir = outdir
        self.crates = {}
        for f in sorted(glob.glob(os.path.join(outdir, "*.json"))):
            name = os.path.basename(f).rsplit("-", 1)[0]
            with open(f) as fh:
                j = json.load(fh)
            if not os.environ.get("VERIF_NO_INLINE"):
                import inline
                self.inlined = getattr(self, "inlined", 0) + inline.expand(j)
            self.crates[name] = Crate(j)

    @property
    def lib(self):
        return self.crates["vibrato-lib"]

    def crate(self, name):
        c = self.crates.get(name)
        if c is None:
            raise EngineError("crate facts missing: %s (cfg %s)" % (name, self.cfg))
        return c


_loaded = {}


def load(cfg="A", repo=None):
    repo = repo or REPO
    k = (cfg, repo)
    if k not in _loaded:
        d = extract(cfg, repo)
        _loaded[k] = Facts(cfg, d)
    return _loaded[k]


if __name__ == "__main__":
    cfgs = sys.argv[1:] or ["A"]
    for c in cfgs:
        t = time.time()
        d = extract(c)
        print(c, d, "%.1fs" % (time.time() - t))

"""LABELBASE / MATDIM / USERCOPY / LEXTAG (C14): index and branch shapes of Model::write_dictionary.

The trainer numbers its labels 1..=N for the N seed lexicon words, N+1.. for the unk.def
entries (Trainer::build_lattice: `id_offset + word_id + 1` with id_offset = surfaces.len()) and
continues for user entries; rucrf's merged model keeps one FeatureSet per label at index
label - 1. write_dictionary has to address the same slots:

    LABELBASE  lexicon row i        -> feature_sets[i],                 i in 0..surfaces.len()
               unk.def row j        -> feature_sets[surfaces.len() + j], j in 0..unk_handler.len()
               user row (label L)   -> feature_sets[L - 1]
               and the trainer's label for unknown word j is surfaces.len() + j + 1 (sibling)
    MATDIM     matrix.def header    =  (right classes + 1, left classes + 1): both sides count the
               BOS/EOS id 0 in addition to the merged classes
    USERCOPY   a user row whose parameters equal WordParam::default() (0,0,0) is written from the
               trained feature set, every other row from its own parameters - not the reverse
    LEXTAG     the WordIdx handed to system_lexicon / unk_handler accessors carries that
               component's own tag
"""
from effects import Effects
from facts import EngineError
from flow import bool_switch_targets
import fmt
from mir import callee_of, callee_paths, op_place, op_const, strip_generics
from sym import Sym, show, strip_casts
from r_cand import _lin

P_WD = "vibrato::trainer::model::Model::write_dictionary"
P_BL = "vibrato::trainer::Trainer::build_lattice"


def _names(t):
    return {strip_generics(x).rsplit("::", 1)[-1] for x in callee_paths(t)}


def _range_of(fa, S, e):
    """If e is the item of `for x in lo..hi`, return (lo, hi) symbolic, else None."""
    e = strip_casts(e)
    it = None
    if e[0] == "call" and e[1].endswith("::next") and e[2]:
        it = e[2][0]
    elif e[0] == "ap" and e[1].root[0] == "local" and tuple(e[1].proj) == ("[]",):
        from mir import AP
        it = ("ap", AP(e[1].root))          # element of an iterator local
    if it is not None:
        if it[0] == "ap" and it[1].root[0] == "local":
            l = it[1].root[1]
            for d in fa.defs().get(l, []):
                if d[2] == "assign" and d[3]["k"] == "agg" and str(d[3].get("adt", "")).endswith("ops::Range"):
                    return S.operand(d[3]["ops"][0]), S.operand(d[3]["ops"][1])
                if d[2] == "assign" and d[3]["k"] == "use":
                    o = fa.origin(d[3]["op"])
                    if o[0] == "call" and o[2]["args"]:
                        r = fa.origin(o[2]["args"][0])
                        if r[0] == "rv" and r[1]["k"] == "agg" and str(r[1].get("adt", "")).endswith("ops::Range"):
                            return S.operand(r[1]["ops"][0]), S.operand(r[1]["ops"][1])
    return None


def _enum_range(E, fa, op):
    """(0, len(X)) when the operand is the index of `for (i, x) in X.iter().enumerate()` with no
    windowing adaptor (skip/take/rev/filter/step_by) in the chain, else None."""
    from r_viterbi import iter_index_operand
    o = fa.origin(op)
    if o[0] != "place" or o[1].root[0] != "call":
        return None
    proj = [str(x) for x in o[1].proj if str(x) not in ("<some>", "as Some")]
    if proj not in (["#0"], ["0"], ["0", "#0"], ["#0", "#0"]):
        return None
    nt = fa.term(o[1].root[1])
    if not any(strip_generics(x).endswith("::next") for x in callee_paths(nt)):
        return None
    info = iter_index_operand(E, fa, nt["args"][0])
    if not info or info.get("index") is not None or "enumerate" not in info["adaptors"] or \
            not set(info["adaptors"]) <= {"iter", "into_iter", "enumerate", "deref", "as_slice"}:
        return None
    base = E.ap_operand(fa, info["base"])
    if base is None:
        return None
    return ("const", 0), ("call", "len", [("ap", base)], -1)


def run(ctx):
    crate = ctx.facts("A").lib
    E = Effects(crate)
    f = crate.fns.get(P_WD)
    if f is None or not f.body:
        raise EngineError("C14 anchor lost: %s" % P_WD)
    fa = E.fa(P_WD)
    S = Sym(E, fa)
    loc = "%s:%s" % (f.file, f.line)

    # ---- LABELBASE
    idxs = []
    for b, t in fa.calls():
        if "index" in _names(t) and len(t["args"]) == 2:
            r = S.operand(t["args"][0])
            if r[0] == "ap" and r[1].proj[-1:] == ("feature_sets",):
                idxs.append((b, S.operand(t["args"][1]), t))
    for b in sorted(fa.live_blocks()):
        t = fa.term(b)
        if t["k"] == "assert" and t["msg"]["kind"] == "BoundsCheck":
            pass
    # whatever the loop shape: the label stored with a user entry (component 2 of the tuples in
    # self.user_entries) is what addresses its feature set. Labels are not contiguous - the
    # trainer also labels corpus tokens that have no dictionary counterpart - so a writer that
    # walks feature_sets in step with user_entries and never reads the label assigns foreign ids
    label_read = False

    def scan_places(x):
        nonlocal label_read
        if isinstance(x, dict):
            if "l" in x and "p" in x and isinstance(x["l"], int):
                fs = [e for e in x["p"] if isinstance(e, dict) and e.get("o") == "(tuple)" and e.get("f") == 2]
                if fs:
                    ap = E.ap_place(fa, x)
                    if ap is not None and "user_entries" in [str(q) for q in ap.proj]:
                        label_read = True
                return
            for k, v in x.items():
                if k not in ("sp", "fn_sp", "func"):
                    scan_places(v)
        elif isinstance(x, list):
            for v in x:
                scan_places(v)
    for bb in fa.blocks:
        scan_places(bb["stmts"])
        scan_places(bb["term"])
    if not label_read:
        ctx.ob("LABELBASE", "%s|user-row-label-1" % P_WD, False, loc,
               "write_dictionary never reads the label stored with a user entry: user rows are not "
               "addressed by their label (labels are not contiguous with the unknown-word labels when "
               "the corpus contains tokens without a dictionary counterpart)")
        return
    ctx.floor("LABELBASE", "accesses to merged_model.feature_sets", len(idxs), 3)
    kinds = {}
    for b, e, t in idxs:
        e0 = strip_casts(e)
        txt = show(e0)
        rng = _range_of(fa, S, e0) or _enum_range(E, fa, t["args"][1])
        if rng is not None:
            kinds.setdefault("lex", []).append((b, "i", rng))
            continue
        if e0[0] == "binop" and e0[1] in ("Add", "AddWithOverflow"):
            for x, y in ((e0[2], e0[3]), (e0[3], e0[2])):
                ry = _range_of(fa, S, y)
                if ry is not None:
                    kinds.setdefault("unk", []).append((b, show(x), ry))
                    break
            else:
                kinds.setdefault("other", []).append((b, txt, None))
            continue
        inner = e0
        for _ in range(3):
            if inner[0] == "call" and inner[1].rsplit("::", 1)[-1] in ("from_u32", "from", "try_from", "unwrap") and inner[2]:
                inner = strip_casts(inner[2][0])
        t_, c_ = _lin(inner)
        if "get(" in t_ and "user_entries" in t_:
            kinds.setdefault("user", []).append((b, c_, None))
        else:
            kinds.setdefault("other", []).append((b, txt, None))
    lex = kinds.get("lex", [])
    ok = len(lex) == 1 and show(lex[0][2][0]) == "0" and "surfaces" in show(lex[0][2][1]) and "len(" in show(lex[0][2][1])
    ctx.ob("LABELBASE", "%s|lexicon-row-i" % P_WD, ok, fa.loc(lex[0][0]) if lex else loc,
           "lex.csv row i reads feature_sets[i] for i in 0..surfaces.len()" if ok else
           "lex.csv rows do not read feature_sets[i] for i in 0..surfaces.len() (%s)"
           % [(x[1], show(x[2][0]), show(x[2][1])[:40]) for x in lex])
    unk = kinds.get("unk", [])
    ok = len(unk) == 1 and "len(" in unk[0][1] and "surfaces" in unk[0][1] and show(unk[0][2][0]) == "0" \
        and "unk_handler" in show(unk[0][2][1])
    ctx.ob("LABELBASE", "%s|unk-row-offset" % P_WD, ok, fa.loc(unk[0][0]) if unk else loc,
           "unk.def row j reads feature_sets[surfaces.len() + j] for j in 0..unk_handler.len()" if ok else
           "unk.def rows do not read feature_sets[surfaces.len() + j] (found %s; other accesses %s): "
           "unknown-word rows are written with the ids and costs of lexicon words"
           % ([(x[1], show(x[2][1])[:40]) for x in unk], [x[1][:50] for x in kinds.get("other", [])] +
              [("i", show(x[2][1])[:40]) for x in lex[1:]]))
    usr = kinds.get("user", [])
    ok = len(usr) == 1 and usr[0][1] == -1
    ctx.ob("LABELBASE", "%s|user-row-label-1" % P_WD, ok, fa.loc(usr[0][0]) if usr else loc,
           "a user row with label L reads feature_sets[L - 1]" if ok else
           "user rows read feature_sets[L %+d] instead of feature_sets[L - 1]" % (usr[0][1] if usr else 0)
           if usr else "user rows do not address feature_sets by their label")
    # sibling: the trainer's label for unknown word j
    bl = [q for q in crate.fns if q.startswith(P_BL) and crate.fns[q].body]
    found = None
    for q in bl:
        fb = E.fa(q)
        Sb = Sym(E, fb)
        for b, t in fb.calls():
            if "new" in _names(t) and "NonZero" in " ".join(callee_paths(t)) and t["args"]:
                e = Sb.operand(t["args"][0])
                txt = show(e)
                if "surfaces" in txt or "arg1.#0" in txt:
                    found = (q, txt, _lin(e))
    okb = found is not None and found[2][1] == 1
    ctx.ob("LABELBASE", "%s|trainer-unk-label" % P_BL, okb, "vibrato/src/trainer.rs",
           "the trainer labels unknown word j as surfaces.len() + j + 1 (slot surfaces.len() + j)"
           if okb else
           "the trainer's label for an unknown word is not surfaces.len() + j + 1 (%s): the writer "
           "and the trainer disagree about the slot of unknown-word entries" % (found,))

    # ---- MATDIM: the header row of matrix.def
    hdr = None
    for tc in fmt.text_calls(E, fa):
        if tc["kind"] != "write_fmt":
            continue
        pcs = tc["pieces"]
        args = [q for q in pcs if q[0] == "arg"]
        lits = [q[1] for q in pcs if q[0] == "lit"]
        if len(args) == 2 and lits == [" ", "\n"]:
            hdr = (tc["b"], [S.operand(fmt.deref_arg(fa, q[1])) for q in args])
    if hdr is None:
        raise EngineError("MATDIM: the matrix.def header row was not found")
    (t0, c0), (t1, c1) = _lin(hdr[1][0]), _lin(hdr[1][1])
    ok = c0 == 1 and c1 == 1 and "right_conn" in t0 and "left_conn" in t1 and "len(" in t0 and "len(" in t1
    ctx.ob("MATDIM", "%s|header" % P_WD, ok, fa.loc(hdr[0]),
           "matrix.def header = (right classes + 1, left classes + 1)" if ok else
           "matrix.def header is (%s %+d, %s %+d): both dimensions must count the merged classes plus "
           "the BOS/EOS id, right first; ids of the emitted lexicon fall outside the matrix otherwise"
           % (t0[:40], c0, t1[:40], c1))

    # ---- USERCOPY
    eqs = [(b, t) for b, t in fa.calls() if _names(t) & {"eq", "ne"} and len(t["args"]) == 2
           and "user_entries" in show(S.operand(t["args"][0])) + show(S.operand(t["args"][1]))]
    if len(eqs) != 1:
        raise EngineError("USERCOPY: the test of a user row's parameters against the default was not found")
    eb, et = eqs[0]
    dflt = any("default" in show(S.operand(a)) for a in et["args"])
    sw = et.get("t")
    st = fa.term(sw) if sw is not None else None
    if st is None or st["k"] != "switch":
        raise EngineError("USERCOPY: the parameter test is not branched on")
    o = fa.origin(st["op"])
    neg = o[0] == "rv" and o[1]["k"] == "unop" and o[1]["op"] == "Not"
    f_t, t_t = bool_switch_targets(st)
    is_eq = ("eq" in _names(et)) != neg
    eq_edge, ne_edge = (t_t, f_t) if is_eq else (f_t, t_t)

    def first_row(start, avoid):
        for tc in fmt.text_calls(E, fa):
            if tc["kind"] == "write_fmt" and tc["b"] in fa.reachable(start, avoid={avoid}):
                args = [show(S.operand(fmt.deref_arg(fa, q[1]))) for q in tc["pieces"] if q[0] == "arg"]
                if len(args) >= 3:
                    return tc["b"], args
        return None, []
    rb_eq, a_eq = first_row(eq_edge, ne_edge)
    rb_ne, a_ne = first_row(ne_edge, eq_edge)
    ok = dflt and bool(a_eq) and bool(a_ne) and all("feature_sets" in x for x in a_eq[:2]) and \
        all("user_entries" in x and "feature_sets" not in x for x in a_ne[:3])
    ctx.ob("USERCOPY", "%s|default-params-get-trained-values" % P_WD, ok, fa.loc(eb),
           "a user row with parameters 0,0,0 is written from the trained feature set, any other row "
           "from its own parameters" if ok else
           "the two branches after `param == WordParam::default()` are not (trained values | own "
           "parameters): rows given as 0,0,0 are copied as 0,0,0 and explicit parameters are "
           "overwritten by trained ones (equal edge writes %s, other edge writes %s)"
           % ([x[:40] for x in a_eq[:2]], [x[:40] for x in a_ne[:2]]))

    # ---- LEXTAG
    want = {"system_lexicon": "System", "unk_handler": "Unknown", "user_lexicon": "User"}
    n = 0
    for b, t in fa.calls():
        if not (_names(t) & {"word_feature", "word_param", "word_cate_id"}) or len(t["args"]) != 2:
            continue
        recv = show(S.operand(t["args"][0]))
        comp = next((k for k in want if recv.endswith(k) or ("." + k) in recv), None)
        if comp is None:
            continue
        arg = show(S.operand(t["args"][1]))
        n += 1
        ok = ("new(%s{}" % want[comp]) in arg
        ctx.ob("LEXTAG", "%s|%s|%d" % (P_WD, comp, n), ok, fa.loc(b),
               "%s is asked with a WordIdx tagged %s" % (comp, want[comp]) if ok else
               "%s is asked with %s: the index carries another component's tag (debug builds stop "
               "at the accessor's assertion; the tag is also what dispatches Dictionary::word_*)"
               % (comp, arg[:60]))
    ctx.floor("LEXTAG", "component accessor calls in write_dictionary", n, 3)


def chartype(ctx):
    """CHARTYPE (C18): `%t` is the character category. The category id handed to
    Trainer::extract_feature_set is, for a lexicon or user word, the *primary* category
    (`base_id()`) of the *first* character of its surface (`chars().next()`), and for an unk.def
    entry the category that entry belongs to (`word_cate_id`). The system-word label used for
    the training lattice is word id + 1 (sibling of LABELBASE)."""
    crate = ctx.facts("A").lib
    E = Effects(crate)
    n = 0
    for p, f in sorted(crate.fns.items()):
        if not f.body or f.krate != "vibrato":
            continue
        fa = E.fa(p)
        S = None
        for b, t in fa.calls():
            if not any(strip_generics(x).endswith("Trainer::extract_feature_set") for x in callee_paths(t)):
                continue
            S = S or Sym(E, fa)
            n += 1
            arg = t["args"][5]
            txt = show(S.operand(arg))
            o = fa.origin(arg)
            ok, why = False, txt[:80]
            # peel conversions
            for _ in range(3):
                if o[0] == "call" and _names(o[2]) & {"from", "into"}:
                    o = fa.origin(o[2]["args"][0])
            if o[0] == "call" and "word_cate_id" in _names(o[2]):
                ok, why = True, "the unk.def entry's own category"
            elif o[0] == "call" and "base_id" in _names(o[2]):
                ci = fa.origin(o[2]["args"][0])
                if ci[0] == "call" and "char_info" in _names(ci[2]):
                    chain = []
                    cur = ci[2]["args"][1]
                    for _ in range(8):
                        oo = fa.origin(cur)
                        if oo[0] != "call":
                            break
                        nm = sorted(_names(oo[2]))[0]
                        chain.append(nm)
                        if nm == "chars" or not oo[2]["args"]:
                            break
                        cur = oo[2]["args"][0]
                    picks = [c for c in chain if c not in ("unwrap", "expect", "chars", "as_str", "deref", "as_ref",
                                                           "unwrap_or", "unwrap_or_default", "copied", "cloned")]
                    ok = picks == ["next"] and "chars" in chain
                    why = "base_id(char_info(%s))" % " <- ".join(chain)
                else:
                    why = "base_id of something that is not char_info(..)"
            ctx.ob("CHARTYPE", "%s|cate-id|%d" % (p, n), ok, fa.loc(b),
                   "%s: %%t is %s" % (p.split("::")[-1], why if "category" in why else
                                      "the primary category of the surface's first character") if ok else
                   "%s passes %s as the character type: `%%t` must be the primary category "
                   "(base_id) of the first character of the surface, or the unk.def entry's category"
                   % (p.split("::")[-1], why))
    ctx.floor("CHARTYPE", "extract_feature_set call sites", n, 3)
    # system-word label in build_lattice
    bl = [q for q in crate.fns if q.startswith(P_BL) and crate.fns[q].body]
    got = []
    for q in bl:
        fb = E.fa(q)
        Sb = Sym(E, fb)
        for b, t in fb.calls():
            if "new" in _names(t) and "NonZero" in " ".join(callee_paths(t)) and t["args"]:
                e = Sb.operand(t["args"][0])
                txt = show(e)
                if "word_id" in txt and "surfaces" not in txt and "arg1.#0" not in txt and "len(" not in txt:
                    got.append((_lin(e), fb.loc(b)))
    ok = len(got) == 1 and got[0][0][1] == 1
    ctx.ob("LABELBASE", "%s|trainer-system-label" % P_BL, ok, got[0][1] if got else "vibrato/src/trainer.rs",
           "the trainer labels lexicon word i as i + 1 (slot i)" if ok else
           "the trainer's label for a lexicon word is not word id + 1 (%s): negative edges of the "
           "training lattice carry the neighbouring word's label" % [g[0] for g in got])


def userrows(ctx):
    """USERROW (C14, C18, C15): Model::read_user_lexicon gives every user row its own feature set:
    on every trip through the loop, the row pushed into user_entries has passed through
    Trainer::extract_feature_set (with this row's features and first-character category) and
    FeatureProvider::add_feature_set. A shortcut that reuses the label of an earlier row with the
    same feature text skips the category (`%t`) and whatever else the extractor derives per row."""
    from flow import calls_named
    crate = ctx.facts("A").lib
    E = Effects(crate)
    p = "vibrato::trainer::model::Model::read_user_lexicon"
    f = crate.fns.get(p)
    if f is None or not f.body:
        raise EngineError("USERROW: anchor lost: %s" % p)
    fa = E.fa(p)
    S = Sym(E, fa)
    pushes = [(b, t) for b, t in calls_named(fa, "push")
              if t["args"] and "user_entries" in show(S.operand(t["args"][0]))]
    if len(pushes) != 1:
        raise EngineError("USERROW: expected one push into user_entries, found %d" % len(pushes))
    pb = pushes[0][0]
    heads = [nb for nb, nt in fa.calls() if "next" in _names(nt) and fa.dominates(nb, pb)]
    if not heads:
        raise EngineError("USERROW: the loop over the parsed entries was not found")
    h = max(heads, key=lambda x: len(fa.dominators().get(x, ())))
    hs = fa.term(h).get("t")
    for nm in ("extract_feature_set", "add_feature_set"):
        cbs = {b for b, t in calls_named(fa, nm)}
        ok = bool(cbs) and pb not in fa.reachable(hs, avoid=cbs | {h})
        ctx.ob("USERROW", "%s|every-row-through-%s" % (p, nm), ok, fa.loc(pb),
               "every user row is pushed only after %s was called for it" % nm if ok else
               "a user row can be pushed without %s having been called for it in this iteration "
               "(a label reused from an earlier row): its `%%t` category and per-row features are "
               "those of another row" % nm)

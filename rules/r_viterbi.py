"""VITERBI (shape of the recurrence, C02), PRED (counted pairs are the evaluated pairs, C13),
TRACEBACK (C01/C02/C12)."""
from effects import Effects
from facts import EngineError
from flow import calls_named, bool_switch_targets
from mir import AP, callee_of, callee_paths, op_place, op_const, strip_generics
from sym import Sym, show, short, strip_casts, is_call

LAT = "vibrato::tokenizer::lattice::Lattice::"
NODE = "vibrato::tokenizer::lattice::Node"


def fn_loc(crate, p):
    f = crate.fns[p]
    return "%s:%s" % (f.file, f.line)


def node_aggs(fa, S):
    out = []
    for b, i, s in fa.stmts():
        if "rv" in s and s["rv"]["k"] == "agg" and s["rv"].get("adt") == NODE:
            out.append((b, i, {f: S.operand(o) for f, o in zip(s["rv"]["fields"], s["rv"]["ops"])}))
    return out


def base_local(fa, op, depth=0):
    """Follow copies/references back to the place an operand was loaded from:
    returns (base local, [field names]) or None."""
    pl = op_place(op)
    while pl is not None and depth < 20:
        depth += 1
        fields = [e.get("n") or "#%d" % e["f"] for e in pl["p"]
                  if e != "*" and "f" in e and e.get("v") not in ("Some", "Ok")]
        if fields:
            return pl["l"], fields
        d = fa.single_def(pl["l"])
        if d is None or d[2] != "assign":
            return pl["l"], []
        rv = d[3]
        if rv["k"] == "use":
            pl = op_place(rv["op"])
        elif rv["k"] == "ref":
            pl = rv["place"]
        elif rv["k"] == "cast":
            pl = op_place(rv["op"])
        else:
            return pl["l"], []
    return None


def elem_source(E, fa, local, depth=0):
    """For a local holding `&Node` obtained from iteration or unwrap: describe where it came from:
    ('iter', next_block, index operand of the indexed collection or None) | ('opt', AP)"""
    cur = local
    for _ in range(12):
        d = fa.single_def(cur)
        if d is None:
            return None
        b, i, kind, payload = d
        if kind == "call":
            ps = [strip_generics(x) for x in callee_paths(payload)]
            if any(x.endswith("::next") for x in ps):
                return ("iter", b, iter_index_operand(E, fa, payload["args"][0]))
            if any(x.endswith("Option::unwrap") or x.endswith("Option::expect")
                   or x.endswith("Option::as_ref") for x in ps):
                ap = E.ap_operand(fa, payload["args"][0])
                return ("opt", ap)
            if any(x.endswith("Index::index") or x.endswith("IndexMut::index_mut") for x in ps):
                return ("index", b, payload["args"][1])
            return None
        rv = payload
        pl = None
        if rv["k"] == "use":
            pl = op_place(rv["op"])
        elif rv["k"] == "ref":
            pl = rv["place"]
        if pl is None:
            return None
        # tuple field of an enumerate item: keep following the base
        cur = pl["l"]
    return None


def iter_index_operand(E, fa, op, depth=0):
    """Given the `&mut iterator` operand of a next() call, find the Index::index call the
    iterated collection came from and return its index operand; also the adaptors on the way."""
    pl = op_place(op)
    adaptors = []
    cur = pl["l"] if pl else None
    for _ in range(20):
        if cur is None:
            return None
        d = fa.single_def(cur)
        if d is None:
            return None
        b, i, kind, payload = d
        if kind == "call":
            ps = [strip_generics(x) for x in callee_paths(payload)]
            nm = short(ps[0]) if ps else "?"
            if any(x.endswith("Index::index") for x in ps):
                return {"index": payload["args"][1], "base": payload["args"][0],
                        "adaptors": adaptors, "block": b}
            adaptors.append(nm)
            p0 = op_place(payload["args"][0]) if payload["args"] else None
            cur = p0["l"] if p0 else None
            continue
        rv = payload
        if rv["k"] == "use":
            p0 = op_place(rv["op"])
        elif rv["k"] == "ref":
            p0 = rv["place"]
        else:
            return None
        if p0 is None:
            return None
        if any(e != "*" for e in p0["p"]):
            # reference to a field: iterating a field directly (no index)
            return {"index": None, "base": {"c": p0}, "adaptors": adaptors, "block": b}
        cur = p0["l"]
    return None


ALLOWED_ADAPTORS = {"iter", "into_iter", "enumerate", "deref", "iter_mut"}


def viterbi(ctx):
    crate = ctx.facts("A").lib
    E = Effects(crate)
    # ---- insert_node -------------------------------------------------------------------------
    p = LAT + "insert_node"
    fa = E.fa(p)
    S = Sym(E, fa)
    aggs = node_aggs(fa, S)
    if len(aggs) != 1:
        raise EngineError("VITERBI: expected one Node construction in insert_node")
    _, _, flds = aggs[0]
    sm = [(b, t) for b, t in calls_named(fa, "search_min_node")]
    ctx.ob("VITERBI", "insert_node|one-search", len(sm) == 1, fn_loc(crate, p),
           "insert_node determines the best predecessor with exactly one search_min_node call")
    if len(sm) == 1:
        b, t = sm[0]
        args = [S.operand(a) for a in t["args"]]
        okn = args[1] == ("ap", AP(("arg", 2))) and flds["start_node"] == ("ap", AP(("arg", 2)))
        ctx.ob("VITERBI", "insert_node|search-at-stored-start_node", okn, fa.loc(b),
               "the predecessor search uses the very start_node that is stored in the node"
               if okn else "insert_node searches predecessors at %s but stores start_node=%s: the "
               "back-pointer would index another boundary's list"
               % (show(args[1]), show(flds["start_node"])))
        okl = args[2] == ("ap", AP(("arg", 6), ("left_id",))) and \
            flds["left_id"] == ("ap", AP(("arg", 6), ("left_id",)))
        ctx.ob("VITERBI", "insert_node|search-with-own-left_id", okl, fa.loc(b),
               "the connection to the predecessor is evaluated with the new word's own left_id"
               if okl else "insert_node evaluates connections with %s but stores left_id=%s"
               % (show(args[2]), show(flds["left_id"])))
        mc = flds["min_cost"]
        okc = mc[0] == "binop" and mc[1] == "Add" and \
            any(x[0] == "proj" and x[1][0] == "call" and x[1][3] == b and x[2] == ("#1",)
                for x in (mc[2], mc[3])) and \
            any(strip_casts(x) == ("ap", AP(("arg", 6), ("word_cost",))) for x in (mc[2], mc[3]))
        ctx.ob("VITERBI", "insert_node|min_cost=best+word_cost", okc, fa.loc(b),
               "stored min_cost = cost of the best predecessor path + the word's own cost"
               if okc else "stored min_cost is %s, not search result + word_cost" % show(mc))
        mi = flds["min_idx"]
        oki = mi[0] == "proj" and mi[1][0] == "call" and mi[1][3] == b and mi[2] == ("#0",)
        ctx.ob("VITERBI", "insert_node|min_idx=argmin", oki, fa.loc(b),
               "stored back-pointer is the index returned by the same search" if oki else
               "stored min_idx is %s" % show(mi))
    for fld, want in (("right_id", AP(("arg", 6), ("right_id",))), ("start_word", AP(("arg", 3))),
                      ("word_id", AP(("arg", 5), ("word_id",))),
                      ("lex_type", AP(("arg", 5), ("lex_type",)))):
        ok = flds[fld] == ("ap", want)
        ctx.ob("VITERBI", "insert_node|field|%s" % fld, ok, fn_loc(crate, p),
               "Node.%s is taken from %r" % (fld, want) if ok else
               "Node.%s is taken from %s instead of %r" % (fld, show(flds[fld]), want))
    # pushed at ends[end_word]
    pushes = calls_named(fa, "push")
    okp = False
    for b, t in pushes:
        src = elem_source(E, fa, op_place(t["args"][0])["l"])
        if src and src[0] == "index" and S.operand(src[2]) == ("ap", AP(("arg", 4))):
            okp = True
    ctx.ob("VITERBI", "insert_node|pushed-at-end_word", okp, fn_loc(crate, p),
           "the node is appended to the list of the boundary where the word ends (end_word)"
           if okp else "the node is not appended to ends[end_word]")
    # ... on every path: each candidate word becomes a node of its own. Merging or dropping
    # candidates at insertion time (same span, same left id) discards a node whose *onward*
    # connection (its right id) may be the cheaper one - the minimum is over all candidates
    pb = {b for b, t in pushes}
    rets = fa.return_blocks()
    from flow import must_pass
    okall = bool(pb) and all(must_pass(fa, r, pb) for r in rets)
    ctx.ob("VITERBI", "insert_node|pushed-on-every-path", okall, fn_loc(crate, p),
           "every call of insert_node appends its node" if okall else
           "insert_node can return without appending the node (it is dropped or overwrites another "
           "candidate): a candidate with a dearer prefix but a cheaper onward connection is lost, "
           "and the reported path need not be minimal")

    # ---- insert_eos -------------------------------------------------------------------------
    p = LAT + "insert_eos"
    fa = E.fa(p)
    S = Sym(E, fa)
    aggs = node_aggs(fa, S)
    sm = calls_named(fa, "search_min_node")
    ok = len(aggs) == 1 and len(sm) == 1
    ctx.ob("VITERBI", "insert_eos|shape", ok, fn_loc(crate, p),
           "insert_eos builds the EOS node from one predecessor search")
    if ok:
        flds = aggs[0][2]
        b, t = sm[0]
        args = [S.operand(a) for a in t["args"]]
        ok1 = args[1] == ("ap", AP(("arg", 2))) and flds["start_node"] == ("ap", AP(("arg", 2)))
        ctx.ob("VITERBI", "insert_eos|search-at-stored-start_node", ok1, fa.loc(b),
               "EOS searches its predecessors at the start_node it stores" if ok1 else
               "EOS searches at %s but stores %s" % (show(args[1]), show(flds["start_node"])))
        ok2 = args[2] == ("const", 0) and flds["left_id"] == ("const", 0)
        ctx.ob("VITERBI", "insert_eos|connection-id-0", ok2, fa.loc(b),
               "the connection to EOS is evaluated with connection id 0 (BOS/EOS)" if ok2 else
               "EOS connection evaluated with %s / stored left_id %s instead of id 0"
               % (show(args[2]), show(flds["left_id"])))
        mc, mi = flds["min_cost"], flds["min_idx"]
        ok3 = mc[0] == "proj" and mc[1][0] == "call" and mc[1][3] == b and mc[2] == ("#1",) \
            and mi[0] == "proj" and mi[1][3] == b and mi[2] == ("#0",)
        ctx.ob("VITERBI", "insert_eos|takes-search-result", ok3, fa.loc(b),
               "EOS stores the minimum and argmin returned by the search (including the connection "
               "to EOS)" if ok3 else "EOS min_cost/min_idx are %s / %s" % (show(mc), show(mi)))
    # ---- insert_bos ---------------------------------------------------------------------------
    p = LAT + "insert_bos"
    fa = E.fa(p)
    S = Sym(E, fa)
    aggs = node_aggs(fa, S)
    okb = len(aggs) == 1 and aggs[0][2]["right_id"] == ("const", 0) and \
        aggs[0][2]["min_cost"] == ("const", 0)
    ctx.ob("VITERBI", "insert_bos|id0-cost0", okb, fn_loc(crate, p),
           "BOS has right connection id 0 and accumulated cost 0" if okb else
           "BOS node is %s" % (show(("agg", "Node", aggs[0][2])) if aggs else "missing"))

    # ---- search_min_node --------------------------------------------------------------------
    p = LAT + "search_min_node"
    fa = E.fa(p)
    S = Sym(E, fa)
    costs = calls_named(fa, "cost")
    folds = [(b, t) for b, t in fa.calls()
             if any(strip_generics(x).endswith("Iterator::fold") for x in callee_paths(t))]
    if not costs and len(folds) == 1:
        search_min_fold(ctx, crate, E, fa, S, p, folds[0])
        return
    ctx.ob("VITERBI", "search_min_node|one-cost-call", len(costs) == 1, fn_loc(crate, p),
           "one connection-cost evaluation per predecessor")
    if len(costs) == 1:
        cb, ct = costs[0]
        # the predecessor element
        bl = base_local(fa, ct["args"][1])
        src = elem_source(E, fa, bl[0]) if bl else None
        info = src[2] if src and src[0] == "iter" else None
        okw = bool(info) and info.get("index") is not None and \
            S.operand(info["index"]) == ("ap", AP(("arg", 2))) and \
            E.ap_operand(fa, info["base"]) == AP(("arg", 1), ("ends",)) and \
            set(info["adaptors"]) <= ALLOWED_ADAPTORS
        ctx.ob("VITERBI", "search_min_node|iterates-whole-list", okw, fa.loc(cb),
               "the minimum is taken over the complete list ends[start_node] (no skip/take/filter/"
               "rev)" if okw else
               "search_min_node does not iterate the complete predecessor list ends[start_node] "
               "(adaptors: %s)" % (info["adaptors"] if info else "unrecognised"))
        oka = bl is not None and bl[1][-1:] == ["right_id"] and \
            S.operand(ct["args"][2]) == ("ap", AP(("arg", 3)))
        ctx.ob("VITERBI", "search_min_node|cost(pred.right_id,left_id)", oka, fa.loc(cb),
               "connection cost is looked up as cost(predecessor.right_id, left_id)" if oka else
               "connection cost is looked up with (%s, %s)" % (show(S.operand(ct["args"][1])),
                                                                show(S.operand(ct["args"][2]))))
        # no early exit / continue: every trip through the loop body evaluates the cost
        if src and src[0] == "iter":
            hb = src[1]
            sw = fa.term(hb).get("t")
            st = fa.term(sw)
            some_t = [tg for v, tg in zip(st["vals"], st["targets"]) if v == 1]
            none_t = [tg for v, tg in zip(st["vals"], st["targets"]) if v == 0] or [st["otherwise"]]
            if some_t:
                back = fa.reachable(some_t[0], avoid={cb})
                ok_nc = hb not in back
                ctx.ob("VITERBI", "search_min_node|no-skipped-predecessor", ok_nc, fa.loc(cb),
                       "every predecessor's connection cost is evaluated (no `continue` before the "
                       "cost lookup)" if ok_nc else
                       "some path through the loop body skips the cost evaluation: a predecessor "
                       "can be pruned although its connection makes it the cheapest")
                body = fa.reachable(some_t[0], avoid={hb})
                exit_ = fa.reachable(none_t[0], avoid={hb})
                # panic blocks (debug_assert) do not count as exits
                leaves = {x for x in (body & exit_)}
                ok_nb = not leaves
                ctx.ob("VITERBI", "search_min_node|no-break", ok_nb, fa.loc(hb),
                       "the loop ends only when the list is exhausted" if ok_nb else
                       "the loop over predecessors can be left early")
        # the update branch
        upd = None
        for b in sorted(fa.live_blocks()):
            t = fa.term(b)
            if t["k"] != "switch":
                continue
            e = S.operand(t["op"])
            if e[0] == "binop" and e[1] in ("Le", "Lt", "Ge", "Gt"):
                sides = (e[2], e[3])
                has_new = [x for x in sides if x[0] == "binop" and x[1] == "Add"]
                if has_new:
                    upd = (b, t, e)
        oku = False
        why = "no comparison of the new path cost with the running minimum found"
        if upd:
            b, t, e = upd
            new = e[2] if (e[2][0] == "binop" and e[2][1] == "Add") else e[3]
            new_is_left = new is e[2]
            # new = pred.min_cost + cost(...)
            parts = (new[2], new[3])
            okparts = any(x[0] == "call" and short(x[1]) == "cost" for x in parts) and \
                any(x[0] == "ap" and x[1].proj[-1:] == ("min_cost",) for x in parts)
            f_t, t_t = bool_switch_targets(t)
            # polarity: update when new <= min  (Le/Lt with new on the left, or Ge/Gt with new right)
            take_true = (e[1] in ("Le", "Lt") and new_is_left) or (e[1] in ("Ge", "Gt") and not new_is_left)
            tgt = t_t if take_true else f_t
            other = f_t if take_true else t_t
            # the update target assigns the running minimum from `new`
            assigns = []
            for bb in sorted(fa.reachable(tgt, avoid={other})):
                for s in fa.blocks[bb]["stmts"]:
                    if "lhs" in s and not s["lhs"]["p"] and s["rv"]["k"] == "use":
                        assigns.append((s["lhs"]["l"], S.operand(s["rv"]["op"])))
            oku = okparts and any(v == new or (v[0] == "binop" and v[1] == "Add") for _, v in assigns)
            if not okparts:
                why = "the compared value is %s, not predecessor.min_cost + connection cost" % show(new)
            elif not oku:
                why = "the branch taken when the new cost is smaller does not update the minimum"
        ctx.ob("VITERBI", "search_min_node|keeps-minimum", oku, fa.loc(upd[0]) if upd else fn_loc(crate, p),
               "the running minimum is replaced exactly when predecessor.min_cost + connection "
               "cost is not larger" if oku else "minimum selection broken: " + why)
        # the running minimum starts at the largest cost, so that the first predecessor is always
        # taken (a smaller start value hides every predecessor that costs more than it)
        if upd:
            b, t, e = upd
            other = e[3] if (e[2][0] == "binop" and e[2][1] == "Add") else e[2]
            pl = None
            pair = None
            o = fa.origin(t["op"])
            if o[0] == "rv" and o[1]["k"] == "binop":
                cand = o[1]["b"] if (e[2][0] == "binop" and e[2][1] == "Add") else o[1]["a"]
                r = fa.origin(cand)
                if r[0] == "place" and r[1].root[0] == "local" and not r[1].proj:
                    pl = r[1].root[1]
                elif r[0] == "place" and r[1].root[0] == "local" and len(r[1].proj) == 1 and \
                        str(r[1].proj[0])[:1] == "#" and str(r[1].proj[0])[1:].isdigit():
                    pair = (r[1].root[1], int(str(r[1].proj[0])[1:]))      # `best.1` of a pair (index, cost)
            inits = []
            if pl is None and pair is not None:
                for d in fa.defs().get(pair[0], []):
                    if d[2] == "assign" and d[3]["k"] == "agg" and len(d[3]["ops"]) > pair[1]:
                        k = op_const(d[3]["ops"][pair[1]])
                        if k is not None and "int" in k:
                            inits.append(k["int"])
            if pl is not None:
                for d in fa.defs().get(pl, []):
                    if d[2] == "assign" and d[3]["k"] == "use":
                        k = op_const(d[3]["op"])
                        if k is not None and "int" in k:
                            inits.append(k["int"])
            oki = inits == [2147483647]
            ctx.ob("VITERBI", "search_min_node|minimum-starts-at-max", oki, fn_loc(crate, p),
                   "the running minimum starts at i32::MAX" if oki else
                   "the running minimum starts at %s, not at i32::MAX: predecessors whose path cost "
                   "is larger than that are never selected and the node keeps an invalid "
                   "back-pointer" % (inits or "an unrecognised value"))


def search_min_fold(ctx, crate, E, fa, S, p, fold):
    """search_min_node written as `ends[start].iter().enumerate().fold((IDX, MAX), |acc, (i, n)| ..)`:
    the same obligations, read from the fold call and its closure."""
    from flow import must_pass
    fb, ft = fold
    where = fa.loc(fb)
    # the closure handed to fold, and what it captures
    cl = None
    o = fa.origin(ft["args"][2]) if len(ft["args"]) == 3 else ("?",)
    if o[0] == "rv" and o[1]["k"] == "agg" and o[1].get("agg") == "closure":
        cl = o[1]
    if cl is None or cl["closure"] not in crate.fns:
        raise EngineError("VITERBI: search_min_node folds with something that is not a local closure")
    cfa = E.fa(cl["closure"])
    CS = Sym(E, cfa)
    caps = [S.operand(x) for x in cl["ops"]]
    costs = calls_named(cfa, "cost")
    ctx.ob("VITERBI", "search_min_node|one-cost-call", len(costs) == 1, where,
           "one connection-cost evaluation per predecessor")
    if len(costs) != 1:
        return
    cb, ct = costs[0]
    info = iter_index_operand(E, fa, ft["args"][0])
    okw = bool(info) and info.get("index") is not None and \
        S.operand(info["index"]) == ("ap", AP(("arg", 2))) and \
        E.ap_operand(fa, info["base"]) == AP(("arg", 1), ("ends",)) and \
        set(info["adaptors"]) <= ALLOWED_ADAPTORS
    ctx.ob("VITERBI", "search_min_node|iterates-whole-list", okw, where,
           "the minimum is folded over the complete list ends[start_node] (no skip/take/filter/"
           "rev)" if okw else
           "search_min_node does not fold over the complete predecessor list ends[start_node] "
           "(adaptors: %s)" % (info["adaptors"] if info else "unrecognised"))
    # which element of the item tuple is the node: the one whose right_id is looked up
    a1 = CS.operand(ct["args"][1])
    a2 = CS.operand(ct["args"][2])
    item = a1[1] if a1[0] == "ap" and a1[1].root == ("arg", 3) and a1[1].proj[-1:] == ("right_id",) else None
    left = None
    if a2[0] == "ap" and a2[1].root == ("arg", 1) and len(a2[1].proj) == 1 and str(a2[1].proj[0]).startswith("#"):
        k = int(str(a2[1].proj[0])[1:])
        left = caps[k] if k < len(caps) else None
    oka = item is not None and left == ("ap", AP(("arg", 3)))
    ctx.ob("VITERBI", "search_min_node|cost(pred.right_id,left_id)", oka, cfa.loc(cb),
           "connection cost is looked up as cost(predecessor.right_id, left_id)" if oka else
           "connection cost is looked up with (%s, %s)" % (show(a1), show(left) if left else show(a2)))
    rets = cfa.return_blocks()
    ok_nc = bool(rets) and all(must_pass(cfa, r, {cb}) for r in rets)
    ctx.ob("VITERBI", "search_min_node|no-skipped-predecessor", ok_nc, cfa.loc(cb),
           "every predecessor's connection cost is evaluated (the fold step has no return before "
           "the cost lookup)" if ok_nc else
           "some path through the fold step skips the cost evaluation: a predecessor can be "
           "pruned although its connection makes it the cheapest")
    ctx.ob("VITERBI", "search_min_node|no-break", True, where,
           "Iterator::fold ends only when the list is exhausted")
    # the comparison and the two results
    upd = None
    for b in sorted(cfa.live_blocks()):
        t = cfa.term(b)
        if t["k"] != "switch":
            continue
        e = CS.operand(t["op"])
        if e[0] == "binop" and e[1] in ("Le", "Lt", "Ge", "Gt") and \
                any(x[0] == "binop" and x[1] == "Add" for x in (e[2], e[3])):
            upd = (b, t, e)
    oku, oki = False, False
    why = "no comparison of the new path cost with the running minimum found"
    inits = "an unrecognised value"
    if upd:
        b, t, e = upd
        new_is_left = e[2][0] == "binop" and e[2][1] == "Add"
        new = e[2] if new_is_left else e[3]
        old = e[3] if new_is_left else e[2]
        parts = (new[2], new[3])
        okparts = any(x[0] == "call" and short(x[1]) == "cost" for x in parts) and \
            any(x[0] == "ap" and item is not None and x[1] == AP(item.root, item.proj[:-1] + ("min_cost",))
                for x in parts)
        f_t, t_t = bool_switch_targets(t)
        take_true = (e[1] in ("Le", "Lt") and new_is_left) or (e[1] in ("Ge", "Gt") and not new_is_left)
        tgt, other = (t_t, f_t) if take_true else (f_t, t_t)

        def result(frm, avoid):
            out = []
            for bb in sorted(cfa.reachable(frm, avoid={avoid})):
                for s0 in cfa.blocks[bb]["stmts"]:
                    if "lhs" in s0 and s0["lhs"]["l"] == 0 and not s0["lhs"]["p"] and \
                            s0["rv"]["k"] == "agg" and s0["rv"].get("agg") == "tuple":
                        out.append([CS.operand(x) for x in s0["rv"]["ops"]])
            return out[0] if len(out) == 1 else None
        taken, kept = result(tgt, other), result(other, tgt)
        # the slot of the running minimum in the accumulator
        j = None
        if old[0] == "ap" and old[1].root == ("arg", 2) and len(old[1].proj) == 1:
            j = int(str(old[1].proj[0])[1:])
        if not okparts:
            why = "the compared value is %s, not predecessor.min_cost + connection cost" % show(new)
        elif j is None or taken is None or kept is None or len(taken) != 2 or j > 1:
            why = "the new cost is compared with %s, and the two results of the step were not " \
                  "recognised as (index, cost) pairs" % show(old)
        else:
            acc = [("ap", AP(("arg", 2), ("#0",))), ("ap", AP(("arg", 2), ("#1",)))]
            idx = strip_casts(taken[1 - j])
            ok_idx = idx[0] == "ap" and idx[1].root == ("arg", 3) and len(idx[1].proj) == 1 and \
                item is not None and idx[1].proj != item.proj[:1]
            if taken[j] != new:
                why = "the step that finds a cost not larger than the minimum does not keep that cost"
            elif not ok_idx:
                why = "the step that finds a cost not larger than the minimum does not keep the " \
                      "position of that predecessor (keeps %s)" % show(taken[1 - j])
            elif kept != acc:
                why = "the step that finds a larger cost does not pass the accumulator on unchanged"
            else:
                oku = True
            io = fa.origin(ft["args"][1])
            if io[0] == "rv" and io[1]["k"] == "agg" and len(io[1]["ops"]) == 2:
                k0 = op_const(io[1]["ops"][j])
                inits = k0.get("int") if k0 else inits
                oki = inits == 2147483647
    ctx.ob("VITERBI", "search_min_node|keeps-minimum", oku, cfa.loc(upd[0]) if upd else where,
           "the running minimum is replaced exactly when predecessor.min_cost + connection "
           "cost is not larger" if oku else "minimum selection broken: " + why)
    ctx.ob("VITERBI", "search_min_node|minimum-starts-at-max", oki, where,
           "the running minimum starts at i32::MAX" if oki else
           "the running minimum starts at %s, not at i32::MAX: predecessors whose path cost "
           "is larger than that are never selected and the node keeps an invalid "
           "back-pointer" % (inits,))


def traceback(ctx):
    crate = ctx.facts("A").lib
    E = Effects(crate)
    p = LAT + "append_top_nodes"
    fa = E.fa(p)
    S = Sym(E, fa)
    pushes = calls_named(fa, "push")
    succ = [(b, t) for b, t in fa.calls()
            if any(strip_generics(x).endswith("iter::successors") for x in callee_paths(t))]
    if not pushes and len(succ) == 1:
        traceback_successors(ctx, crate, E, fa, S, p, succ[0])
        return
    if len(pushes) != 1:
        raise EngineError("TRACEBACK: expected one push in append_top_nodes")
    pb, pt = pushes[0]
    # the pushed tuple (end_node, node.clone())
    tup = S.operand(pt["args"][1])
    idx_calls = [(b, t) for b, t in fa.calls()
                 if any(strip_generics(x).endswith("Index::index") for x in callee_paths(t))]
    outer = [(b, t) for b, t in idx_calls
             if E.ap_operand(fa, t["args"][0]) == AP(("arg", 1), ("ends",))]
    ok = len(outer) == 1
    ctx.ob("TRACEBACK", "append_top_nodes|reads-ends", ok, fn_loc(crate, p),
           "the back-walk reads one node list per step")
    if not ok:
        return
    ob, ot = outer[0]
    ipl = op_place(ot["args"][1])
    idx_local = base_local(fa, ot["args"][1])[0]
    # initialised from eos.start_node, updated from node.start_node
    defs = [S.operand(s["rv"]["op"]) for b, i, s in fa.stmts()
            if "lhs" in s and s["lhs"]["l"] == idx_local and not s["lhs"]["p"] and s["rv"]["k"] == "use"]
    want_init = ("ap", AP(("arg", 1), ("eos", "start_node")))
    ok_init = want_init in defs
    ok_step = any(d[0] == "ap" and d[1].proj[-1:] == ("start_node",) and "ends" in d[1].proj
                  for d in defs) or any(d[0] == "proj" and d[2][-1:] == ("#0",) for d in defs)
    # tuple assignment form `(end_node, min_idx) = (node.start_node, node.min_idx)`
    if not ok_step:
        for b, i, s in fa.stmts():
            if "rv" in s and s["rv"]["k"] == "agg" and s["rv"].get("agg") == "tuple":
                ops = [S.operand(o) for o in s["rv"]["ops"]]
                if ops and ops[0][0] == "ap" and ops[0][1].proj[-1:] == ("start_node",):
                    ok_step = True
    ctx.ob("TRACEBACK", "append_top_nodes|starts-at-eos.start_node", ok_init, fn_loc(crate, p),
           "the walk starts at the boundary EOS was connected to (eos.start_node)" if ok_init else
           "the walk does not start from eos.start_node (defs of the position: %s)"
           % [show(d) for d in defs])
    ctx.ob("TRACEBACK", "append_top_nodes|follows-start_node", ok_step, fn_loc(crate, p),
           "each step continues at node.start_node (the boundary the node was linked to, not the "
           "word start)" if ok_step else "the walk does not follow node.start_node")
    # the push is guarded by position != 0 of the current step
    guard = None
    for b in sorted(fa.live_blocks()):
        t = fa.term(b)
        if t["k"] != "switch":
            continue
        e = S.operand(t["op"])
        if e[0] == "binop" and e[1] in ("Ne", "Eq") and ("const", 0) in (e[2], e[3]):
            other = e[2] if e[3] == ("const", 0) else e[3]
            if other == ("phi", idx_local, ()):
                f_t, t_t = bool_switch_targets(t)
                nonzero = t_t if e[1] == "Ne" else f_t
                guard = (b, nonzero)
    okg = False
    if guard:
        gb, nz = guard
        from mir import FnA
        fa2 = FnA(fa.fn, removed={(gb, nz)})
        okg = pb not in fa2.reachable(0)
    ctx.ob("TRACEBACK", "append_top_nodes|push-guarded-by-position!=0", okg, fa.loc(pb),
           "a node is reported only after testing that the current boundary is not 0 (BOS is "
           "never reported; an EOS hanging directly off BOS yields no token)" if okg else
           "a node can be pushed before the current boundary was tested against 0: with EOS "
           "connected directly to BOS (sentence of ignored spaces only) BOS would be reported and "
           "the walk would run out of range")
    # pushed pair = (current boundary, node read at that boundary)
    okt = tup[0] == "agg" and tup[2].get("0") == ("phi", idx_local, ())
    ctx.ob("TRACEBACK", "append_top_nodes|pushes-(end,node)", okt, fa.loc(pb),
           "the reported pair is (boundary where the node ends, node)" if okt else
           "pushed value is %s" % show(tup))


def traceback_successors(ctx, crate, E, fa, S, p, sc):
    """The back-walk written as `top_nodes.extend(successors(first, step).map(..))`: the same
    obligations, read from the first element, the step closure and the node fetches."""
    from sym import strip_casts as sc_
    sb, st = sc
    loc = fa.loc(sb)
    region = [p] + sorted(q for q in crate.fns if q.startswith(p + "::{closure") and crate.fns[q].body)

    def nonzero_start(e):
        """`X.start_node != 0` -> the access path X.start_node"""
        if e[0] == "binop" and e[1] == "Ne" and ("const", 0) in (e[2], e[3]):
            o = e[2] if e[3] == ("const", 0) else e[3]
            if o[0] == "ap" and o[1].proj[-1:] == ("start_node",):
                return o[1]
        return None

    def guarded_option(qa, QS, e, op):
        """the Option value is Some only when `X.start_node != 0`: returns X.start_node or None"""
        e = sc_(e) if e[0] == "cast" else e
        if e[0] == "call" and short(e[1]) in ("then", "then_some") and e[2]:
            return nonzero_start(e[2][0])
        # built by branches: every Some lies behind the non-zero edge of such a test
        pl = op_place(op)
        somes = []
        if pl is not None and not pl["p"]:
            from flow import value_defs
            for (b, kind, payload) in value_defs(qa, pl["l"]):
                if kind == "assign" and payload["k"] == "agg" and str(payload.get("adt", "")).endswith("Option") \
                        and payload.get("variant") == "Some":
                    somes.append(b)
                elif kind == "assign" and payload["k"] == "agg" and payload.get("variant") == "None":
                    pass
                else:
                    return None
        if not somes:
            return None
        from mir import FnA
        for gb in sorted(qa.live_blocks()):
            gt = qa.term(gb)
            if gt["k"] != "switch":
                continue
            ge = QS.operand(gt["op"])
            neg = False
            if ge[0] == "binop" and ge[1] == "Eq" and ("const", 0) in (ge[2], ge[3]):
                ge = ("binop", "Ne", ge[2], ge[3])
                neg = True
            ap = nonzero_start(ge)
            if ap is None:
                continue
            f_t, t_t = bool_switch_targets(gt)
            nz = f_t if neg else t_t
            qa2 = FnA(qa.fn, removed={(gb, nz)})
            if all(b not in qa2.reachable(0) for b in somes):
                return ap
        return None
    # --- the node fetches: (position, index) pairs used to read ends[position][index]
    fetchers = {}
    pairs = []
    for q in region:
        qa = E.fa(q)
        QS = Sym(E, qa)
        outer, inner = [], []
        for b, t in qa.calls():
            if not any(strip_generics(x).endswith("Index::index") for x in callee_paths(t)) or len(t["args"]) != 2:
                continue
            ap = E.ap_operand(qa, t["args"][0])
            if ap is None:
                continue
            pr = tuple(str(x) for x in ap.proj)
            if pr[-1:] == ("ends",):
                outer.append(QS.operand(t["args"][1]))
            elif pr[-2:] == ("ends", "[]"):
                inner.append(sc_(QS.operand(t["args"][1])))
        if len(outer) != len(inner) or len(outer) > 1:
            raise EngineError("TRACEBACK: %s reads ends[..][..] in a way that is not one (position, index) pair" % q)
        if outer:
            pr = (outer[0], inner[0])
            if q != p and all(x[0] == "ap" and x[1].root[0] == "arg" and not x[1].proj for x in pr):
                fetchers[q] = (pr[0][1].root[1], pr[1][1].root[1])      # parameter numbers
            else:
                pairs.append((pr[0], pr[1], qa.loc(0)))
    for q in region:
        qa = E.fa(q)
        QS = Sym(E, qa)
        for b, t in qa.calls():
            cp = (callee_of(t) or {})
            rp = (cp.get("resolved") or cp).get("path")
            if rp in fetchers and len(t["args"]) == 2:
                tup = QS.operand(t["args"][1])
                if tup[0] == "agg" and len(tup[2]) >= 2:
                    a, bidx = fetchers[rp]
                    # closure parameters are numbered from 2 (1 is the closure itself)
                    pairs.append((tup[2].get(str(a - 2)), sc_(tup[2].get(str(bidx - 2))), qa.loc(b)))
    ctx.ob("TRACEBACK", "append_top_nodes|reads-ends", bool(pairs), loc,
           "the back-walk reads one node list per step (%d fetch sites)" % len(pairs) if pairs else
           "no read of ends[position][index] found in the back-walk")
    if not pairs:
        return
    eos_pairs, node_pairs, bad = [], [], []
    for a, bidx, where in pairs:
        okp = a is not None and bidx is not None and a[0] == "ap" and bidx[0] == "ap" and \
            a[1].proj[-1:] == ("start_node",) and bidx[1].proj[-1:] == ("min_idx",) and \
            a[1].root == bidx[1].root and a[1].proj[:-1] == bidx[1].proj[:-1]
        if not okp:
            bad.append((show(a) if a else "?", show(bidx) if bidx else "?", where))
        elif "eos" in [str(x) for x in a[1].proj] or (a[1].root[0] == "arg" and a[1].root[1] == 1 and
                                                     q != p and "eos" in str(a[1])):
            eos_pairs.append(a)
        else:
            node_pairs.append(a)
    # a captured eos shows up as a capture field; tell the two kinds apart by the first element
    first = S.operand(st["args"][0])
    g1 = guarded_option(fa, S, first, st["args"][0])
    ctx.ob("TRACEBACK", "append_top_nodes|starts-at-eos.start_node",
           not bad and g1 is not None and "eos" in [str(x) for x in g1.proj], loc,
           "the walk starts at the boundary EOS was connected to (eos.start_node, eos.min_idx)"
           if not bad and g1 is not None else
           "the first element of the walk is not the node at (eos.start_node, eos.min_idx): %s" % (bad[:2] or show(first)[:80]))
    ctx.ob("TRACEBACK", "append_top_nodes|follows-start_node", not bad and len(pairs) >= 2, loc,
           "each step continues at (node.start_node, node.min_idx) of the node just reported"
           if not bad and len(pairs) >= 2 else
           "a step of the walk does not read ends[node.start_node][node.min_idx]: %s" % bad[:2])
    # --- nothing is reported once the boundary is 0
    cl = E.closure_of_operand(fa, st["args"][1]) if len(st["args"]) > 1 else None
    g2 = None
    if cl is not None:
        cfa = E.fa(cl[0])
        CS = Sym(E, cfa)
        g2 = guarded_option(cfa, CS, CS.place({"l": 0, "p": []}), {"c": {"l": 0, "p": []}})
    okg = g1 is not None and g2 is not None
    ctx.ob("TRACEBACK", "append_top_nodes|push-guarded-by-position!=0", okg, loc,
           "a node is reported only after testing that its boundary is not 0: the first element "
           "exists only when eos.start_node != 0 and the step ends when node.start_node is 0 (BOS is "
           "never reported; an EOS hanging directly off BOS yields no token)" if okg else
           "%s: with EOS connected directly to BOS (sentence of ignored spaces only) BOS would be "
           "reported and the walk would run out of range"
           % ("the first element of the walk is fetched without testing eos.start_node != 0" if g1 is None
              else "the step does not end the walk when node.start_node is 0"))
    # --- what is appended: (boundary, node)
    okt = None
    ext = [t for b, t in calls_named(fa, "extend")]
    if ext:
        o = fa.origin(ext[0]["args"][1]) if len(ext[0]["args"]) > 1 else ("?",)
        if o[0] == "call" and any(strip_generics(x).endswith("::map") for x in callee_paths(o[2])):
            mc = E.closure_of_operand(fa, o[2]["args"][1])
            if mc is not None:
                mfa = E.fa(mc[0])
                MS = Sym(E, mfa)
                r = MS.place({"l": 0, "p": []})
                okt = r[0] == "agg" and r[2].get("0") == ("ap", AP(("arg", 2), ("#0",))) and \
                    sc_(r[2].get("1", ("?",))) in (("ap", AP(("arg", 2), ("#1",))),) or \
                    (r[0] == "agg" and r[2].get("0") == ("ap", AP(("arg", 2), ("#0",))) and
                     r[2].get("1", ("?",))[0] == "call" and short(r[2]["1"][1]) == "clone")
    if okt is not None:
        ctx.ob("TRACEBACK", "append_top_nodes|pushes-(end,node)", okt, loc,
               "the reported pair is (boundary where the node ends, node)" if okt else
               "the walk does not append (boundary, node) pairs")


def pred(ctx):
    """Every counted (right word, left word) pair is a pair whose connection was evaluated:
    the left nodes come from ends[r.start_node]."""
    crate = ctx.facts("A").lib
    E = Effects(crate)
    p = LAT + "add_connid_counts"
    fa = E.fa(p)
    S = Sym(E, fa)
    adds = calls_named(fa, "add")
    ctx.floor("PRED", "counter.add call sites", len(adds), 1)
    # the right nodes: every ordinary node (the lists of `ends`) and EOS, in one loop
    # (`ends.iter().flatten().chain(eos)`) or in two
    covered = set()
    for b, t in adds:
        a0 = base_local(fa, t["args"][1])
        if not a0:
            continue
        seen_l, work = set(), [{"c": {"l": a0[0], "p": []}}]
        while work and len(seen_l) < 200:
            pl = op_place(work.pop())
            if pl is None:
                continue
            ap = E.ap_place(fa, pl)
            if ap is not None and ap.root == ("arg", 1) and ap.proj[:1] == ("eos",):
                covered.add("eos")
            if ap is not None and ap.root == ("arg", 1) and ap.proj[:1] == ("ends",):
                covered.add("ends")
            if pl["l"] in seen_l:
                continue
            seen_l.add(pl["l"])
            for d in fa.defs().get(pl["l"], []):
                if d[2] == "call":
                    work.extend(d[3]["args"])
                elif d[2] == "assign":
                    for key in ("op", "a", "b"):
                        if isinstance(d[3].get(key), dict):
                            work.append(d[3][key])
                    if d[3]["k"] in ("ref", "discr"):
                        work.append({"c": d[3]["place"]})
                    work.extend(d[3].get("ops", []))
                    if d[3]["k"] == "agg" and d[3].get("agg") == "closure" and d[3].get("closure") in crate.fns:
                        # a closure that produces the nodes (`flat_map(|e| &self.ends[e])`,
                        # `once_with(|| self.eos.as_ref().unwrap())`): what it reads of self
                        caps = [E.ap_operand(fa, o) for o in d[3]["ops"]]
                        cfa = E.fa(d[3]["closure"])

                        def scan(x):
                            if isinstance(x, dict):
                                if "l" in x and "p" in x and isinstance(x["l"], int):
                                    cap_ = E.ap_place(cfa, x)
                                    pm = Effects.map_closure_ap(cap_, caps) if cap_ is not None else None
                                    if pm is not None and pm.root == ("arg", 1) and pm.proj[:1] in (("eos",), ("ends",)):
                                        covered.add(str(pm.proj[0]))
                                    return
                                for k_, v_ in x.items():
                                    if k_ not in ("sp", "fn_sp", "func"):
                                        scan(v_)
                            elif isinstance(x, list):
                                for v_ in x:
                                    scan(v_)
                        for bb_ in cfa.blocks:
                            scan(bb_["stmts"])
                            scan(bb_["term"])
    ctx.ob("PRED", "right-nodes-cover-ends-and-eos", covered == {"eos", "ends"}, fn_loc(crate, p),
           "connections are counted for every node of the lattice and for EOS" if covered == {"eos", "ends"} else
           "connections are counted for %s only: the connection %s is missing from the statistics"
           % (sorted(covered), "to EOS" if "eos" not in covered else "between words"))
    for n, (b, t) in enumerate(adds):
        a = base_local(fa, t["args"][1])   # r.left_id
        bq = base_local(fa, t["args"][2])   # l.right_id
        oka = a and a[1][-1:] == ["left_id"]
        okb = bq and bq[1][-1:] == ["right_id"]
        ctx.ob("PRED", "add|%d|sides" % n, bool(oka and okb), fa.loc(b),
               "counts (right word's left_id, left word's right_id)" if oka and okb else
               "counter.add receives %s, %s" % (show(S.operand(t["args"][1])),
                                                show(S.operand(t["args"][2]))))
        if not (oka and okb):
            continue
        lsrc = elem_source(E, fa, bq[0])
        info = lsrc[2] if lsrc and lsrc[0] == "iter" else None
        ok = False
        why = "left nodes are not taken from an indexed list of `ends`"
        if info and info.get("index") is not None:
            ib = base_local(fa, info["index"])
            if ib and ib[1][-1:] == ["start_node"]:
                # same right node?
                same = same_node(fa, ib[0], a[0])
                ok = same and set(info["adaptors"]) <= ALLOWED_ADAPTORS
                why = "the list index is start_node of another node" if not same else "adaptors"
            else:
                why = "the list of left nodes is ends[%s], not ends[right_node.start_node]" \
                      % show(S.operand(info["index"]))
        ctx.ob("PRED", "add|%d|left-nodes-from-ends[r.start_node]" % n, ok, fa.loc(b),
               "the left nodes counted against a right node are exactly the predecessor list "
               "its connection costs were evaluated on (ends[r.start_node])" if ok else
               "connection counts do not match the evaluated connections: " + why)


def same_node(fa, l1, l2):
    """Do two locals denote the same node reference (through copies)?"""
    def root(l):
        for _ in range(10):
            d = fa.single_def(l)
            if d is None or d[2] != "assign":
                return l
            rv = d[3]
            pl = op_place(rv["op"]) if rv["k"] == "use" else rv["place"] if rv["k"] == "ref" else None
            if pl is None or any(e != "*" for e in pl["p"]):
                return l
            l = pl["l"]
        return l
    return root(l1) == root(l2)

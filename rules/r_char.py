"""CHARINFO (C03, C12): the packed character record and the char.def columns.

    CHARPACK   CharInfo::new packs its parameters at fixed shifts; every accessor reads back the
               field of its own name from the same shift (sibling cross-check new <-> accessors,
               constants evaluated), with a mask no wider than the gap to the next field
    CHARCOLS   parse_char_category returns (category, invoke, group, length) from columns
               0, 1, 2, 3 - each value from its own column only
    CHARARGS   CharProperty::from_reader hands the parsed (invoke, group, length) to CharInfo::new
               in that order
    CHARSET    encode_cate_info takes the primary category (base id, invoke/group/length) from the
               first listed category and ORs one bit per listed category into the id set
"""
import re

from effects import Effects
from facts import EngineError
from flow import control_conditions
from mir import callee_of, callee_paths, op_place, op_const, strip_generics
from sym import Sym, show, strip_casts

CH = "vibrato::dictionary::character::"


def _names(t):
    return {strip_generics(x).rsplit("::", 1)[-1] for x in callee_paths(t)}


def _const(e):
    """integer value of a constant expression (Add/Sub/Mul of constants), else None"""
    e = strip_casts(e)
    if e[0] == "const" and isinstance(e[1], int):
        return e[1]
    if e[0] == "binop" and e[1] in ("Add", "AddWithOverflow", "Sub", "Mul"):
        a, b = _const(e[2]), _const(e[3])
        if a is None or b is None:
            return None
        return a + b if e[1].startswith("Add") else a - b if e[1] == "Sub" else a * b
    if e[0] == "proj" and e[2] and e[2][0] in ("#0", 0):
        return _const(e[1])
    return None


def _packed(e, out):
    """flatten BitOr(...) into [(leaf expression, shift)]"""
    e = strip_casts(e)
    if e[0] == "binop" and e[1] == "BitOr":
        _packed(e[2], out)
        _packed(e[3], out)
        return
    if e[0] == "binop" and e[1] == "Shl":
        out.append((strip_casts(e[2]), _const(e[3])))
        return
    out.append((e, 0))


def _leaf_arg(e):
    e = strip_casts(e)
    for _ in range(4):
        if e[0] == "call" and e[1].rsplit("::", 1)[-1] in ("from", "into") and e[2]:
            e = strip_casts(e[2][0])
    if e[0] == "ap" and e[1].root[0] == "arg" and not e[1].proj:
        return e[1].root[1]
    return None


def pack(ctx, crate, E):
    p = CH + "CharInfo::new"
    f = crate.fns.get(p)
    if f is None or not f.body:
        raise EngineError("CHARPACK: anchor lost: %s" % p)
    fa = E.fa(p)
    S = Sym(E, fa)
    pnames = f.j.get("param_names") or []
    word = None
    for b, i, s in fa.stmts():
        rv = s.get("rv")
        if rv and rv["k"] == "agg" and str(rv.get("adt", "")).endswith("CharInfo") and rv["ops"]:
            word = S.operand(rv["ops"][0])
    if word is None:
        raise EngineError("CHARPACK: the packed word of CharInfo::new was not found")
    parts = []
    _packed(word, parts)
    shifts = {}
    for leaf, sh in parts:
        a = _leaf_arg(leaf)
        if a is None or sh is None or a - 1 >= len(pnames):
            raise EngineError("CHARPACK: unrecognised component %s of the packed word" % show(leaf))
        shifts[pnames[a - 1]] = sh
    ctx.floor("CHARPACK", "fields packed by CharInfo::new", len(shifts), 5)
    order = sorted(shifts.items(), key=lambda kv: kv[1])
    # distinct, increasing shifts
    okd = len({v for _, v in order}) == len(order)
    ctx.ob("CHARPACK", "new|distinct-shifts", okd, "%s:%s" % (f.file, f.line),
           "CharInfo::new packs %s" % ", ".join("%s<<%d" % kv for kv in order) if okd else
           "two fields of CharInfo are packed at the same bit position: %s" % order)
    width = {}
    for k, (nm, sh) in enumerate(order):
        width[nm] = (order[k + 1][1] - sh) if k + 1 < len(order) else 32 - sh
    for nm, sh in order:
        q = CH + "CharInfo::" + nm
        g = crate.fns.get(q)
        if g is None or not g.body:
            raise EngineError("CHARPACK: accessor %s not found" % q)
        ga = E.fa(q)
        GS = Sym(E, ga)
        # the returned expression
        ret = None
        for b, i, s in ga.stmts():
            if "lhs" in s and s["lhs"]["l"] == 0 and not s["lhs"]["p"]:
                rv = s["rv"]
                if rv["k"] in ("use", "cast"):
                    ret = GS.operand(rv["op"])
                elif rv["k"] == "binop":
                    ret = ("binop", rv["op"], GS.operand(rv["a"]), GS.operand(rv["b"]))
        if ret is None:
            raise EngineError("CHARPACK: return expression of %s not found" % q)
        e = strip_casts(ret)
        if e[0] == "binop" and e[1] == "Ne" and _const(e[3]) == 0:
            e = strip_casts(e[2])
        mask = None
        got = 0
        if e[0] == "binop" and e[1] == "BitAnd":
            m_e = strip_casts(e[3])
            if m_e[0] == "binop" and m_e[1] == "Shl" and _const(m_e[2]) is not None and _const(m_e[3]) is not None:
                # `word & (m << s)`: a mask in place
                mask = _const(m_e[2])
                got = _const(m_e[3])
                e = strip_casts(e[2])
            else:
                mask = _const(e[3])
                e = strip_casts(e[2])
                if mask is not None and mask != 0 and e[0] == "ap":
                    # `word & CONST` with the constant already shifted
                    low = (mask & -mask).bit_length() - 1
                    if low > 0:
                        got, mask = low, mask >> low
        if e[0] == "binop" and e[1] == "Shr":
            got = _const(e[3])
            e = strip_casts(e[2])
        base_ok = e[0] == "ap" and e[1].root == ("arg", 1)
        if not base_ok or got is None:
            raise EngineError("CHARPACK: the shape of %s() is not `(word >> s) & m` / `word & (m << s)`" % nm)
        w = width[nm]
        mask_ok = mask is None and sh + w == 32 or (mask is not None and mask == (1 << w) - 1) or \
            (mask is not None and mask.bit_length() <= w and (mask & (mask + 1)) == 0 and nm in ("invoke", "group"))
        ok = base_ok and got == sh and mask_ok
        ctx.ob("CHARPACK", "accessor|%s" % nm, ok, "%s:%s" % (g.file, g.line),
               "%s() reads bits %d..%d, where CharInfo::new stores `%s`" % (nm, sh, sh + w, nm) if ok else
               "%s() reads the word at shift %s with mask %s, but CharInfo::new stores `%s` at shift %d "
               "(width %d): the accessor returns another field's bits" % (nm, got, mask, nm, sh, w))


def cols(ctx, crate, E):
    p = CH + "CharProperty::parse_char_category"
    fa = E.fa(p)
    S = Sym(E, fa)
    f = crate.fns[p]
    tup = None
    order = [0, 1, 2, 3]          # slot k of the carrier holds (category, invoke, group, length)[order[k]]

    def is_carrier(rv):
        if not rv or rv["k"] != "agg" or len(rv.get("ops", [])) != 4:
            return False
        if rv.get("agg") == "tuple":
            return True
        # a small struct with the same four members (named, so the names decide the roles)
        return rv.get("agg") == "adt" and not str(rv.get("adt", "")).startswith(("std::", "core::", "alloc::")) \
            and {"invoke", "group", "length"} <= set(rv.get("fields") or [])
    for b, i, s in fa.stmts():
        rv = s.get("rv")
        if is_carrier(rv):
            tup = [S.operand(o) for o in rv["ops"]]
            if rv.get("agg") == "adt":
                fl = list(rv["fields"])
                order = [{"invoke": 1, "group": 2, "length": 3}.get(n, 0) for n in fl]
    if tup is None:
        raise EngineError("CHARCOLS: the (category, invoke, group, length) tuple was not found")
    # column indices a value depends on: constants used to index `cols` anywhere in its derivation.
    # The derivations go through closures (`.then(|| cols[1] == "1")`), so collect per closure too.
    def idxs_in(fn_path):
        out = set()
        ga = E.fa(fn_path)
        for b, t in ga.calls():
            if "index" in _names(t) and len(t["args"]) == 2:
                k = op_const(t["args"][1])
                if k is not None and "int" in k:
                    out.add(k["int"])
        for b in ga.live_blocks():
            t = ga.term(b)
            if t["k"] == "assert" and t["msg"]["kind"] == "BoundsCheck":
                k = op_const(t["msg"]["index"])
                if k is not None and "int" in k:
                    out.add(k["int"])
        return out
    closures = sorted(q for q in crate.fns if q.startswith(p + "::{closure") and crate.fns[q].body)
    # associate each closure with the tuple slot whose derivation creates it
    slot_cols = {0: set(), 1: set(), 2: set(), 3: set()}
    for k, e in enumerate(tup):
        txt = show(e)
        for m in re.finditer(r"index\(([^()]*?), (\d+)\)|\.\[(\d+)\]", txt):
            pass
    # walk MIR: for each slot operand collect index constants reachable through its origin chain
    for b, i, s in fa.stmts():
        rv = s.get("rv")
        if is_carrier(rv):
            for k0, o in enumerate(rv["ops"]):
                k = order[k0]
                seen = set()
                work = [o]
                while work and len(seen) < 200:
                    x = work.pop()
                    pl = op_place(x)
                    if pl is None:
                        continue
                    for pe in pl["p"]:
                        if isinstance(pe, dict) and "ci" in pe and not pe.get("from_end"):
                            slot_cols[k].add(pe["ci"])
                    if pl["l"] in seen:
                        continue
                    seen.add(pl["l"])
                    # a value chosen by a match on a column depends on that column
                    work.extend(control_conditions(fa, [d[0] for d in fa.defs().get(pl["l"], [])
                                                        if d[2] != "partial"]))
                    for d in fa.defs().get(pl["l"], []):
                        if d[2] == "call":
                            t = d[3]
                            if "index" in _names(t) and len(t["args"]) == 2:
                                kk = op_const(t["args"][1])
                                if kk is not None and "int" in kk:
                                    slot_cols[k].add(kk["int"])
                            for a in t["args"]:
                                work.append(a)
                                # closure argument: its body's column indices
                                cl = E.closure_of_operand(fa, a)
                                if cl is not None:
                                    slot_cols[k] |= idxs_in(cl[0])
                        elif d[2] == "assign":
                            r2 = d[3]
                            for key in ("op", "a", "b"):
                                if key in r2:
                                    work.append(r2[key])
                            if r2["k"] == "ref":
                                work.append({"c": r2["place"]})
                            for o2 in r2.get("ops", []):
                                work.append(o2)
    want = {0: {0}, 1: {1}, 2: {2}, 3: {3}}
    names = ["category", "invoke", "group", "length"]
    if any(not slot_cols[k] for k in range(4)):
        raise EngineError("CHARCOLS: the columns behind %s could not be traced" %
                          [names[k] for k in range(4) if not slot_cols[k]])
    for k in range(4):
        ok = slot_cols[k] == want[k]
        ctx.ob("CHARCOLS", "parse_char_category|%s" % names[k], ok, "%s:%s" % (f.file, f.line),
               "%s is read from column %d of a category line" % (names[k], k) if ok else
               "%s is derived from column(s) %s of a category line (expected column %d): INVOKE, "
               "GROUP and LENGTH of a category are taken from each other's columns"
               % (names[k], sorted(slot_cols[k]), k))


def args(ctx, crate, E):
    p = CH + "CharProperty::from_reader"
    fa = E.fa(p)
    S = Sym(E, fa)
    f = crate.fns[p]
    calls = [(b, t) for b, t in fa.calls() if any(strip_generics(x).endswith("CharInfo::new") for x in callee_paths(t))]
    if not calls:
        raise EngineError("CHARARGS: CharInfo::new is not called in from_reader")
    pn = crate.fns[CH + "CharInfo::new"].j.get("param_names") or []
    for k, (b, t) in enumerate(calls):
        got = [show(S.operand(a)) for a in t["args"]]
        # the tuple returned by parse_char_category: fields #1 #2 #3
        ok = True
        detail = []
        for name, want in (("invoke", "#1"), ("group", "#2"), ("length", "#3")):
            if name not in pn:
                raise EngineError("CHARARGS: CharInfo::new has no parameter `%s`" % name)
            a = got[pn.index(name)]
            good = a.endswith("." + want) or ("." + want + ".") in a or a.endswith(want) or \
                a.endswith("." + name) or ("." + name + ".") in a       # a named member of a small struct
            ok = ok and good
            detail.append("%s <- %s" % (name, a[-24:]))
        ctx.ob("CHARARGS", "from_reader|CharInfo::new|%d" % k, ok, fa.loc(b),
               "CharInfo::new receives the parsed invoke, group and length in their own positions" if ok else
               "CharInfo::new receives %s: INVOKE and GROUP (both bool) or LENGTH are crossed" % "; ".join(detail))


def idset(ctx, crate, E):
    p = CH + "CharProperty::encode_cate_info"
    ps = [q for q in crate.fns if strip_generics(q) == p and crate.fns[q].body]
    if len(ps) != 1:
        raise EngineError("CHARSET: anchor lost: encode_cate_info")
    fa = E.fa(ps[0])
    S = Sym(E, fa)
    f = crate.fns[ps[0]]
    loc = "%s:%s" % (f.file, f.line)
    firsts = []
    for b, t in fa.calls():
        if _names(t) & {"first", "last", "get", "nth", "index"} and t["args"] and \
                show(S.operand(t["args"][0])).startswith("arg1"):
            nm = sorted(_names(t) & {"first", "last", "get", "nth", "index"})[0]
            if nm in ("get", "nth", "index") and len(t["args"]) > 1:
                k = op_const(t["args"][1])
                nm = "first" if (k is not None and k.get("int") == 0) else "%s(%s)" % (nm, (k or {}).get("int", "?"))
            firsts.append(nm)
    for b in sorted(fa.live_blocks()):
        t = fa.term(b)
        if t["k"] == "assert" and t["msg"]["kind"] == "BoundsCheck":
            o = fa.origin(t["msg"]["index"])
            k = o[1] if o[0] == "const" else None
            if k is not None and "int" in k:
                firsts.append("first" if k["int"] == 0 else "index(%d)" % k["int"])
    if not firsts:
        raise EngineError("CHARSET: how encode_cate_info picks the primary category was not recognised")
    ok1 = all(x == "first" for x in firsts[:1])
    ctx.ob("CHARSET", "encode_cate_info|primary-is-first", bool(ok1), loc,
           "the primary category of a range is the first category listed" if ok1 else
           "the primary category of a range is taken with %s: base id, INVOKE, GROUP and LENGTH come "
           "from another listed category" % firsts)
    # cate_idset |= 1 << base_id(target): the accumulator is defined as BitOr(acc, Shl(1, base_id(..)))
    acc_ok = False
    for b, i, s in fa.stmts():
        rv = s.get("rv")
        if rv and rv["k"] == "binop" and rv["op"] == "BitOr" and not s["lhs"]["p"]:
            l = s["lhs"]["l"]
            a, b2 = S.operand(rv["a"]), S.operand(rv["b"])
            pa = op_place(rv["a"])
            self_ref = pa is not None and pa["l"] == l
            sh = strip_casts(b2)
            if self_ref and sh[0] == "binop" and sh[1] == "Shl" and _const(sh[2]) == 1 and "base_id" in show(sh[3]):
                acc_ok = True
    ctx.ob("CHARSET", "encode_cate_info|one-bit-per-listed-category", acc_ok, loc,
           "every listed category adds its bit: idset = idset | (1 << base_id)" if acc_ok else
           "the category set is not accumulated as `idset | (1 << base_id)` over the listed "
           "categories: a character keeps only one of its categories (grouping across shared "
           "categories and SPACE detection change)")


WIDE_TYPES = ("u32", "u64", "usize", "u128", "i64", "i128")
LOSSLESS_CALLS = ("from", "from_u32", "into", "try_from", "unwrap", "try_into")


def charkey(ctx, crate, E):
    """CHARKEY (C03, C12, C01): CharProperty::char_info looks a character up by its whole code
    point. Every read of the table in char_info is indexed either by a constant (the DEFAULT
    slot used for code points beyond the table) or by the `char` parameter through widening
    conversions only (u32::from, usize::from_u32, `as u32/usize`): a narrowing cast or a mask
    makes a supplementary-plane character share the record of an unrelated BMP character."""
    p = CH + "CharProperty::char_info"
    f = crate.fns.get(p)
    if f is None or not f.body:
        raise EngineError("CHARKEY: anchor lost: %s" % p)
    todo = [p] + sorted(q for q in crate.fns if q.startswith(p + "::{closure") and crate.fns[q].body)
    n = 0
    const_reads, fallible = [], []
    for q in todo:
        fa = E.fa(q)
        S = Sym(E, fa, depth=30)
        for b, t in fa.calls():
            ps = [strip_generics(x) for x in callee_paths(t)]
            if not any(x.endswith("Index::index") or x.endswith("slice::get") or x.endswith("::get")
                       or x.endswith("get_unchecked") for x in ps) or len(t["args"]) < 2:
                continue
            base = show(S.operand(t["args"][0]))
            if "chr2inf" not in base and q == p:
                continue
            e = S.operand(t["args"][1])
            n += 1
            why = None
            cur = e
            if e[0] == "const":
                const_reads.append(e[1])
            elif any(x.endswith("::get") or x.endswith("slice::get") for x in ps):
                fallible.append(fa.loc(b))
            for _ in range(12):
                if cur[0] == "const":
                    break
                if cur[0] == "cast":
                    if cur[2] not in WIDE_TYPES:
                        why = "narrowing cast to %s" % cur[2]
                        break
                    cur = cur[1]
                    continue
                if cur[0] == "call" and len(cur[2]) == 1 and cur[1].rsplit("::", 1)[-1] in LOSSLESS_CALLS:
                    tail = cur[1]
                    if any(w in tail for w in ("<u8 ", "<u16 ", "<i8 ", "<i16 ", "u8 as", "u16 as")):
                        why = "conversion %s" % tail
                        break
                    cur = cur[2][0]
                    continue
                if cur[0] == "ap" and cur[1].root == ("arg", 2) and not cur[1].proj and q == p:
                    break
                why = "index %s" % show(cur)[:60]
                break
            ctx.ob("CHARKEY", "char_info|index-is-whole-code-point|%d" % n, why is None, fa.loc(b),
                   "the character table is indexed by the whole code point (or the constant DEFAULT slot)"
                   if why is None else
                   "char_info does not index the character table by the whole code point (%s): code "
                   "points beyond U+FFFF alias unrelated characters" % why)
    # a code point beyond the table is a DEFAULT character: the fallback of a fallible lookup is the
    # record in slot 0, not a made-up record (CharInfo::default() has no category and length 0)
    if fallible:
        ok = 0 in const_reads
        ctx.ob("CHARKEY", "char_info|fallback-is-slot-0", ok, fallible[0],
               "a code point beyond the table reads the DEFAULT record in slot 0" if ok else
               "char_info looks the character up with a fallible get but never reads slot 0: a code "
               "point beyond the table (every supplementary-plane character) gets a substitute record "
               "instead of DEFAULT's categories, invoke, group and length")
    ctx.floor("CHARKEY", "table reads in char_info", n, 1)


TYPE_BITS = {"bool": 1, "u8": 8, "i8": 8, "u16": 16, "i16": 16, "u32": 32, "i32": 32, "char": 21,
             "u64": 64, "i64": 64, "usize": 64, "isize": 64, "u128": 128, "i128": 128}


def _leaf_bits(fa, e):
    """(upper bound on the number of significant bits of a packed leaf from its types, masks
    and constants alone, the expressions met while peeling lossless conversions)"""
    bits = 128
    cores = []
    for _ in range(12):
        cores.append(e)
        if e[0] == "proj":
            e = e[1]
            continue
        if e[0] == "call" and len(e[2]) == 1 and e[1].rsplit("::", 1)[-1] == "branch":
            e = e[2][0]
            continue
        if e[0] == "cast":
            bits = min(bits, TYPE_BITS.get(e[2], 128))
            e = e[1]
            continue
        if e[0] == "call" and len(e[2]) == 1 and e[1].rsplit("::", 1)[-1] in LOSSLESS_CALLS:
            ty = fa.fn.locals[fa.term(e[3])["dest"]["l"]]["ty"]
            bits = min(bits, TYPE_BITS.get(ty, 128))
            e = e[2][0]
            continue
        if e[0] == "binop" and e[1] == "BitAnd":
            c = _const(e[3])
            x = e[2]
            if c is None:
                c, x = _const(e[2]), e[3]
            if c is not None:
                bits = min(bits, max(c, 0).bit_length())
                e = x
                continue
            break
        if e[0] == "const" and isinstance(e[1], int) and not isinstance(e[1], bool):
            bits = min(bits, max(e[1], 0).bit_length())
            break
        if e[0] == "ap" and e[1].root[0] == "arg" and not e[1].proj:
            bits = min(bits, TYPE_BITS.get(fa.fn.locals[e[1].root[1]]["ty"], 128))
            break
        if e[0] == "phi":
            bits = min(bits, TYPE_BITS.get(fa.fn.locals[e[1]]["ty"], 128))
            break
        if e[0] == "call":
            ty = fa.fn.locals[fa.term(e[3])["dest"]["l"]]["ty"]
            bits = min(bits, TYPE_BITS.get(ty, 128))
            break
        break
    return bits, cores


def _guard_bits(fa, S, pb, cores):
    """bits bound established for one of `cores` by comparisons that dominate block pb"""
    from flow import control_conditions, bool_switch_targets
    best = 128
    dom = fa.dominators().get(pb, ())
    for d in dom:
        t = fa.term(d)
        if t["k"] != "switch" or d == pb:
            continue
        e = S.operand(t["op"])
        if e[0] != "binop" or e[1] not in ("Eq", "Ne", "Lt", "Le", "Gt", "Ge"):
            continue
        f_t, t_t = bool_switch_targets(t)
        on_true = pb in fa.reachable(t_t, avoid={f_t}) and pb not in fa.reachable(f_t, avoid={t_t})
        on_false = pb in fa.reachable(f_t, avoid={t_t}) and pb not in fa.reachable(t_t, avoid={f_t})
        if not (on_true or on_false):
            continue
        a, b = e[2], e[3]

        def peel(x):
            for _ in range(10):
                if x[0] == "cast":
                    x = x[1]
                elif x[0] == "proj":
                    x = x[1]
                elif x[0] == "call" and len(x[2]) == 1 and \
                        x[1].rsplit("::", 1)[-1] in LOSSLESS_CALLS + ("branch",):
                    x = x[2][0]
                else:
                    break
            return x
        pc = [peel(c) for c in cores]
        # X >> k == 0
        for x, z in ((a, b), (b, a)):
            if _const(z) == 0 and x[0] == "binop" and x[1] == "Shr" and _const(x[3]) is not None and peel(x[2]) in pc:
                zero_edge_true = e[1] == "Eq"
                if e[1] in ("Eq", "Ne") and ((zero_edge_true and on_true) or (not zero_edge_true and on_false)):
                    best = min(best, _const(x[3]))
        # X < c etc.
        op = e[1] if on_true else {"Lt": "Ge", "Le": "Gt", "Gt": "Le", "Ge": "Lt", "Eq": "Ne", "Ne": "Eq"}[e[1]]
        ca, cb = _const(a), _const(b)
        if cb is not None and peel(a) in pc:      # X op c
            lim = cb if op == "Lt" else cb + 1 if op == "Le" else None
        elif ca is not None and peel(b) in pc:    # c op X
            lim = ca if op == "Gt" else ca + 1 if op == "Ge" else None
        else:
            lim = None
        if lim is not None and lim > 0:
            best = min(best, (lim - 1).bit_length())
    return best


def packguard(ctx, only=None):
    """PACK (C03, C10, C11): wherever several values are packed into one integer
    (`a | b << s1 | c << s2 ...`), every value is known to fit the gap up to the next field: by
    its type (a bool, a u8 in 8 bits), by a mask, or by a comparison on every path to the pack
    (`x >> BITS != 0 => reject`, `x > MAX => Err`). An unguarded field spills into its
    neighbour: CharInfo would report another category or length, a packed (offset, count) pair
    another posting list."""
    crate = ctx.facts("A").lib
    E = Effects(crate)
    n = 0
    for p, f in sorted(crate.fns.items()):
        if not f.body or f.krate != "vibrato" or f.j.get("derive"):
            continue
        if only and not only(p):
            continue
        fa = E.fa(p)
        ors = [(b, i, s0) for b, i, s0 in fa.stmts()
               if s0.get("rv") and s0["rv"]["k"] == "binop" and s0["rv"]["op"] == "BitOr"]
        if not ors:
            continue
        S = Sym(E, fa, depth=40)
        inner = set()
        for b, i, s0 in ors:
            for o in (s0["rv"]["a"], s0["rv"]["b"]):
                pl = op_place(o)
                d = fa.single_def(pl["l"]) if pl is not None and not pl["p"] else None
                if d and d[2] == "assign" and d[3]["k"] == "binop" and d[3]["op"] == "BitOr":
                    inner.add((d[0], d[1]))
        for b, i, s0 in ors:
            if (b, i) in inner:
                continue
            e = ("binop", "BitOr", S.operand(s0["rv"]["a"]), S.operand(s0["rv"]["b"]))
            leaves = []
            _packed(e, leaves)
            if not any(sh for x, sh in leaves if sh):
                continue            # a plain OR of flags / sets, nothing is positioned
            if any(sh is None for x, sh in leaves):
                if all(_const(x) is not None for x, sh in leaves if sh is None):
                    continue        # `1 << id`: a bit set
                raise EngineError("PACK: variable shift of a variable in %s" % p)
            total = TYPE_BITS.get(fa.fn.locals[s0["lhs"]["l"]]["ty"], None)
            if total is None:
                raise EngineError("PACK: result type of the pack in %s is not an integer" % p)
            leaves.sort(key=lambda t: t[1])
            for k, (x, sh) in enumerate(leaves):
                nxt = leaves[k + 1][1] if k + 1 < len(leaves) else total
                w = nxt - sh
                # un-stripped leaf for type information
                bits, cores = _leaf_bits(fa, x)
                bits = min(bits, total)      # operands of the OR have the result's type
                if bits > w:
                    bits = min(bits, _guard_bits(fa, S, b, cores))
                n += 1
                ok = bits <= w and w > 0
                ctx.ob("PACK", "%s|field@%d" % (p, sh), ok, fa.loc(b, i),
                       "the value packed at bit %d of %s fits its %d bits" % (sh, p.split("::")[-1], w) if ok else
                       "the value packed at bit %d in %s (%s) is only known to fit %s bits but the next "
                       "field starts %d bits higher: a larger value spills into the neighbouring field "
                       "(nothing on the way to the pack rejects or masks it)"
                       % (sh, "::".join(p.split("::")[-2:]), show(x)[:60], bits if bits < 128 else "its type's", w))
    ctx.floor("PACK", "packed fields", n, 5)


def cateinv(ctx, crate, E):
    """CATEINV (C03, C12, C01): CharProperty keeps the category names in a vector indexed by
    category id (`cate_id`, `cate_str`, the SPACE mask of ignore_space and the unk.def offsets all
    go through it). The ids are assigned through a name -> id map while char.def is read, so the
    vector must be the inverse of that map: either it is filled position by position from the
    map's own entries (`names[id] = name`), or a name is appended exactly when the map did not
    have it yet. Appending one name per category *line* gives a redefined category two slots and
    shifts every later id."""
    from flow import back_slice
    p = CH + "CharProperty::from_reader"
    f = crate.fns.get(p)
    if f is None or not f.body:
        raise EngineError("CATEINV: anchor lost: %s" % p)
    fa = E.fa(p)
    V = None
    for b, i, s0 in fa.stmts():
        rv = s0.get("rv")
        if rv and rv["k"] == "agg" and str(rv.get("adt", "")).endswith("CharProperty") and "categories" in (rv.get("fields") or []):
            pl = op_place(rv["ops"][rv["fields"].index("categories")])
            for _ in range(6):
                d = fa.single_def(pl["l"]) if pl is not None and not pl["p"] else None
                if d and d[2] == "assign" and d[3]["k"] == "use" and op_place(d[3]["op"]) is not None:
                    pl = op_place(d[3]["op"])
                else:
                    break
            V = pl["l"] if pl is not None and not pl["p"] else None
    if V is None:
        raise EngineError("CATEINV: the `categories` member of the CharProperty that from_reader returns is not a local vector")

    def is_v(op):
        pl = op_place(op)
        for _ in range(6):
            if pl is None:
                return False
            if pl["l"] == V:
                return True
            d = fa.single_def(pl["l"]) if not [e for e in pl["p"] if e != "*"] else None
            if d is None:
                return False
            if d[2] == "call":
                if _names(d[3]) & {"deref_mut", "deref", "as_mut_slice", "as_mut"} and d[3]["args"]:
                    pl = op_place(d[3]["args"][0])
                    continue
                return False
            pl = op_place(d[3]["op"]) if d[3]["k"] == "use" else d[3]["place"] if d[3]["k"] == "ref" else None
        return False
    n = 0
    for b, t in fa.calls():
        nm = _names(t)
        if "index_mut" in nm and len(t["args"]) == 2 and is_v(t["args"][0]):
            # names[<value of a map entry>] = <key of that entry>
            calls = []
            back_slice(fa, t["args"][1], lambda bb, tt: calls.append(tt))
            from_map = any(_names(c) & {"next"} and any("hash_map" in x or "HashMap" in x or "btree" in x.lower() for x in callee_paths(c))
                           for c in calls)
            n += 1
            ctx.ob("CATEINV", "from_reader|slot-is-the-mapped-id|%d" % n, from_map, fa.loc(b),
                   "a category name is stored at the position given by its entry in the name -> id map" if from_map else
                   "a category name is stored at a position that does not come from the name -> id map")
        if "push" in nm and len(t["args"]) == 2 and is_v(t["args"][0]) and \
                any(b in fa.reachable(x) for x in fa.succs(b)):
            # appended inside the reading loop: only under a test that the name is new
            guarded = False
            for db in fa.dominators().get(b, ()):
                dt = fa.term(db)
                if dt["k"] != "switch":
                    continue
                calls = []
                back_slice(fa, dt["op"], lambda bb, tt: calls.append(tt))
                if any(_names(c) & {"contains_key", "insert", "get", "entry", "is_none", "is_some"} for c in calls) or \
                        (fa.origin(dt["op"])[0] == "rv" and fa.origin(dt["op"])[1]["k"] == "discr" and
                         "Entry" in str(fa.origin(dt["op"])[1].get("ty", ""))):
                    guarded = True
            n += 1
            ctx.ob("CATEINV", "from_reader|append-only-new-names|%d" % n, guarded, fa.loc(b),
                   "a category name is appended only under a test that the map did not have it" if guarded else
                   "a category name is appended for every category line, whether or not the name already "
                   "has an id: a redefined category takes a second slot, `cate_id` and `cate_str` no longer "
                   "invert each other, and the SPACE mask of ignore_space and the unk.def offsets of every "
                   "later category are off")
    ctx.floor("CATEINV", "stores into the id -> name vector", n, 1)


def run(ctx):
    crate = ctx.facts("A").lib
    E = Effects(crate)
    cateinv(ctx, crate, E)
    pack(ctx, crate, E)
    cols(ctx, crate, E)
    args(ctx, crate, E)
    idset(ctx, crate, E)
    charkey(ctx, crate, E)


def run_key(ctx):
    crate = ctx.facts("A").lib
    charkey(ctx, crate, Effects(crate))
    cateinv(ctx, crate, Effects(crate))

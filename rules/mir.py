"""CFG / dominator / access-path utilities over the MIR facts."""
from collections import defaultdict

from facts import EngineError


# ----------------------------------------------------------------------------------------
# small accessors

def callee_of(term):
    """Return the callee description dict of a call terminator (or None for indirect calls)."""
    if term["k"] not in ("call", "tailcall"):
        return None
    f = term["func"]
    k = f.get("k")
    if k and "fn" in k:
        return k["fn"]
    return None


def callee_path(term, resolved=True):
    c = callee_of(term)
    if not c:
        return None
    if resolved and c.get("resolved"):
        return c["resolved"]["path"]
    return c["path"]


def callee_paths(term):
    """Both the declared and the resolved path (set)."""
    c = callee_of(term)
    if not c:
        return set()
    s = {c["path"]}
    if c.get("resolved"):
        s.add(c["resolved"]["path"])
    return s


def op_place(op):
    if "c" in op:
        return op["c"]
    if "m" in op:
        return op["m"]
    return None


def op_const(op):
    return op.get("k")


def strip_generics(path):
    """`std::vec::Vec::<T, A>::push` -> `std::vec::Vec::push` (drop ::<...> segments)."""
    out = []
    depth = 0
    i = 0
    while i < len(path):
        ch = path[i]
        if ch == "<":
            if depth == 0 and out[-2:] == [":", ":"]:
                # generic segment: remove the preceding '::'
                out = out[:-2]
                depth = 1
                # mark as removable
                j = i + 1
                d = 1
                while j < len(path) and d:
                    if path[j] == "<":
                        d += 1
                    elif path[j] == ">":
                        d -= 1
                    j += 1
                i = j
                depth = 0
                continue
            depth += 1
        elif ch == ">":
            depth -= 1
        out.append(ch)
        i += 1
    return "".join(out)


# ----------------------------------------------------------------------------------------
# access paths

class AP:
    """Access path: root + projection (derefs dropped, references transparent)."""
    __slots__ = ("root", "proj")

    def __init__(self, root, proj=()):
        self.root = root
        self.proj = tuple(proj)

    def __eq__(self, o):
        return isinstance(o, AP) and self.root == o.root and self.proj == o.proj

    def __hash__(self):
        return hash((self.root, self.proj))

    def __repr__(self):
        r = self.root
        if r[0] == "arg":
            s = "arg%d" % r[1]
        elif r[0] == "call":
            s = "call@bb%d" % r[1]
        elif r[0] == "local":
            s = "_%d" % r[1]
        else:
            s = str(r)
        for e in self.proj:
            s += "." + str(e)
        return s

    def extend(self, more):
        proj = list(self.proj)
        for e in more:
            # Option/Result are transparent: `as Some` + field 0 vanish
            if e in ("as Some", "as Ok"):
                proj.append("<some>")
                continue
            if proj and proj[-1] == "<some>":
                proj.pop()
                if e in ("0", "#0"):
                    continue
            # enumerate(): (index, item) tuples
            if len(proj) >= 2 and proj[-2] == "<enum>" and proj[-1] == "[]" and e in ("0", "1", "#0", "#1"):
                proj.pop()
                proj.pop()
                proj.append("[]" if e in ("1", "#1") else "<idx>")
                continue
            proj.append(e)
        return AP(self.root, proj)

    def startswith(self, other):
        return self.root == other.root and self.proj[:len(other.proj)] == other.proj

    def fields(self):
        return [e for e in self.proj if isinstance(e, str) and not e.startswith("[")
                and not e.startswith("as ")]


def proj_elems(place, keep_index=True):
    out = []
    for e in place["p"]:
        if e == "*":
            continue
        if "f" in e:
            out.append(e.get("n") or ("#%d" % e["f"]))
        elif "i" in e or "ci" in e or "sub" in e:
            if keep_index:
                out.append("[]")
        elif "dc" in e:
            out.append("as " + (e.get("n") or str(e["dc"])))
    return out


class FnA:
    """Analysis wrapper for one function body."""

    def __init__(self, fn, removed=()):
        if not fn.body:
            raise EngineError("no MIR body for %s" % fn.path)
        self.fn = fn
        self.removed = frozenset(removed)   # pruned CFG edges (b, target)
        self.blocks = fn.blocks
        self.n = len(self.blocks)
        self.arg_count = fn.body["arg_count"]
        self._succ = None
        self._pred = None
        self._dom = None
        self._pdom = None
        self._defs = None
        self._ap_cache = {}

    # ---- CFG -------------------------------------------------------------------------
    def term(self, b):
        return self.blocks[b]["term"]

    def succs(self, b, unwind=False):
        t = self.blocks[b]["term"]
        k = t["k"]
        out = []
        if k == "goto":
            out = [t["t"]]
        elif k == "switch":
            out = list(t["targets"]) + [t["otherwise"]]
        elif k in ("call", "drop", "assert"):
            if "t" in t:
                out = [t["t"]]
        if unwind and "unwind" in t:
            out.append(t["unwind"])
        # dedupe preserving order
        seen = []
        for x in out:
            if x not in seen and (b, x) not in self.removed:
                seen.append(x)
        return seen

    def build(self):
        if self._succ is None:
            self._succ = [self.succs(b) for b in range(self.n)]
            self._pred = [[] for _ in range(self.n)]
            for b, ss in enumerate(self._succ):
                for s in ss:
                    self._pred[s].append(b)
        return self

    @property
    def succ(self):
        return self.build()._succ

    @property
    def pred(self):
        return self.build()._pred

    def reachable(self, start=0, avoid=()):
        avoid = set(avoid)
        seen = set()
        st = [start]
        while st:
            b = st.pop()
            if b in seen or b in avoid:
                continue
            seen.add(b)
            st.extend(self.succ[b])
        return seen

    def live_blocks(self):
        return self.reachable(0)

    def return_blocks(self):
        live = self.live_blocks()
        return [b for b in live if self.term(b)["k"] == "return"]

    def dominators(self):
        """dom[b] = set of blocks dominating b (including b), over normal edges from bb0."""
        if self._dom is None:
            live = self.live_blocks()
            order = sorted(live)
            dom = {b: set(live) for b in live}
            dom[0] = {0}
            changed = True
            while changed:
                changed = False
                for b in order:
                    if b == 0:
                        continue
                    ps = [p for p in self.pred[b] if p in live]
                    if ps:
                        new = set.intersection(*[dom[p] for p in ps]) | {b}
                    else:
                        new = {b}
                    if new != dom[b]:
                        dom[b] = new
                        changed = True
            self._dom = dom
        return self._dom

    def dominates(self, a, b):
        d = self.dominators()
        return b in d and a in d[b]

    def postdominators(self):
        """pdom[b] = set of blocks on every path from b to a `return` (including b).
        Blocks that cannot reach a return (panic paths) get the full set (vacuous)."""
        if self._pdom is None:
            live = self.live_blocks()
            rets = set(self.return_blocks())
            # blocks that can reach a return
            can = set(rets)
            changed = True
            while changed:
                changed = False
                for b in live:
                    if b not in can and any(s in can for s in self.succ[b]):
                        can.add(b)
                        changed = True
            pdom = {b: set(live) for b in live}
            for r in rets:
                pdom[r] = {r}
            changed = True
            while changed:
                changed = False
                for b in sorted(can - rets, reverse=True):
                    ss = [s for s in self.succ[b] if s in can]
                    new = set.intersection(*[pdom[s] for s in ss]) | {b} if ss else {b}
                    if new != pdom[b]:
                        pdom[b] = new
                        changed = True
            self._pdom = pdom
            self._can_return = can
        return self._pdom

    def can_return(self, b):
        self.postdominators()
        return b in self._can_return

    # ---- definitions -------------------------------------------------------------------
    def defs(self):
        """local -> list of (bb, idx, kind, payload); kind 'assign' (rvalue) or 'call' (term).
        Only whole-local definitions (no projection on the lhs) are recorded here; partial
        writes are recorded under kind 'partial'."""
        if self._defs is None:
            d = defaultdict(list)
            for b, bb in enumerate(self.blocks):
                for i, s in enumerate(bb["stmts"]):
                    if "lhs" in s:
                        lhs = s["lhs"]
                        if not lhs["p"]:
                            d[lhs["l"]].append((b, i, "assign", s["rv"]))
                        else:
                            d[lhs["l"]].append((b, i, "partial", s))
                t = bb["term"]
                if t["k"] == "call":
                    dst = t["dest"]
                    if not dst["p"]:
                        d[dst["l"]].append((b, -1, "call", t))
                    else:
                        d[dst["l"]].append((b, -1, "partial", t))
            self._defs = d
        return self._defs

    def single_def(self, local):
        ds = [x for x in self.defs().get(local, []) if x[2] != "partial"]
        if len(ds) == 1:
            return ds[0]
        return None

    # ---- access path resolution -----------------------------------------------------------
    def ap_of_local(self, local, depth=0):
        if local in self._ap_cache:
            return self._ap_cache[local]
        if depth > 40:
            return AP(("local", local))
        res = None
        if 1 <= local <= self.arg_count:
            # an argument that is reassigned is rare; treat as arg
            res = AP(("arg", local))
        else:
            d = self.single_def(local)
            if d is None:
                res = AP(("local", local))
            else:
                b, i, kind, payload = d
                if kind == "call":
                    res = AP(("call", b))
                else:
                    rv = payload
                    k = rv["k"]
                    if k == "use":
                        pl = op_place(rv["op"])
                        if pl is not None:
                            res = self.ap_of_place(pl, depth + 1)
                        else:
                            res = AP(("const", id(rv)))
                    elif k in ("ref", "rawptr"):
                        res = self.ap_of_place(rv["place"], depth + 1)
                    elif k == "cast":
                        pl = op_place(rv["op"])
                        if pl is not None and rv["ck"] in ("PtrToPtr", "Transmute", "Subtype") \
                                or (pl is not None and rv["ck"].startswith("PointerCoercion")):
                            res = self.ap_of_place(pl, depth + 1)
                        else:
                            res = AP(("local", local))
                    else:
                        res = AP(("local", local))
        self._ap_cache[local] = res
        return res

    def ap_of_place(self, place, depth=0):
        base = self.ap_of_local(place["l"], depth)
        return base.extend(proj_elems(place))

    def ap_of_operand(self, op):
        pl = op_place(op)
        if pl is None:
            return None
        return self.ap_of_place(pl)

    # ---- iteration helpers -------------------------------------------------------------------
    def calls(self, live_only=True):
        live = self.live_blocks() if live_only else range(self.n)
        for b in sorted(live):
            t = self.blocks[b]["term"]
            if t["k"] == "call":
                yield b, t

    def calls_to(self, pred):
        for b, t in self.calls():
            ps = callee_paths(t)
            if any(pred(p) for p in ps):
                yield b, t

    def stmts(self, live_only=True):
        live = self.live_blocks() if live_only else range(self.n)
        for b in sorted(live):
            for i, s in enumerate(self.blocks[b]["stmts"]):
                yield b, i, s

    def loc(self, b, i=-1):
        bb = self.blocks[b]
        sp = bb["term"]["sp"] if i < 0 or i >= len(bb["stmts"]) else bb["stmts"][i]["sp"]
        return "%s:%s" % (sp["file"], sp["line"])

    # value tracing -------------------------------------------------------------------------------
    def origin(self, op, depth=0):
        """Trace an operand back through copies/moves/casts to a descriptor:
        ('const', k) | ('arg', n, proj) | ('call', bb, term) | ('rv', rvalue, bb, i) | ('place', AP)"""
        k = op_const(op)
        if k is not None:
            return ("const", k)
        pl = op_place(op)
        return self.origin_place(pl, depth)

    def origin_place(self, pl, depth=0):
        if depth > 40:
            return ("place", self.ap_of_place(pl))
        if pl["p"]:
            # projections: report the access path
            only_deref = all(e == "*" for e in pl["p"])
            if not only_deref:
                return ("place", self.ap_of_place(pl))
        l = pl["l"]
        if 1 <= l <= self.arg_count:
            return ("arg", l)
        d = self.single_def(l)
        if d is None:
            return ("place", AP(("local", l)))
        b, i, kind, payload = d
        if kind == "call":
            return ("call", b, payload)
        rv = payload
        if rv["k"] == "use":
            return self.origin(rv["op"], depth + 1)
        if rv["k"] == "ref":
            return self.origin_place(rv["place"], depth + 1)
        if rv["k"] == "cast" and rv["ck"] in ("IntToInt", "PtrToPtr", "Transmute", "Subtype",
                                                "FloatToInt", "IntToFloat", "FloatToFloat"):
            o = self.origin(rv["op"], depth + 1)
            return ("cast", rv, o)
        return ("rv", rv, b, i)


def block_order_positions(fa):
    """(bb, idx) positions comparable within a block; term = len(stmts)."""
    return None


def through_aggregates(fa, pl, limit=12):
    """Normalise a place: `_t.k` where `_t = (a, b, ..)` (tuple/array/struct aggregate, single
    definition) becomes the k-th operand's place; references and plain copies are followed.
    Returns an operand ({'c': place} or a constant operand)."""
    op = {"c": pl}
    for _ in range(limit):
        pl = op_place(op)
        if pl is None:
            return op
        projs = [e for e in pl["p"]]
        # strip leading derefs by following the reference
        d = fa.single_def(pl["l"])
        if d is None or d[2] != "assign":
            return op
        rv = d[3]
        lead_deref = 0
        while lead_deref < len(projs) and projs[lead_deref] == "*":
            lead_deref += 1
        if rv["k"] == "ref" and lead_deref >= 1:
            op = {"c": {"l": rv["place"]["l"], "p": list(rv["place"]["p"]) + projs[1:]}}
            continue
        if rv["k"] == "use" and op_place(rv["op"]) is not None:
            src = op_place(rv["op"])
            op = {"c": {"l": src["l"], "p": list(src["p"]) + projs}}
            continue
        if rv["k"] == "use" and op_const(rv["op"]) is not None and not projs:
            return rv["op"]
        if rv["k"] == "agg" and projs and projs[0] != "*" and \
                ("f" in projs[0] or ("ci" in projs[0] and not projs[0].get("from_end") and rv.get("agg") == "array")):
            # member k of a tuple / struct, or element k of an array literal (`[a, b, c][k]`, as
            # an array pattern binds it)
            k = projs[0]["f"] if "f" in projs[0] else projs[0]["ci"]
            if k < len(rv["ops"]):
                o = rv["ops"][k]
                src = op_place(o)
                if src is None:
                    return o if len(projs) == 1 else op
                op = {"c": {"l": src["l"], "p": list(src["p"]) + projs[1:]}}
                continue
        return op
    return op

"""SCORERCHK / PADVAL / RESERVED0: compact bigram connectors (C07)."""
import re
from effects import Effects
from facts import EngineError
from flow import calls_named, bool_switch_targets
from mir import AP, FnA, callee_of, callee_paths, op_place, op_const, strip_generics
from sym import Sym, show, short, strip_casts

SC = "vibrato::dictionary::connector::raw_connector::scorer::"
U31MAX = 0x7FFFFFFF


def fn_loc(crate, p):
    f = crate.fns[p]
    return "%s:%s" % (f.file, f.line)


def _pos_is_base_xor_key2(pos):
    pos = strip_casts(pos)
    ok = (pos[0] == "call" and short(pos[1]) == "bitxor" and len(pos[2]) == 2) or \
        (pos[0] == "binop" and pos[1] == "BitXor")
    if ok:
        xa, xb = (pos[2][0], pos[2][1]) if pos[0] == "call" else (pos[2], pos[3])
        a0, a1 = strip_casts(xa), strip_casts(xb)
        ok = (a0[0] == "ap" and a0[1].proj[:2] == ("bases", "[]")) and \
            (a1[0] == "call" and short(a1[1]) == "get" and a1[2][0] == ("ap", AP(("arg", 3)))
             or a1 == ("ap", AP(("arg", 3), ("0",))))
    return ok


def _retrieve_combinator(ctx, crate, E, fa, S, p):
    """retrieve_cost written with Option combinators:
    `checks.get(pos).filter(|&&c| c == key1).map(|_| costs[pos])`. The cost is read in the closure
    of `map`, which runs only when the closure of `filter` held; both obligations are read from
    the two closures and the receiver chain. Returns False when the function is not of that form."""
    for b, t in fa.calls():
        nm = {strip_generics(x).rsplit("::", 1)[-1] for x in callee_paths(t)}
        if "map" not in nm or len(t["args"]) != 2:
            continue
        mcl = E.closure_of_operand(fa, t["args"][1])
        if mcl is None:
            continue
        mfa = E.fa(mcl[0])
        MS = Sym(E, mfa)
        creads = []
        for cb, ct in mfa.calls():
            if any(strip_generics(x).endswith("Index::index") for x in callee_paths(ct)) and len(ct["args"]) == 2:
                ap = E.ap_operand(mfa, ct["args"][0])
                pm = Effects.map_closure_ap(ap, mcl[1]) if ap is not None else None
                if pm == AP(("arg", 1), ("costs",)):
                    creads.append((cb, ct))
        if len(creads) != 1:
            continue
        # the position used inside the closure, as the enclosing function sees it
        ipl = E.ap_operand(mfa, creads[0][1]["args"][1])
        cost_pos = None
        caps = None
        for b0, i0, s0 in fa.stmts():
            rv0 = s0.get("rv") or {}
            if rv0.get("k") == "agg" and rv0.get("agg") == "closure" and rv0.get("closure") == mcl[0]:
                caps = rv0["ops"]
        if ipl is not None and ipl.root == ("arg", 1) and ipl.proj and str(ipl.proj[0]).startswith("#") and caps:
            k = int(str(ipl.proj[0])[1:])
            cost_pos = S.operand(caps[k]) if k < len(caps) else None
        # receiver: filter(get(checks, pos), F)
        ro = fa.origin(t["args"][0])
        guarded, same = False, False
        if ro[0] == "call" and "filter" in {strip_generics(x).rsplit("::", 1)[-1] for x in callee_paths(ro[2])}:
            fcl = E.closure_of_operand(fa, ro[2]["args"][1]) if len(ro[2]["args"]) == 2 else None
            go = fa.origin(ro[2]["args"][0])
            if fcl is not None and go[0] == "call" and \
                    S.operand(go[2]["args"][0]) == ("ap", AP(("arg", 1), ("checks",))) and len(go[2]["args"]) == 2:
                same = cost_pos is not None and S.operand(go[2]["args"][1]) == cost_pos
                ffa = E.fa(fcl[0])
                FS = Sym(E, ffa)
                r = FS.place({"l": 0, "p": []})
                fcaps = None
                for b0, i0, s0 in fa.stmts():
                    rv0 = s0.get("rv") or {}
                    if rv0.get("k") == "agg" and rv0.get("agg") == "closure" and rv0.get("closure") == fcl[0]:
                        fcaps = [S.operand(x) for x in rv0["ops"]]
                if r[0] == "binop" and r[1] == "Eq":
                    sides = [strip_casts(x) for x in (r[2], r[3])]
                    chk = [x for x in sides if x[0] == "ap" and x[1].root == ("arg", 2)]
                    key = []
                    for x in sides:
                        y = x
                        if y[0] == "call" and short(y[1]) == "get" and y[2]:
                            y = strip_casts(y[2][0])
                        if y[0] == "ap" and y[1].root == ("arg", 1) and y[1].proj and fcaps:
                            kk = int(str(y[1].proj[0])[1:]) if str(y[1].proj[0]).startswith("#") else None
                            if kk is not None and kk < len(fcaps) and strip_casts(fcaps[kk]) == ("ap", AP(("arg", 2))):
                                key.append(x)
                    guarded = bool(chk) and bool(key)
        ctx.ob("SCORERCHK", "A|retrieve_cost|cost-read-guarded-by-check==key1", guarded, mfa.loc(creads[0][0]),
               "costs[pos] is read only in the closure applied after `filter(check == key1)` held (a "
               "colliding slot of another first key is never returned)" if guarded else
               "costs[pos] can be read without checks[pos] == key1: colliding positions of the XOR "
               "double array return another feature pair's cost")
        okpos = cost_pos is not None and _pos_is_base_xor_key2(cost_pos)
        ctx.ob("SCORERCHK", "A|retrieve_cost|same-pos=base^key2", same and okpos, mfa.loc(creads[0][0]),
               "check and cost are read at the same position bases[key1] ^ key2" if same and okpos else
               "check and cost positions differ or pos is not bases[key1] ^ key2 (%s)"
               % (show(cost_pos) if cost_pos else "?"))
        return True
    return False


def portable(ctx):
    crate = ctx.facts("A").lib
    E = Effects(crate)
    p = SC + "Scorer::retrieve_cost"
    fa = E.fa(p)
    S = Sym(E, fa)
    # the read of costs
    reads = [(b, t) for b, t in fa.calls()
             if any(strip_generics(x).endswith("Index::index") or strip_generics(x).endswith("slice::get")
                    for x in callee_paths(t))
             and S.operand(t["args"][0]) == ("ap", AP(("arg", 1), ("costs",)))]
    if not reads and _retrieve_combinator(ctx, crate, E, fa, S, p):
        reads = None
    elif len(reads) != 1:
        raise EngineError("SCORERCHK: expected one read of costs in retrieve_cost")
    if reads is None:
        rb = rt = None
    else:
        rb, rt = reads[0]
    if rt is not None:
        guard = None
        for b in sorted(fa.live_blocks()):
            t = fa.term(b)
            if t["k"] != "switch":
                continue
            e = S.operand(t["op"])
            if e[0] == "binop" and e[1] in ("Eq", "Ne"):
                sides = [strip_casts(x) for x in (e[2], e[3])]
                has_check = [x for x in sides if x[0] == "ap" and x[1].proj[:2] == ("checks", "[]")]
                has_key1 = [x for x in sides if (x[0] == "call" and short(x[1]) == "get" and x[2]
                                                and x[2][0] == ("ap", AP(("arg", 2))))
                            or x == ("ap", AP(("arg", 2))) or x == ("ap", AP(("arg", 2), ("0",)))]
                if has_check and has_key1:
                    f_t, t_t = bool_switch_targets(t)
                    eq_t = t_t if e[1] == "Eq" else f_t
                    guard = (b, eq_t)
        ok = False
        if guard:
            gb, eq_t = guard
            fa2 = FnA(fa.fn, removed={(gb, eq_t)})
            ok = rb not in fa2.reachable(0)
        ctx.ob("SCORERCHK", "A|retrieve_cost|cost-read-guarded-by-check==key1", ok, fa.loc(rb),
               "costs[pos] is read only on the branch where checks[pos] == key1 (a colliding slot of "
               "another first key is never returned)" if ok else
               "costs[pos] can be read without checks[pos] == key1: colliding positions of the XOR "
               "double array return another feature pair's cost")
        # same position for check and cost, pos = base ^ key2
        idx_cost = S.operand(rt["args"][1])
        chk_reads = [(b, t) for b, t in fa.calls()
                     if S.operand(t["args"][0]) == ("ap", AP(("arg", 1), ("checks",)))
                     and len(t["args"]) > 1] if True else []
        same = any(S.operand(t["args"][1]) == idx_cost for b, t in chk_reads)
        pos = strip_casts(idx_cost)
        okpos = (pos[0] == "call" and short(pos[1]) == "bitxor" and len(pos[2]) == 2) or \
            (pos[0] == "binop" and pos[1] == "BitXor")
        if okpos:
            xa, xb = (pos[2][0], pos[2][1]) if pos[0] == "call" else (pos[2], pos[3])
            a0, a1 = strip_casts(xa), strip_casts(xb)
            okpos = (a0[0] == "ap" and a0[1].proj[:2] == ("bases", "[]")) and \
                (a1[0] == "call" and short(a1[1]) == "get" and a1[2][0] == ("ap", AP(("arg", 3)))
                 or a1 == ("ap", AP(("arg", 3), ("0",))))
        ctx.ob("SCORERCHK", "A|retrieve_cost|same-pos=base^key2", same and okpos, fa.loc(rb),
               "check and cost are read at the same position bases[key1] ^ key2" if same and okpos else
               "check and cost positions differ or pos is not bases[key1] ^ key2 (%s)" % show(idx_cost))
    # accumulate_cost sums retrieve_cost over zipped lanes
    p2 = SC + "Scorer::accumulate_cost"
    fa = E.fa(p2)
    S = Sym(E, fa)
    rc = calls_named(fa, "retrieve_cost")
    ok = len(rc) == 1
    if ok:
        a = [S.operand(x) for x in rc[0][1]["args"]]
        # key1 from keys1 (arg2) lanes, key2 from keys2 (arg3) lanes
        r1 = E.ap_operand(fa, rc[0][1]["args"][1])
        r2 = E.ap_operand(fa, rc[0][1]["args"][2])
        ok = r1 is not None and r2 is not None
    ctx.ob("SCORERCHK", "A|accumulate_cost|one-lookup-per-lane", ok, fn_loc(crate, p2),
           "accumulate_cost performs one checked lookup per template position")


def defcall(fa, op, depth=0):
    """(block, term) of the call that defines an operand (through plain moves)."""
    pl = op_place(op)
    while pl is not None and depth < 12:
        depth += 1
        d = fa.single_def(pl["l"])
        if d is None:
            return None
        if d[2] == "call":
            return d[0], d[3]
        if d[2] == "assign" and d[3]["k"] == "use":
            pl = op_place(d[3]["op"])
        elif d[2] == "assign" and d[3]["k"] == "cast":
            pl = op_place(d[3]["op"])
        elif d[2] == "assign" and d[3]["k"] == "ref" and not [e for e in d[3]["place"]["p"] if e != "*"]:
            pl = d[3]["place"]
        else:
            return None
    return None


def root_local(fa, op):
    pl = op_place(op)
    for _ in range(12):
        if pl is None:
            return None
        d = fa.single_def(pl["l"])
        if d is None or d[2] != "assign" or d[3]["k"] != "use":
            return pl["l"]
        nxt = op_place(d[3]["op"])
        if nxt is None or nxt["p"]:
            return pl["l"]
        pl = nxt
    return pl["l"] if pl else None


def table_var(fa, op):
    """The variable (multi-definition or call-initialised local) a `&mut table` operand
    reborrows, through copies, references and deref_mut calls."""
    pl = op_place(op)
    for _ in range(16):
        if pl is None:
            return None
        if [e for e in pl["p"] if e != "*"]:
            return pl["l"]
        d = fa.single_def(pl["l"])
        if d is None:
            return pl["l"]
        if d[2] == "call":
            nm = (callee_of(d[3]) or {}).get("name")
            if nm in ("deref_mut", "deref", "as_mut_slice", "as_mut", "borrow_mut") and d[3]["args"]:
                pl = op_place(d[3]["args"][0])
                continue
            return pl["l"]
        rv = d[3]
        if rv["k"] == "use":
            pl = op_place(rv["op"])
        elif rv["k"] == "ref":
            pl = rv["place"]
        else:
            return pl["l"]
    return pl["l"] if pl else None


def cname(t):
    c = callee_of(t)
    return strip_generics((c.get("resolved") or c)["path"]).rsplit("::", 1)[-1] if c else "?"


def avx2(ctx):
    crate = ctx.facts("B").lib
    E = Effects(crate)
    p = SC + "Scorer::retrieve_cost"
    fa = E.fa(p)
    S = Sym(E, fa)
    why = []
    fin = defcall(fa, {"c": {"l": 0, "p": []}})
    ok = False
    if fin and "mask_i32gather" in cname(fin[1]):
        fb, ft = fin
        okptr = "costs" in show(S.operand(ft["args"][1]))
        pos_final = root_local(fa, ft["args"][2])
        m = defcall(fa, ft["args"][3])
        okmask = okcheckpos = okvalid = okkey = False
        if m and "and_si256" in cname(m[1]):
            for i in (0, 1):
                c = defcall(fa, m[1]["args"][i])
                if c and "cmpeq_epi32" in cname(c[1]):
                    okmask = True
                    for j in (0, 1):
                        if root_local(fa, c[1]["args"][j]) == 2:
                            okkey = True
                        g = defcall(fa, c[1]["args"][j])
                        if g and "mask_i32gather" in cname(g[1]) and \
                                "checks" in show(S.operand(g[1]["args"][1])):
                            okcheckpos = root_local(fa, g[1]["args"][2]) == pos_final
                            # the check gather itself is masked by the validity mask
                            vm = defcall(fa, g[1]["args"][3])
                            other = defcall(fa, m[1]["args"][1 - i])
                            okvalid = bool(vm) and bool(other) and vm[0] == other[0] and \
                                "and_si256" in cname(vm[1])
                            if okvalid:
                                # validity = (pos < checks_len) & (key1 < bases_len)
                                parts = [defcall(fa, a) for a in vm[1]["args"]]
                                okvalid = all(x and "cmpgt_epi32" in cname(x[1]) for x in parts) and \
                                    any("checks_len" in show(S.operand(x[1]["args"][0])) and
                                        root_local(fa, x[1]["args"][1]) == pos_final for x in parts) and \
                                    any("bases_len" in show(S.operand(x[1]["args"][0])) and
                                        root_local(fa, x[1]["args"][1]) == 2 for x in parts)
        px = defcall(fa, {"c": {"l": pos_final, "p": []}}) if pos_final is not None else None
        okxor = bool(px) and "xor_si256" in cname(px[1]) and \
            any(root_local(fa, a) == 3 for a in px[1]["args"])
        # base = bases[key1]: the other operand of the xor is a gather from `bases` indexed by
        # key1 (parameter 2) under the mask key1 < bases_len; lanes masked out of the final
        # gather contribute the constant 0; every gather uses the 4-byte scale of the tables
        okbase = okzero = False
        okscale = True
        if okxor:
            for a in px[1]["args"]:
                g = defcall(fa, a)
                if g and "mask_i32gather" in cname(g[1]) and "bases" in show(S.operand(g[1]["args"][1])):
                    vm = defcall(fa, g[1]["args"][3])
                    okbase = root_local(fa, g[1]["args"][2]) == 2 and bool(vm) and \
                        "cmpgt_epi32" in cname(vm[1]) and \
                        "bases_len" in show(S.operand(vm[1]["args"][0])) and \
                        root_local(fa, vm[1]["args"][1]) == 2
        z = defcall(fa, ft["args"][0])
        if z and "set1_epi32" in cname(z[1]):
            k0 = op_const(z[1]["args"][0])
            okzero = k0 is not None and k0.get("int") == 0
        for b0, t0 in fa.calls():
            if "mask_i32gather" in cname(t0):
                ga = (callee_of(t0) or {}).get("args") or []
                k4 = op_const(t0["args"][4]) if len(t0["args"]) > 4 else None
                sc = k4.get("int") if k4 else None
                if sc is None:
                    m4 = [re.match(r"const (\d+)", x) for x in ga]
                    m4 = [int(m.group(1)) for m in m4 if m]
                    sc = m4[0] if m4 else None
                okscale = okscale and sc == 4
        ok = okptr and okmask and okkey and okcheckpos and okvalid and okxor and okbase and okzero and okscale
        why = dict(ptr=okptr, cmpeq=okmask, key1=okkey, same_pos=okcheckpos, valid=okvalid, xor=okxor,
                   base_is_bases_at_key1=okbase, masked_lanes_are_zero=okzero, scale4=okscale)
    ctx.ob("SCORERCHK", "B|retrieve_cost|gather-masked-by-check==key1-and-valid-pos", ok,
           fn_loc(crate, p),
           "AVX2: the cost gather is masked by (gathered check == key1) AND (pos < checks.len() AND "
           "key1 < bases.len()), at the same pos = base ^ key2 as the check gather" if ok else
           "AVX2 retrieve_cost: the final gather is not masked by the check comparison and the "
           "position-validity mask (%s): unchecked or out-of-range lanes contribute costs" % why)


ITER_TRANSPARENT = {"next", "into_iter", "iter", "deref", "as_slice", "as_ref", "borrow", "clone", "copied",
                    "branch", "unwrap"}


def _walk_source(fa, op):
    """Follow an operand back towards the collection it was taken from.
    -> (kind, where, call names passed on the way, tuple components projected on the way)
    kind: 'arg' (where = parameter local) | 'zip' (where = block of the zip call) | 'other'."""
    pl = op_place(op)
    names, comps = [], []
    for _ in range(60):
        if pl is None:
            return "other", None, names, comps
        for e in reversed(pl["p"]):
            if e != "*" and "f" in e and e.get("o") == "(tuple)":
                comps.append(e["f"])
        l = pl["l"]
        d = fa.single_def(l)
        if d is None:
            if 1 <= l <= fa.arg_count:
                return "arg", l, names, comps
            return "other", l, names, comps
        if d[2] == "call":
            nm = (callee_of(d[3]) or {}).get("name")
            if nm == "zip":
                return "zip", d[0], names, comps
            names.append(nm)
            if not d[3]["args"]:
                return "other", l, names, comps
            pl = op_place(d[3]["args"][0])
            continue
        rv = d[3]
        if rv["k"] in ("use", "cast"):
            pl = op_place(rv["op"])
        elif rv["k"] in ("ref", "rawptr"):
            pl = rv["place"]
        else:
            return "other", l, names, comps
    return "other", None, names, comps


def _trace_param(fa, op, why):
    """Parameter a lane operand is taken from, through (nested) zips without any adaptor."""
    for _ in range(4):
        kind, where, names, comps = _walk_source(fa, op)
        extra = [n for n in names if n not in ITER_TRANSPARENT]
        if extra:
            why.append("iterator adaptor %s between the key slice and the loop" % "/".join(map(str, extra)))
            return None
        if kind == "arg":
            return where
        if kind != "zip" or len(comps) < 1:
            # an index-based or otherwise restructured loop: not a shape this rule can judge
            raise EngineError("ACCUM: the key lanes of accumulate_cost are not taken from a zip of the "
                              "key slices (loop shape not recognised, no verdict)")
        k = comps[-1]
        zt = fa.term(where)
        if k >= len(zt["args"]):
            return None
        op = zt["args"][k]
    return None


def _flatten_add(e, out):
    if e[0] == "binop" and e[1] == "Add":
        _flatten_add(e[2], out)
        _flatten_add(e[3], out)
    else:
        out.append(e)


def accum(ctx):
    """ACCUM (C07, both build configurations): accumulate_cost is the sum, over every template
    position, of the checked lookup of (left word's feature id at that position, right word's
    feature id at the same position). Structurally:
      * one retrieve_cost call, its key1 lanes taken from `keys1` and its key2 lanes from
        `keys2`, zipped position by position with no adaptor (skip/rev/take/step_by) on either;
      * the accumulator starts at zero and is only ever `accumulator + lookup result`;
      * AVX2: the returned value is the sum of the eight lanes 0..7 of the accumulator, each
        once (a lane left out drops every eighth template)."""
    for cfg in ("A", "B"):
        crate = ctx.facts(cfg).lib
        E = Effects(crate)
        p = SC + "Scorer::accumulate_cost"
        if p not in crate.fns or not crate.fns[p].body:
            raise EngineError("ACCUM: anchor lost: %s (%s)" % (p, cfg))
        fa = E.fa(p)
        S = Sym(E, fa, depth=60)
        names = crate.fns[p].j.get("param_names") or []
        rc = calls_named(fa, "retrieve_cost")
        why = []
        ok = len(rc) == 1 and len(rc[0][1]["args"]) == 3
        if ok:
            t = rc[0][1]
            a1 = _trace_param(fa, t["args"][1], why)
            a2 = _trace_param(fa, t["args"][2], why)
            ok = (a1, a2) == (2, 3)
            if not ok and not why:
                why.append("key1 lanes come from parameter %s and key2 lanes from parameter %s" % (
                    names[a1 - 1] if a1 and a1 - 1 < len(names) else a1,
                    names[a2 - 1] if a2 and a2 - 1 < len(names) else a2))
        else:
            why.append("%d retrieve_cost calls" % len(rc))
        ctx.ob("ACCUM", "%s|lanes-zipped-position-by-position" % cfg, ok, fn_loc(crate, p),
               "(%s) every template position contributes lookup(keys1[i], keys2[i]): plain zip of the "
               "two key slices" % cfg if ok else
               "(%s) accumulate_cost does not pair keys1[i] with keys2[i] over all positions: %s"
               % (cfg, "; ".join(why)))
        if not rc:
            continue
        rb, rt = rc[0]
        # the accumulator
        why = []
        if cfg == "A":
            ret = S.place({"l": 0, "p": []})
            ok = ret[0] == "phi"
            acc = ret[1] if ok else None
            if ok:
                for (b, i, kind, payload) in fa.defs().get(acc, []):
                    if kind == "call":
                        ok = False
                        why.append("accumulator assigned from a call")
                        continue
                    rv = payload
                    if rv["k"] == "use":
                        k = op_const(rv["op"])
                        if k is not None:
                            if k.get("int") != 0:
                                ok = False
                                why.append("accumulator starts at %s" % k.get("int"))
                            continue
                        e = strip_casts(S.operand(rv["op"]))
                        leaves = []
                        _flatten_add(e[1] if e[0] == "proj" else e, leaves)
                        lk = [x for x in leaves if x[0] == "call" and short(x[1]) == "retrieve_cost"
                              or (x[0] == "proj" and x[1][0] == "call" and short(x[1][1]) == "retrieve_cost")
                              or (x[0] == "ap" and x[1].root == ("call", rb))]
                        ph = [x for x in leaves if x[0] == "phi" and x[1] == acc]
                        if not (len(leaves) == 2 and len(lk) == 1 and len(ph) == 1):
                            ok = False
                            why.append("accumulator assigned %s" % show(e)[:80])
                    else:
                        ok = False
                        why.append("accumulator assigned by %s" % rv["k"])
            else:
                why.append("returned value is %s" % show(ret)[:80])
        else:
            ret = S.place({"l": 0, "p": []})
            leaves = []
            _flatten_add(ret, leaves)
            lanes = []
            accs = set()
            ok = True
            for x in leaves:
                if x[0] == "call" and short(x[1]) == "_mm256_extract_epi32" and x[2] and x[2][0][0] == "phi":
                    ct = fa.term(x[3])
                    ga = (callee_of(ct) or {}).get("args") or []
                    m = re.match(r"const (\d+)", ga[0]) if ga else None
                    lanes.append(int(m.group(1)) if m else None)
                    accs.add(x[2][0][1])
                else:
                    ok = False
                    why.append("returned sum contains %s" % show(x)[:60])
            if sorted(l for l in lanes if l is not None) != list(range(8)) or len(lanes) != 8:
                ok = False
                why.append("lanes summed: %s (expected 0..7 once each)" % lanes)
            if len(accs) != 1:
                ok = False
                why.append("lanes taken from %d different vectors" % len(accs))
            acc = next(iter(accs)) if len(accs) == 1 else None
            if acc is not None:
                for (b, i, kind, payload) in fa.defs().get(acc, []):
                    if kind == "assign" and payload["k"] == "use":
                        dc0 = defcall(fa, payload["op"])
                        if dc0 is not None:
                            kind, payload = "call", dc0[1]
                    if kind != "call":
                        ok = False
                        why.append("accumulator assigned by a non-call")
                        continue
                    nm = cname(payload)
                    if nm == "_mm256_set1_epi32":
                        k = op_const(payload["args"][0])
                        if k is None or k.get("int") != 0:
                            ok = False
                            why.append("accumulator does not start at zero")
                    elif nm == "_mm256_add_epi32":
                        rs = [root_local(fa, a) for a in payload["args"]]
                        dc = [defcall(fa, a) for a in payload["args"]]
                        if not (acc in rs and any(d and d[0] == rb for d in dc)):
                            ok = False
                            why.append("accumulator updated from something other than sums + lookup")
                    else:
                        ok = False
                        why.append("accumulator assigned by %s" % nm)
        ctx.ob("ACCUM", "%s|sum-starts-at-zero-adds-every-lookup" % cfg, ok, fn_loc(crate, p),
               "(%s) the result is 0 + the sum of all lookups%s" % (
                   cfg, " over the eight lanes 0..7" if cfg == "B" else "") if ok else
               "(%s) accumulate_cost does not return the plain sum of the lookups: %s" % (cfg, "; ".join(why)))


def padval(ctx):
    """Padding of feature-id rows uses the invalid feature id, never id 0 (the empty feature)."""
    for cfg in ("A", "B"):
        crate = ctx.facts(cfg).lib
        E = Effects(crate)
        p = SC + "U31x8::to_simd_vec"
        fa = E.fa(p)
        reps = [s for b, i, s in fa.stmts() if "rv" in s and s["rv"]["k"] == "repeat"]
        vals = []
        for s in reps:
            k = op_const(s["rv"]["op"])
            vals.append(k.get("int") if k else None)
        ok = len(vals) >= 1 and all(v == U31MAX for v in vals)
        ctx.ob("PADVAL", "%s|to_simd_vec|pads-with-invalid-id" % cfg, ok, fn_loc(crate, p),
               "an incomplete vector is padded with the invalid feature id (U31::MAX), which "
               "matches no feature pair" if ok else
               "to_simd_vec pads with %s: padding lanes then carry a real feature id (0 is the "
               "empty BOS/EOS feature) and add that pair's cost" % vals)
    crate = ctx.facts("A").lib
    E = Effects(crate)
    # rows of the raw connector and the dual connector's parts are pre-filled with the invalid id
    for p, what in (("vibrato::dictionary::connector::raw_connector::RawConnector::from_readers",
                     "feature rows of the raw connector"),):
        fa = E.fa(p)
        S = Sym(E, fa)
        fe = calls_named(fa, "from_elem")
        ok = len(fe) >= 2 and all(S.operand(t["args"][0]) == ("const", U31MAX) for b, t in fe)
        ctx.ob("PADVAL", "A|RawConnector::from_readers|rows-prefilled-invalid", ok, fn_loc(crate, p),
               "%s are pre-filled with the invalid feature id before the real ids are copied in"
               % what if ok else "%s are pre-filled with %s" % (
                   what, [show(S.operand(t["args"][0])) for b, t in fe]))
        fills = calls_named(fa, "fill")
        okf = len(fills) == 2 and all(strip_casts(S.operand(t["args"][1])) in
                                      (("call", "std::default::Default::default", [], b),)
                                      or "default" in show(S.operand(t["args"][1])) for b, t in fills)
        # the filled range is [..feat_template_size] (whole row 0), the width also used to chunk
        # the remaining rows
        widths = set()
        for b, t in calls_named(fa, "chunks_mut"):
            widths.add(root_local(fa, t["args"][1]))
        okr = bool(fills)
        filled = set()
        for b, t in fills:
            ic = defcall(fa, t["args"][0])
            rng = None
            if ic and "index_mut" in cname(ic[1]):
                filled.add(table_var(fa, ic[1]["args"][0]))
                d = fa.single_def(op_place(ic[1]["args"][1])["l"]) if op_place(ic[1]["args"][1]) else None
                if d and d[2] == "assign" and d[3]["k"] == "agg" and str(d[3].get("adt", "")).endswith("RangeTo"):
                    rng = root_local(fa, d[3]["ops"][0])
            if ic and "split_at" in cname(ic[1]) and len(ic[1]["args"]) == 2:
                # `let (row0, rest) = table.split_at_mut(width); row0.fill(..)`: the first half
                half = _tuple_member(fa, t["args"][0])
                if half == 0:
                    filled.add(table_var(fa, ic[1]["args"][0]))
                    rng = root_local(fa, ic[1]["args"][1])
            okr = okr and rng is not None and rng in widths
        ctx.ob("RESERVED0", "A|RawConnector::from_readers|row0-full-width", okr, fn_loc(crate, p),
               "the whole first row ([..feat_template_size], the width the other rows are chunked "
               "by) is filled with the empty feature" if okr else
               "row 0 is filled over a range that is not the row width: with more than one vector "
               "per row the BOS/EOS costs of the later template positions are lost")
        # the two fills address the two different tables, which end up in the two fields
        names = fa.fn.local_names()
        okd = len(filled) == 2 and None not in filled
        ctx.ob("RESERVED0", "A|RawConnector::from_readers|row0-both-tables", okd, fn_loc(crate, p),
               "row 0 is filled in both tables (%s)" % sorted(names.get(x, "_%s" % x) for x in filled)
               if okd else
               "the two row-0 fills address %s: one of the feature tables keeps the invalid id in "
               "its BOS/EOS row, so every cost line with an empty feature on that side is dropped"
               % sorted(names.get(x, "_%s" % x) for x in filled))
        ctx.ob("RESERVED0", "A|RawConnector::from_readers|row0-empty-feature", okf, fn_loc(crate, p),
               "row 0 (BOS/EOS) of both feature tables is filled with feature id 0, the empty "
               "feature" if okf else "row 0 of the feature tables is not filled with the empty "
               "feature id on both sides")
    # missing positions in the dual connector read as INVALID
    for fn in ("create_raw_connector", "create_matrix_connector::{closure#0}"):
        p = "vibrato::dictionary::connector::dual_connector::DualConnector::" + fn
        fa = E.fa(p)
        # the function and the closures written inside it (a gather spelled with map/extend)
        region = [p] + sorted(f.path for f in crate.fns.values() if f.path.startswith(p + "::{closure"))
        uo, vals = [], []
        for q in region:
            qa = E.fa(q)
            for b, t in calls_named(qa, "unwrap_or"):
                uo.append((b, t))
                vals.append(find_const_int(qa, t["args"][1]))
            # `match row.get(idx) { Some(&id) => id, None => INVALID }` handed to push: the value
            # has one definition per arm, and the constant one is what a missing position reads as
            for b, t in calls_named(qa, "push"):
                pl = op_place(t["args"][1]) if len(t["args"]) == 2 else None
                for _ in range(4):
                    d1 = qa.single_def(pl["l"]) if pl is not None and not pl["p"] else None
                    if d1 and d1[2] == "assign" and d1[3]["k"] == "use" and op_place(d1[3]["op"]) is not None:
                        pl = op_place(d1[3]["op"])
                    else:
                        break
                ds = qa.defs().get(pl["l"], []) if pl is not None and not pl["p"] else []
                if len(ds) < 2:
                    continue
                ks = [op_const(d[3]["op"]) for d in ds if d[2] == "assign" and d[3]["k"] == "use"]
                ks = [k for k in ks if k is not None]
                if ks and len(ks) < len(ds):
                    uo.append((b, t))
                    vals.extend(k.get("int") for k in ks)
        ok = len(uo) >= 1 and all(v == U31MAX for v in vals)
        ctx.ob("PADVAL", "A|DualConnector::%s|missing-feature-is-invalid" % fn, ok, fn_loc(crate, p),
               "a template position missing from a row reads as the invalid feature id" if ok else
               "a missing template position reads as %s instead of the invalid feature id (id 0 is "
               "the empty BOS/EOS feature and has costs of its own)" % vals)
        others = [t for q in region for b, t in E.fa(q).calls()
                  if any(strip_generics(x).endswith(("unwrap_or_default", "unwrap_or_else"))
                         for x in callee_paths(t))]
        ctx.ob("PADVAL", "A|DualConnector::%s|no-defaulted-feature" % fn, not others, fn_loc(crate, p),
               "no feature id is defaulted (unwrap_or_default would yield id 0)" if not others else
               "a feature id is defaulted with unwrap_or_default/unwrap_or_else: id 0 is the empty "
               "feature, not 'no feature'")


def _tuple_member(fa, op):
    """k when the operand is (a copy of) member k of a tuple-valued call result, else None"""
    pl = op_place(op)
    for _ in range(8):
        if pl is None:
            return None
        fields = [e for e in pl["p"] if e != "*"]
        if fields:
            e = fields[-1]
            return e.get("f") if isinstance(e, dict) and len(fields) == 1 else None
        d = fa.single_def(pl["l"])
        if d is None or d[2] != "assign":
            return None
        if d[3]["k"] == "use":
            pl = op_place(d[3]["op"])
        elif d[3]["k"] == "ref":
            pl = d[3]["place"]
        else:
            return None
    return None


def find_const_int(fa, op, depth=0):
    k = op_const(op)
    if k is not None:
        return k.get("int")
    pl = op_place(op)
    if pl is None or depth > 8:
        return None
    d = fa.single_def(pl["l"])
    if d is None or d[2] != "assign":
        return None
    rv = d[3]
    if rv["k"] in ("use", "cast"):
        return find_const_int(fa, rv["op"], depth + 1)
    if rv["k"] == "ref":
        return find_const_int(fa, {"c": {"l": rv["place"]["l"], "p": []}}, depth + 1)
    return None


def reserved0(ctx):
    crate = ctx.facts("A").lib
    E = Effects(crate)
    p = "vibrato::dictionary::connector::raw_connector::RawConnectorBuilder::from_readers"
    fa = E.fa(p)
    S = Sym(E, fa)
    ins = [(b, t) for b, t in calls_named(fa, "insert") if "HashMap" in callee_of(t)["path"]]
    pcs = calls_named(fa, "parse_cost")
    targets = set()
    for b, t in ins:
        key = S.operand(t["args"][1])
        val = S.operand(t["args"][2])
        is_empty_key = key[0] == "call" and short(key[1]) == "new" and not key[2]
        is_zero = "default" in show(val) or val == ("const", 0)
        if is_empty_key and is_zero and all(fa.dominates(b, pb) for pb, _ in pcs):
            bl = op_place(t["args"][0])
            targets.add(fa.fn.local_names().get(E.ap_place(fa, bl).root[1], str(E.ap_place(fa, bl))))
    ok = len(targets) == 2 and bool(pcs)
    ctx.ob("RESERVED0", "A|RawConnectorBuilder::from_readers|empty-feature-is-id-0", ok, fn_loc(crate, p),
           "both feature-id maps receive (\"\" -> 0) before any bigram.cost line is parsed" if ok else
           "the empty feature is not reserved as id 0 in both maps before parsing (%s)" % sorted(targets))
    # the dual connector: the reserved row of the matrix part is keyed by the empty feature
    # (id 0) at every matrix position, and the first row of both raw-part tables is id 0 too
    DP = "vibrato::dictionary::connector::dual_connector::DualConnector::"
    mcl = [q for q in crate.fns if q.startswith(DP + "create_matrix_connector::{closure") and crate.fns[q].body]
    nres = 0
    for q in mcl:
        cfa = E.fa(q)
        CS = Sym(E, cfa, depth=20)
        for b, t in calls_named(cfa, "insert"):
            if "HashMap" not in callee_of(t)["path"] or len(t["args"]) < 3:
                continue
            key = CS.operand(t["args"][1])
            val = CS.operand(t["args"][2])
            if not (key[0] == "call" and short(key[1]) == "from_elem" and val == ("const", 0)):
                continue
            nres += 1
            elem = key[2][0]
            okz = elem == ("const", 0) or (elem[0] == "call" and short(elem[1]) == "default" and not elem[2])
            ctx.ob("RESERVED0", "A|DualConnector::create_matrix_connector|row0-key-is-empty-feature", okz,
                   cfa.loc(b),
                   "the reserved BOS/EOS row of the matrix part is keyed by feature id 0 at every position"
                   if okz else
                   "the reserved row 0 of the dual connector's matrix part is keyed by %s instead of "
                   "the empty feature (id 0): connections with BOS/EOS lose the pre-summed costs of "
                   "the empty feature" % show(elem)[:40])
    ctx.floor("RESERVED0", "reserved matrix rows in the dual connector", nres, 1)
    q = DP + "create_raw_connector"
    cfa = E.fa(q)
    CS = Sym(E, cfa, depth=20)
    fe = calls_named(cfa, "from_elem")
    okr = len(fe) >= 2
    for b, t in fe:
        elem = CS.operand(t["args"][0])
        okr = okr and (elem == ("const", 0) or (elem[0] == "call" and short(elem[1]) == "default" and not elem[2]))
    ctx.ob("RESERVED0", "A|DualConnector::create_raw_connector|row0-is-empty-feature", okr, fn_loc(crate, q),
           "the BOS/EOS row of both raw-part tables is feature id 0 at every lane" if okr else
           "the first (BOS/EOS) row of a raw-part table of the dual connector is not filled with the "
           "empty feature id 0")
    # parse_features: unknown features map to INVALID
    p = "vibrato::dictionary::connector::raw_connector::RawConnectorBuilder::parse_features"
    # the lookup may sit in the function or in a closure of it (map/collect form); every
    # defaulted lookup there must default to the invalid id, and none may use the type's default
    vals, others = [], []
    cls = sorted(f.path for f in crate.closures_of(p))
    for q in [p] + cls:
        qa = E.fa(q)
        for b, t in calls_named(qa, "unwrap_or"):
            vals.append(find_const_int(qa, t["args"][1]))
        # `get(f).map_or(INVALID, |&id| id)`: the same default in combinator form - the mapping
        # closure (a closure of this one) must hand the stored id through untouched
        mo = [(b, t) for b, t in calls_named(qa, "map_or") if "Option" in callee_of(t)["path"]]
        for b, t in mo:
            vals.append(find_const_int(qa, t["args"][1]))
        if mo:
            for cp in sorted(set(c for c in cls if c != q) | set(c.path for c in crate.closures_of(q))):
                ca = E.fa(cp)
                pure = not list(ca.calls()) and not any(
                    s.get("k") == "assign" and s["rv"]["k"] in ("binop", "unop", "cast") for _, _, s in ca.stmts())
                if not pure:
                    vals.append(None)
        others += [t for b, t in qa.calls()
                   if any(strip_generics(x).endswith(("unwrap_or_default", "unwrap_or_else"))
                          for x in callee_paths(t))]
    ok = len(vals) >= 1 and all(v == U31MAX for v in vals) and not others
    ctx.ob("PADVAL", "A|parse_features|unlisted-feature-is-invalid", ok, fn_loc(crate, p),
           "a feature that has no cost line maps to the invalid id (contributes 0)" if ok else
           "features without cost lines map to %s" % vals)


def scorer_build(ctx):
    """check_base accepts a base only after every key of the row was probed."""
    crate = ctx.facts("A").lib
    E = Effects(crate)
    p = SC + "ScorerBuilder::check_base"
    in_place = not dict.__contains__(crate.fns, p)
    if not in_place:
        # check_base itself written as `keys().all(|k| ..)` / `!keys().any(|k| ..)`: no loop of its own
        fa0 = E.fa(p)
        has_loop = any(any(strip_generics(x).endswith("::next") for x in callee_paths(t)) for b, t in fa0.calls())
        has_fold = any({strip_generics(x).rsplit("::", 1)[-1] for x in callee_paths(t)} & {"any", "all"} for b, t in fa0.calls())
        in_place = not has_loop and has_fold
    if in_place:
        # the search written in place: `while second_map.keys().any(|key2| slot(base ^ key2) is
        # occupied) { base += 1 }` - `any` gives up only after every key (or at the first hit)
        pb = p if dict.__contains__(crate.fns, p) else SC + "ScorerBuilder::build"
        fb = E.fa(pb)
        SB = Sym(E, fb)
        hit = None
        for b, t in fb.calls():
            nm = {strip_generics(x).rsplit("::", 1)[-1] for x in callee_paths(t)}
            if not (nm & {"any", "all"}) or len(t["args"]) != 2:
                continue
            o = fb.origin(t["args"][0])
            keys_of_row = o[0] == "call" and (callee_of(o[2]) or {}).get("name") == "keys"
            cl = E.closure_of_operand(fb, t["args"][1])
            if not keys_of_row or cl is None:
                continue
            cfa = E.fa(cl[0])
            region = [cl[0]] + sorted(q for q in crate.fns if q.startswith(cl[0] + "::{closure"))
            probes = xors = sentinel = 0
            for q in region:
                qa = E.fa(q)
                for qb, qt in qa.calls():
                    if (callee_of(qt) or {}).get("name") == "get" and len(qt["args"]) == 2:
                        probes += 1
                for qb, qi, qs in qa.stmts():
                    rv = qs.get("rv") or {}
                    if rv.get("k") == "binop" and rv.get("op") == "BitXor":
                        xors += 1
                    if rv.get("k") == "binop" and rv.get("op") in ("Ne", "Eq"):
                        ks = [find_const_int(qa, rv["a"]), find_const_int(qa, rv["b"])]
                        if 0xFFFFFFFF in ks or 4294967295 in ks:
                            sentinel += 1
            hit = (b, "any" in nm, probes, xors, sentinel)
        ok = hit is not None and hit[2] >= 1 and hit[3] >= 1 and hit[4] >= 1
        # the result of `any` must be the loop condition: the base moves on while some slot is taken
        ctx.ob("SCORERBUILD", "A|check_base|accepts-only-after-all-keys", bool(ok), fn_loc(crate, pb),
               "a base is accepted only when no key of the row lands on an occupied slot: the search "
               "condition is an `any`/`all` over all second-level keys probing checks[base ^ key2] "
               "against the unused marker" if ok else
               "the base search of ScorerBuilder::build does not probe checks[base ^ key2] against the "
               "unused marker for every key of the row")
        if pb == p:
            fbu = E.fa(SC + "ScorerBuilder::build")
            ncb = len(calls_named(fbu, "check_base"))
            ctx.ob("SCORERBUILD", "A|build|searches-free-base", ncb == 1, fn_loc(crate, SC + "ScorerBuilder::build"),
                   "build() searches a collision-free base with check_base before placing a row")
            return
        ctx.ob("SCORERBUILD", "A|build|searches-free-base", hit is not None, fn_loc(crate, pb),
               "build() searches a collision-free base before placing a row")
        return
    fa = E.fa(p)
    nexts = [(b, t) for b, t in fa.calls()
             if any(strip_generics(x).endswith("::next") for x in callee_paths(t))]
    ok = len(nexts) == 1
    if ok:
        hb = nexts[0][0]
        sw = fa.term(hb).get("t")
        st = fa.term(sw)
        some_t = [tg for v, tg in zip(st["vals"], st["targets"]) if v == 1]
        true_blocks = set()
        for b, i, s2 in fa.stmts():
            if "lhs" in s2 and s2["lhs"]["l"] == 0 and not s2["lhs"]["p"] and s2["rv"]["k"] == "use":
                k = op_const(s2["rv"]["op"])
                if k is not None and k.get("int") == 1:
                    true_blocks.add(b)
        body = fa.reachable(some_t[0], avoid={hb}) if some_t else set()
        ok = bool(true_blocks) and not (true_blocks & body)
    ctx.ob("SCORERBUILD", "A|check_base|accepts-only-after-all-keys", ok, fn_loc(crate, p),
           "a base is accepted only when the loop over all second-level keys ran to the end "
           "(every position base ^ key2 was seen free or beyond the table)" if ok else
           "check_base can return true before all keys were probed: a later key may land on an "
           "occupied slot and ScorerBuilder::build overwrites another pair's check/cost")
    # build(): the base search loop calls check_base with the candidate base it then stores
    p = SC + "ScorerBuilder::build"
    fa = E.fa(p)
    cb = calls_named(fa, "check_base")
    ctx.ob("SCORERBUILD", "A|build|searches-free-base", len(cb) == 1, fn_loc(crate, p),
           "build() searches a collision-free base with check_base before placing a row")


def rowrange(ctx):
    """ROWRANGE (C06, C07): the raw connector stores one row of `feat_template_size` vectors per
    connection id in flat tables. Every slice taken from a U31x8 table in a RawConnector method
    must be row-granular: [k*w .. (k+1)*w] (or k*w.. followed by ..w, or chunks of w) with
    w = self.feat_template_size. A slice at offset `id` instead of `id*w` still compiles and
    still passes the 5-template tests (w = 1)."""
    crate = ctx.facts("A").lib
    E = Effects(crate)
    n = 0
    ords = {}

    def is_w(e):
        e = strip_casts(e)
        return e[0] == "ap" and e[1].proj[-1:] == ("feat_template_size",)

    def times_w(e):
        """k if e is k*w, else None (as printed text; 0*w is not expected)"""
        e = strip_casts(e)
        if e[0] == "binop" and e[1] == "Mul":
            if is_w(e[3]):
                return canon(e[2])
            if is_w(e[2]):
                return canon(e[3])
        return None

    def canon(e):
        import re
        return re.sub(r"@bb\d+", "", show(strip_casts(e)))

    def row_end(e, k):
        e = strip_casts(e)
        if e[0] == "binop" and e[1] == "Mul":
            for x, y in ((e[2], e[3]), (e[3], e[2])):
                x = strip_casts(x)
                if is_w(y) and x[0] == "binop" and x[1] == "Add":
                    for p, q in ((x[2], x[3]), (x[3], x[2])):
                        if strip_casts(q) == ("const", 1) and canon(p) == k:
                            return True
        if e[0] == "binop" and e[1] == "Add":
            for x, y in ((e[2], e[3]), (e[3], e[2])):
                if is_w(y) and times_w(x) == k:
                    return True
        return False

    for p, f in sorted(crate.fns.items()):
        if not f.body or "raw_connector::RawConnector" not in p or "from_readers" in p \
                or "{closure" in p:
            continue
        fa = E.fa(p)
        S = Sym(E, fa)
        for b, t in fa.calls():
            ps = [strip_generics(x) for x in callee_paths(t)]
            nm = {x.rsplit("::", 1)[-1] for x in ps}
            if not (nm & {"index", "index_mut", "get", "get_mut", "chunks", "chunks_exact",
                          "chunks_mut", "chunks_exact_mut", "split_at", "split_at_mut",
                          "get_unchecked", "get_unchecked_mut"}):
                continue
            pl = op_place(t["args"][0]) if t["args"] else None
            if pl is None or "U31x8" not in fa.fn.locals[pl["l"]]["ty"]:
                continue
            if len(t["args"]) < 2:
                continue
            n += 1
            idx = S.operand(t["args"][1])
            recv = S.operand(t["args"][0])
            ok, why = False, "unrecognised index %s" % show(idx)
            if nm & {"chunks", "chunks_exact", "chunks_mut", "chunks_exact_mut"}:
                ok = is_w(idx)
                why = "chunks of feat_template_size" if ok else "chunk size %s is not feat_template_size" % show(idx)
            elif idx[0] == "agg" and idx[1].endswith("Range::Range"):
                k = times_w(idx[2]["start"])
                if k is None:
                    why = "start %s is not <id> * feat_template_size" % show(idx[2]["start"])
                elif not row_end(idx[2]["end"], k):
                    why = "end %s is not (%s + 1) * feat_template_size" % (show(idx[2]["end"]), k)
                else:
                    ok, why = True, "row %s" % k
            elif idx[0] == "agg" and idx[1].endswith("RangeFrom::RangeFrom"):
                k = times_w(idx[2]["start"])
                ok = k is not None
                why = "rows from %s" % k if ok else "start %s is not <id> * feat_template_size" % show(idx[2]["start"])
            elif idx[0] == "agg" and idx[1].endswith("RangeTo::RangeTo"):
                ok = is_w(idx[2]["end"]) or times_w(idx[2]["end"]) is not None
                why = "first row(s)" if ok else "end %s is not a multiple of feat_template_size" % show(idx[2]["end"])
            elif idx[0] == "agg" and idx[1].endswith("RangeFull"):
                ok, why = True, "whole table"
            kk = (p, canon(recv))
            ords[kk] = ords.get(kk, 0) + 1
            ctx.ob("ROWRANGE", "%s|%s|%d" % (p, canon(recv)[:60], ords[kk] - 1), ok, fa.loc(b),
                "%s slices %s by whole rows (%s)" % (p.split("::")[-1], show(recv)[:40], why) if ok else
                "%s takes a slice of the feature-id table %s that is not aligned to rows of "
                "feat_template_size vectors (%s): with more than 8 templates the ids of "
                "neighbouring connection ids are mixed" % (p.split("::")[-1], show(recv)[:40], why))
    ctx.floor("ROWRANGE", "row slices of the raw connector's feature tables", n, 6)


def pruneset(ctx):
    """PRUNESET (C07, C16): DualConnector::create_raw_connector prunes the scorer's trie to the
    feature ids that the raw part can still ask for. The sets used in that pruning must contain
    every element of the returned tables - including the BOS/EOS row written by the initial
    fill (feature id 0). A set that misses id 0 wipes every cost line with an empty feature."""
    crate = ctx.facts("A").lib
    E = Effects(crate)
    p = "vibrato::dictionary::connector::dual_connector::DualConnector::create_raw_connector"
    f = crate.fns.get(p)
    if f is None or not f.body:
        raise EngineError("PRUNESET: anchor lost: %s" % p)
    fa = E.fa(p)
    S = Sym(E, fa)
    # the feature tables built here: a vector created with a fill value (`vec![v; n]`, or
    # `resize(n, v)` on a fresh vector) that then receives the copied ids by push
    fills = {}          # table variable -> text of the fill value
    for b, t in calls_named(fa, "from_elem"):
        if "U31" in (t.get("dest_ty") or fa.fn.locals[t["dest"]["l"]]["ty"]):
            fills[("call", b)] = show(S.operand(t["args"][0]))
    for b, t in calls_named(fa, "resize"):
        if len(t["args"]) >= 3:
            o = fa.origin(t["args"][0])
            key = ("call", o[1]) if o[0] == "call" else ("var", table_var(fa, t["args"][0]))
            fills[key] = show(S.operand(t["args"][2]))
    if len(fills) != 2:
        raise EngineError("PRUNESET: the two feature tables with their initial fill were not recognised "
                          "(found %d)" % len(fills))
    fillv = set(fills.values())
    # the sets: HashSets collected from a table, or grown by insert()
    k = 0
    nsets = 0
    for b, t in fa.calls():
        nm = short(strip_generics(sorted(callee_paths(t))[0])) if callee_paths(t) else ""
        dty = t.get("dest_ty") or fa.fn.locals[t["dest"]["l"]]["ty"]
        if "HashSet<" not in dty or "U31" not in dty:
            continue
        if nm == "collect":
            root = None
            c2 = t["args"][0] if t["args"] else None
            for _ in range(8):
                if c2 is None:
                    break
                oo = fa.origin(c2)
                if oo[0] != "call":
                    break
                if ("call", oo[1]) in fills:
                    root = oo[1]
                    break
                n2 = short(strip_generics(sorted(callee_paths(oo[2]))[0]))
                if n2 not in ("iter", "cloned", "copied", "deref", "into_iter", "as_slice"):
                    break
                c2 = oo[2]["args"][0] if oo[2]["args"] else None
            ok = root is not None
            why = "all elements of a table (initial BOS/EOS row included)" if ok else \
                "collected from something other than a feature table"
        elif nm in ("new", "default", "with_capacity"):
            ins = []
            for ib, it in calls_named(fa, "insert"):
                oo = fa.origin(it["args"][0])
                if (oo[0] == "call" and oo[1] == b) or table_var(fa, it["args"][0]) == t["dest"]["l"]:
                    ins.append(show(S.operand(it["args"][1])))
            ok = bool(fillv & set(ins))
            why = "built by insert() including the tables' fill value" if ok else \
                "built by insert() of the copied ids only (%s): the rows created by the initial " \
                "fill (%s, the BOS/EOS row) are missing" % (sorted(set(ins))[:2], sorted(fillv))
        else:
            continue
        nsets += 1
        ctx.ob("PRUNESET", "%s|set|%d" % (p, k), ok, fa.loc(b),
               "the pruning set holds %s" % why if ok else
               "a set used while pruning the scorer is %s: cost lines with an empty "
               "(BOS/EOS) feature are removed from the dual connector's raw part" % why)
        k += 1
    ctx.floor("PRUNESET", "used-feature sets in create_raw_connector", nsets, 2)


def saturate(ctx):
    """SATURATE (C07, C16): the matrix part of the dual connector stores pre-summed costs in 16
    bits. The narrowing must not change any sum that fits: the value cast to i16 is clamped to
    exactly [i16::MIN, i16::MAX] (a narrower clamp alters representable sums, a missing one
    wraps)."""
    from r_panic import const_eval, root_of
    crate = ctx.facts("A").lib
    E = Effects(crate)
    p = "vibrato::dictionary::connector::dual_connector::DualConnector::create_matrix_connector"
    region = [p] + sorted(q for q in crate.fns if q.startswith(p + "::{closure") and crate.fns[q].body)
    n = 0
    for q in region:
        fa = E.fa(q)
        for b, i, s0 in fa.stmts():
            rv = s0.get("rv")
            if not rv or rv["k"] != "cast" or rv.get("ck") != "IntToInt" or rv.get("ty") != "i16" or \
                    rv.get("from_ty") not in ("i32", "i64", "isize"):
                continue
            n += 1
            r = root_of(fa, rv["op"])
            ok, why = False, "the sum is cast to i16 without a clamp: sums outside 16 bits wrap"
            if r[0] == "call":
                cc = callee_of(r[2])
                nm = short(strip_generics((cc.get("resolved") or cc)["path"])) if cc else "?"
                if nm == "clamp" and len(r[2]["args"]) == 3:
                    mn, mx = const_eval(fa, r[2]["args"][1]), const_eval(fa, r[2]["args"][2])
                    if mn is None or mx is None:
                        raise EngineError("SATURATE: the clamp bounds in %s are not constants the rule can "
                                          "evaluate" % q)
                    ok = (mn, mx) == (-32768, 32767)
                    why = "the sum is clamped to [%s, %s] before the cast to i16: sums that fit in 16 " \
                          "bits are changed (the cost of such a pair differs from the raw connector's)" % (mn, mx)
                elif nm in ("try_from", "saturating_cast"):
                    why = "the narrowing goes through %s" % nm
            ctx.ob("SATURATE", "%s|i16-cast|%d" % (q.rsplit("::", 2)[-1] if "closure" in q else "create_matrix_connector", n),
                   ok, fa.loc(b, i),
                   "pre-summed costs are saturated to exactly the i16 range before they are stored"
                   if ok else why)
    ctx.floor("SATURATE", "narrowing casts to i16 in create_matrix_connector", n, 1)


def run(ctx):
    saturate(ctx)
    rawbuild(ctx)
    templatesize(ctx)
    pruneset(ctx)
    rowrange(ctx)
    scorer_build(ctx)
    portable(ctx)
    avx2(ctx)
    accum(ctx)
    padval(ctx)
    reserved0(ctx)
    ctx.assume("SCORERCHK decides that the collision check cannot be bypassed in either build; "
               "the equality of the sums and portable/AVX2 numeric agreement are not decided")


def templatesize(ctx):
    """TEMPLATESIZE (C07, C16): the number of templates RawConnectorBuilder::from_readers hands to
    RawConnectorBuilder::new is the length of the longest row of *either* id file. Every row that is
    pushed onto one of the two lists must be counted: a width that leaves rows out (pairing the two
    files row by row stops at the shorter file) drops the trailing templates of the uncounted
    rows in the dual connector, and overruns the row in the raw one."""
    from flow import back_slice
    crate = ctx.facts("A").lib
    E = Effects(crate)
    p = "vibrato::dictionary::connector::raw_connector::RawConnectorBuilder::from_readers"
    if p not in crate.fns or not crate.fns[p].body:
        raise EngineError("TEMPLATESIZE: anchor lost: %s" % p)
    fa = E.fa(p)
    sinks = [(b, t) for b, t in fa.calls() if cname(t) == "new" and
             any("RawConnectorBuilder" in x for x in callee_paths(t)) and len(t["args"]) >= 3]
    if len(sinks) != 1:
        raise EngineError("TEMPLATESIZE: expected one RawConnectorBuilder::new call in from_readers, found %d" % len(sinks))
    sb, st = sinks[0]
    V = [root_local(fa, a) for a in st["args"][:2]]
    if None in V or V[0] == V[1]:
        raise EngineError("TEMPLATESIZE: the two id lists passed to RawConnectorBuilder::new are not two locals")
    # every local a list argument is computed from (the list may be built in an expanded helper and
    # come back inside a tuple / Result)
    VS = [set(), set()]
    for k_ in (0, 1):
        back_slice(fa, st["args"][k_], lambda b, t: None, VS[k_])
    both = VS[0] & VS[1]
    VS = [VS[0] - both, VS[1] - both]
    calls = []

    def term(b, t):
        calls.append((b, t))
        return None
    back_slice(fa, st["args"][2], term)
    names = {cname(t) for b, t in calls}
    len_calls = [(b, t) for b, t in calls if cname(t) == "len" and t["args"]]
    max_calls = [(b, t) for b, t in calls if cname(t) == "max"]
    counted = {}
    for b, t in len_calls:
        x = table_var(fa, t["args"][0])
        feeds_max = any(any((fa.origin(a)[0] == "call" and fa.origin(a)[1] == b) for a in mt["args"]) for mb, mt in max_calls)
        counted[x] = counted.get(x, False) or feeds_max
    lists_in_slice = {table_var(fa, a) for b, t in calls for a in t["args"]} & (VS[0] | VS[1])
    pushes = [(b, t) for b, t in fa.calls() if cname(t) == "push" and len(t["args"]) == 2
              and table_var(fa, t["args"][0]) in (VS[0] | VS[1])]
    ctx.floor("TEMPLATESIZE", "rows pushed onto the two id lists", len(pushes), 2)
    for b, t in pushes:
        side = "right" if table_var(fa, t["args"][0]) in VS[0] else "left"
        x = table_var(fa, t["args"][1])
        key = "%s|%s-rows-counted" % (p, side)
        if x in counted:
            ok = counted[x]
            ctx.ob("TEMPLATESIZE", key, ok, fa.loc(b),
                   "the length of every bigram.%s row is folded into the template count by max" % side if ok else
                   "the length of a bigram.%s row reaches the template count, but not through max: "
                   "the count is not that of the longest row" % side)
        elif table_var(fa, t["args"][0]) in lists_in_slice:
            if "zip" in names:
                ctx.ob("TEMPLATESIZE", key, False, fa.loc(sb),
                       "the template count is computed over the two row lists paired by zip: rows of the "
                       "longer file that have no partner are not counted, their trailing templates are "
                       "dropped by the dual connector and overrun the row in the raw connector")
            elif "max" in names and not ({"min", "take", "skip", "step_by", "last", "first", "nth"} & names):
                ctx.ob("TEMPLATESIZE", key, True, fa.loc(sb),
                       "the template count is a max over the complete bigram.%s list" % side)
            else:
                raise EngineError("TEMPLATESIZE: the template count is derived from the %s list by %s: not recognised"
                                  % (side, sorted(names)))
        else:
            ctx.ob("TEMPLATESIZE", key, False, fa.loc(b),
                   "the rows of bigram.%s are not counted when the number of templates is determined: a "
                   "row longer than every counted row loses its trailing templates" % side)


def rawbuild(ctx):
    """RAWBUILD (C07, C16, C10): shapes of the two raw-connector constructors.
      ROWUNIT   the flat id tables are chunked by a width w (in ids); RawConnector::new receives
                w / 8, the same width in U31x8 vectors - the unit the row accessors multiply by;
      TABLESRC  the rows copied into the table that becomes argument k of RawConnector::new come
                from the builder field of the same side (right rows from right_feat_ids_tmp ...);
      FTSMAX    the row width is the maximum row length over *both* files: each of the two
                parse_features loops folds its rows' lengths into it (a longer row in the other
                file would not fit its chunk)."""
    crate = ctx.facts("A").lib
    E = Effects(crate)
    p = "vibrato::dictionary::connector::raw_connector::RawConnector::from_readers"
    fa = E.fa(p)
    S = Sym(E, fa)
    loc = fn_loc(crate, p)
    news = [(b, t) for b, t in fa.calls() if any(strip_generics(x).endswith("RawConnector::new") for x in callee_paths(t))]
    if len(news) != 1:
        raise EngineError("RAWBUILD: RawConnector::new call not found in RawConnector::from_readers")
    nb, nt = news[0]
    widths = {root_local(fa, t["args"][1]) for b, t in calls_named(fa, "chunks_mut")}
    w_e = S.operand(nt["args"][2])
    e = strip_casts(w_e)
    ok = e[0] == "binop" and e[1] == "Div" and strip_casts(e[3]) == ("const", 8)
    if ok:
        # the dividend is the chunk width
        dl = None
        o = fa.origin(nt["args"][2])
        if o[0] == "rv" and o[1]["k"] == "binop":
            dl = root_local(fa, o[1]["a"])
        ok = dl in widths and len(widths) == 1
    ctx.ob("ROWUNIT", "RawConnector::from_readers|width-in-vectors", ok, fa.loc(nb),
           "RawConnector::new receives (chunk width in ids) / 8, the row width in U31x8 vectors" if ok else
           "RawConnector::new receives %s as the row width, but the flat tables are chunked by the "
           "width in ids and packed 8 ids per vector: the accessors multiply an id by the wrong "
           "stride" % show(w_e)[:60])
    # TABLESRC
    def table_root(op):
        cur = op
        for _ in range(8):
            oo = fa.origin(cur)
            if oo[0] == "place" and oo[1].root[0] == "call" and len(oo[1].proj) == 1:
                # one half of `table.split_at_mut(w)`
                ct = fa.term(oo[1].root[1])
                if short(strip_generics(sorted(callee_paths(ct))[0])) in ("split_at_mut", "split_at") and ct["args"]:
                    cur = ct["args"][0]
                    continue
                return None
            if oo[0] != "call":
                return None
            nm = short(strip_generics(sorted(callee_paths(oo[2]))[0]))
            if nm in ("from_elem", "new", "with_capacity"):
                return oo[1]
            if nm not in ("deref", "deref_mut", "index", "index_mut", "chunks_mut", "chunks_exact_mut",
                          "as_slice", "as_mut_slice", "to_simd_vec", "iter_mut", "into_iter"):
                return None
            if not oo[2]["args"]:
                return None
            cur = oo[2]["args"][0]
        return None
    for k, side in ((0, "right"), (1, "left")):
        tab = table_root(nt["args"][k])
        srcs = set()
        for b, t in calls_named(fa, "copy_from_slice"):
            d = show(S.operand(t["args"][0]))
            s_ = show(S.operand(t["args"][1]))
            # dst is an element of zip(chunks_mut(table..), &X_tmp)
            zo = None
            for zb, zt in calls_named(fa, "zip"):
                if ("call@bb%d" % zb) in d:
                    zo = zt
            if zo is None:
                continue
            root = table_root(zo["args"][0])
            if root is not None and root == tab:
                srcs.add(show(S.operand(zo["args"][1])))
        ok = bool(srcs) and all(x.endswith("%s_feat_ids_tmp" % side) for x in srcs)
        ctx.ob("TABLESRC", "RawConnector::from_readers|%s-table" % side, ok, loc,
               "the %s table is filled from %s_feat_ids_tmp" % (side, side) if ok else
               "the table handed to RawConnector::new as the %s table is filled from %s: both sides "
               "of every connection look up the same side's features"
               % (side, sorted(x.rsplit(".", 1)[-1] for x in srcs) or "an unrecognised source"))
    # FTSMAX in the builder
    bp = "vibrato::dictionary::connector::raw_connector::RawConnectorBuilder::from_readers"
    ba = E.fa(bp)
    BS = Sym(E, ba)
    maxes = [(b, t) for b, t in calls_named(ba, "max")]
    files = set()
    pushes = [(b, t) for b, t in calls_named(ba, "push") if len(t["args"]) >= 2]

    def tags_of(op, depth=0):
        """file tags of the rows whose length an operand may carry: directly
        (len(parse_features(.., tag))) or through a container the rows were pushed into."""
        out = set()
        txt = show(BS.operand(op))
        for nm in ("bigram.right", "bigram.left"):
            if nm in txt:
                out.add(nm)
        if depth > 6:
            return out
        pl = op_place(op)
        for _ in range(20):
            if pl is None:
                break
            d = ba.single_def(pl["l"])
            if d is None:
                # a container: what was pushed into it
                for pb, pt in pushes:
                    if table_var(ba, pt["args"][0]) == pl["l"]:
                        out |= tags_of(pt["args"][1], depth + 1)
                break
            if d[2] == "call":
                nm = (callee_of(d[3]) or {}).get("name")
                if nm in ("chain", "zip") and len(d[3]["args"]) > 1:
                    out |= tags_of(d[3]["args"][1], depth + 1)
                if nm in ("new", "with_capacity", "from_elem"):
                    for pb, pt in pushes:
                        if table_var(ba, pt["args"][0]) == pl["l"]:
                            out |= tags_of(pt["args"][1], depth + 1)
                    break
                if not d[3]["args"]:
                    break
                pl = op_place(d[3]["args"][0])
                continue
            rv = d[3]
            if rv["k"] in ("use", "cast"):
                pl = op_place(rv["op"])
            elif rv["k"] in ("ref", "rawptr"):
                pl = rv["place"]
            else:
                break
        return out

    for b, t in maxes:
        for a in t["args"]:
            files |= tags_of(a)
    ok = files == {"bigram.right", "bigram.left"}
    ctx.ob("FTSMAX", "RawConnectorBuilder::from_readers|width-is-max-over-both-files", ok, fn_loc(crate, bp),
           "the row width is the maximum row length over bigram.right and bigram.left" if ok else
           "the row width only folds in the rows of %s: a longer row in the other file does not fit "
           "its chunk (slice out of range while the dictionary is built)" % (sorted(files) or "neither file"))

"""SHARE: the tokenizer is deeply immutable and shareable (C04).

 * type walk (driver): the transitive field-type closure of `Tokenizer` has no interior
   mutability (UnsafeCell/Cell/RefCell/atomics/locks), no raw pointer, no `&mut`, no fn pointer
   or trait object (which could hide either);
 * the library has no `static mut`, no static with interior mutability, no thread-local;
 * no function of the library writes through a raw pointer;
 * witness crate (type checker): Tokenizer/Dictionary are Send+Sync, Worker is Send, and the
   ownership witnesses (compile_fail + compiling twin) show that nothing a worker reads can be
   changed while the worker exists.
"""
import os
import re
import shutil
import subprocess

import facts
from facts import EngineError, VERIF, CACHE
from mir import callee_paths, op_place

TOKENIZER = "vibrato::tokenizer::Tokenizer"
BAD_FLAGS = {"UnsafeCell", "Cell", "Atomic", "Lock", "RawPtr", "MutRef", "FnPtr", "Dyn", "Param"}
RAW_WRITE_CALLEES = ("core::ptr::write", "std::ptr::write", "core::ptr::mut_ptr", "copy_nonoverlapping",
                     "core::intrinsics::write_bytes", "core::ptr::swap", "core::ptr::replace",
                     "std::ptr::copy", "core::ptr::copy")


STD_MACROS = {"Bang:vec", "Bang:format", "Bang:write", "Bang:writeln", "Bang:println",
              "Bang:eprintln", "Bang:format_args", "Bang:panic", "Bang:assert", "Bang:assert_eq",
              "Bang:assert_ne", "Bang:debug_assert", "Bang:debug_assert_eq", "Bang:debug_assert_ne",
              "Bang:unreachable", "Bang:matches"}


def walk_rule(ctx, cfg):
    F = ctx.facts(cfg)
    lib = F.lib
    w = lib.walks.get(TOKENIZER)
    if w is None:
        raise EngineError("anchor lost: no type walk for %s" % TOKENIZER)
    n = 0
    for e in w["reached"]:
        n += 1
        bad = [f for f in e["flags"] if f in BAD_FLAGS]
        ctx.ob("SHARE-WALK", "%s|%s|%s" % (cfg, TOKENIZER, e["ty"]), not bad,
               "type closure of Tokenizer via %s" % e["via"],
               "type `%s` reachable from Tokenizer %s"
               % (e["ty"], ("carries " + ",".join(bad) + " (shared mutable state or unchecked "
                                                         "aliasing inside the shared tokenizer)")
                  if bad else "has no interior mutability / raw pointer"),
               {"via": e["via"], "flags": e["flags"]})
    ctx.floor("SHARE-WALK", "types reached from Tokenizer (cfg %s)" % cfg, n, 45)
    ctx.count("SHARE", "types walked cfg " + cfg, n)


def statics_rule(ctx):
    lib = ctx.facts("A").lib
    for s in lib.statics:
        bad = s["mutable"] or not s["freeze"] or s["thread_local"]
        ctx.ob("SHARE-STATIC", "static|%s" % s["path"], not bad,
               "%s:%s" % (s["sp"]["file"], s["sp"]["line"]),
               "static `%s` is %s" % (s["path"], "mutable / interior-mutable / thread-local: "
                                      "state shared between workers outside the tokenizer"
                                      if bad else "immutable"))
    ctx.ob("SHARE-STATIC", "lib|no-mutable-statics",
           not any(s["mutable"] or not s["freeze"] or s["thread_local"] for s in lib.statics),
           "vibrato (library crate)", "the library has %d statics, none mutable" % len(lib.statics))


def rawwrite_rule(ctx, cfg):
    lib = ctx.facts(cfg).lib
    nfn = 0
    for p, f in sorted(lib.fns.items()):
        if not f.body or f.krate != "vibrato":
            continue
        nfn += 1
        for b, bb in enumerate(f.blocks):
            for s in bb["stmts"]:
                if "lhs" not in s:
                    continue
                lhs = s["lhs"]
                if s["sp"].get("exp") and s["sp"].get("macro") in STD_MACROS:
                    continue   # lowering of std macros (vec![x] writes into a fresh box)
                if lhs["p"] and lhs["p"][0] == "*":
                    ty = f.locals[lhs["l"]]["ty"]
                    if ty.startswith("*mut") or ty.startswith("*const"):
                        ctx.ob("SHARE-RAWWRITE", "%s|%s|store-through-raw-pointer" % (cfg, p),
                               False, "%s:%s" % (s["sp"]["file"], s["sp"]["line"]),
                               "store through raw pointer `%s` in %s" % (ty, p))
            t = bb["term"]
            if t["k"] == "call":
                for cp in callee_paths(t):
                    if any(x in cp for x in RAW_WRITE_CALLEES) and "as_ptr" not in cp:
                        if ".write" in cp or "::write" in cp or "copy" in cp or "swap" in cp \
                                or "replace" in cp:
                            ctx.ob("SHARE-RAWWRITE", "%s|%s|%s" % (cfg, p, cp), False,
                                   "%s:%s" % (t["sp"]["file"], t["sp"]["line"]),
                                   "raw-pointer write primitive %s called in %s" % (cp, p))
    ctx.ob("SHARE-RAWWRITE", "%s|lib|no-raw-pointer-writes" % cfg,
           not any((not o.ok) and o.rule == "SHARE-RAWWRITE" for o in ctx.obs),
           "vibrato (library crate)", "%d function bodies scanned for stores through raw "
           "pointers (cfg %s)" % (nfn, cfg))
    ctx.floor("SHARE-RAWWRITE", "function bodies scanned", nfn, 300)


def witness_rule(ctx, cfgs=("A",)):
    src = os.path.join(VERIF, "witness")
    repo = facts.REPO
    key = facts.tree_hash(repo)
    wdir = os.path.join(CACHE, "witness-work")
    if os.path.isdir(wdir):
        shutil.rmtree(wdir)
    os.makedirs(os.path.join(wdir, "src"))
    with open(os.path.join(src, "Cargo.toml")) as fh:
        toml = fh.read().replace('path = "/repo/vibrato"', 'path = "%s/vibrato"' % repo)
    with open(os.path.join(wdir, "Cargo.toml"), "w") as fh:
        fh.write(toml)
    shutil.copy(os.path.join(src, "rust-toolchain.toml"), wdir)
    shutil.copy(os.path.join(src, "src", "lib.rs"), os.path.join(wdir, "src", "lib.rs"))
    shutil.copy(os.path.join(repo, "Cargo.lock"), os.path.join(wdir, "Cargo.lock"))
    for cfg in cfgs:
        env = dict(os.environ, CARGO_NET_OFFLINE="true",
                   CARGO_TARGET_DIR=os.path.join(CACHE, "target-witness-" + cfg))
        env.pop("RUSTC_WORKSPACE_WRAPPER", None)
        flags = "-Awarnings" + (" -C target-feature=+avx2" if cfg == "B" else "")
        env["RUSTFLAGS"] = flags
        env["RUSTDOCFLAGS"] = flags
        r = subprocess.run(["cargo", "+nightly", "test", "--offline", "--doc"], cwd=wdir, env=env,
                           stdout=subprocess.PIPE, stderr=subprocess.STDOUT, text=True)
        out = r.stdout
        tests = re.findall(r"^test src/lib\.rs - (\w+) \(line (\d+)\) - (compile fail|compile) \.\.\. (\w+)",
                           out, re.M)
        built = "Doc-tests vwitness" in out
        ctx.ob("SHARE-WITNESS", "%s|send-sync|Tokenizer,Dictionary,Worker" % cfg, built,
               "witness/src/lib.rs:share_obligations",
               "Tokenizer: Send+Sync, Dictionary: Send+Sync, Worker<'static>: Send type-check "
               "(cfg %s)%s" % (cfg, "" if built else " - the witness library does not compile: "
                               + out[-1500:]))
        if not built:
            continue
        nfail = ntwin = 0
        for name, line, kind, res in tests:
            ok = res == "ok"
            if kind == "compile fail":
                nfail += 1
                ctx.ob("SHARE-WITNESS", "%s|compile_fail|%s" % (cfg, name), ok,
                       "witness/src/lib.rs:%s" % line,
                       "ownership witness %s: the offending program is rejected with the expected "
                       "error code" % name if ok else
                       "ownership witness %s: the offending program is no longer rejected by the "
                       "type checker (or fails for another reason)" % name)
            else:
                ntwin += 1
                ctx.ob("SHARE-WITNESS", "%s|twin|%s" % (cfg, name), ok,
                       "witness/src/lib.rs:%s" % line,
                       "compiling twin of %s still compiles" % name if ok else
                       "compiling twin of witness %s no longer compiles: the public API the "
                       "witness relies on changed (engine problem, not a verdict)" % name)
                if not ok:
                    raise EngineError("witness twin %s does not compile:\n%s" % (name, out[-2000:]))
        ctx.floor("SHARE-WITNESS", "compile_fail witnesses (cfg %s)" % cfg, nfail, 6)
        ctx.floor("SHARE-WITNESS", "compiling twins (cfg %s)" % cfg, ntwin, 5)
    ctx.assume("rustc's type and borrow checker (auto traits Send/Sync, move and borrow rules)")


def run(ctx):
    walk_rule(ctx, "A")
    walk_rule(ctx, "B")
    statics_rule(ctx)
    rawwrite_rule(ctx, "A")
    rawwrite_rule(ctx, "B")
    witness_rule(ctx, ("A",))


def run_thorough(ctx):
    witness_rule(ctx, ("B",))

"""FMT: writers and readers of the text formats agree (C14, C16, C19, C20, C13, C11)."""
from effects import Effects
from facts import EngineError
from flow import calls_named, bool_switch_targets
import fmt
from mir import AP, FnA, callee_of, callee_paths, op_place, op_const, strip_generics
from r_kind import op_kind_fn, KindSpec, SIDE
from r_viterbi import base_local
from sym import Sym, show, short, strip_casts

M = "vibrato::trainer::model::Model::"
RCB = "vibrato::dictionary::connector::raw_connector::RawConnectorBuilder::"
MC = "vibrato::dictionary::connector::matrix_connector::MatrixConnector::"


def fn_loc(crate, p):
    f = crate.fns[p]
    return "%s:%s" % (f.file, f.line)


# ---- reader side helpers ------------------------------------------------------------------

def splits(fa, S):
    """[(block, delimiter const, term)] for str::split / splitn calls."""
    out = []
    for b, t in fa.calls():
        ps = [strip_generics(x) for x in callee_paths(t)]
        if any(x.endswith("str::split") or x.endswith("str::splitn") or x.endswith("str::split_terminator")
               for x in ps):
            k = fmt.const_of(fa, t["args"][-1])
            d = None
            if k is not None:
                d = k.get("char") or k.get("str")
            out.append((b, d, t))
    return out


def next_calls_of(fa, split_block):
    """next() calls consuming the iterator created at split_block, in dominance order."""
    out = []
    for b, t in fa.calls():
        if not any(strip_generics(x).endswith("::next") for x in callee_paths(t)):
            continue
        pl = op_place(t["args"][0])
        cur = pl["l"] if pl else None
        for _ in range(10):
            if cur is None:
                break
            d = fa.single_def(cur)
            if d is None:
                break
            if d[2] == "call":
                if d[0] == split_block:
                    out.append((b, t))
                break
            rv = d[3]
            p0 = op_place(rv["op"]) if rv["k"] == "use" else rv["place"] if rv["k"] == "ref" else None
            cur = p0["l"] if p0 and not any(e != "*" for e in p0["p"]) else None
    dom = fa.dominators()
    out.sort(key=lambda x: len(dom[x[0]]))
    return out


def derives_from_call(fa, op, block, depth=0, seen=None):
    """Does the operand's value derive from the result of the call at `block`?"""
    if seen is None:
        seen = set()
    pl = op_place(op)
    if pl is None or depth > 25:
        return False
    if any(e != "*" and ("f" in e or "ci" in e) for e in pl["p"]):
        from mir import through_aggregates
        o2 = through_aggregates(fa, pl)
        p2 = op_place(o2)
        if p2 is not None and (p2["l"] != pl["l"] or p2["p"] != pl["p"]):
            return derives_from_call(fa, o2, block, depth + 1, seen)
    l = pl["l"]
    key = (l, str([e for e in pl["p"] if e != "*"]))
    if key in seen:
        return False
    seen.add(key)
    for (b, i, kind, payload) in fa.defs().get(l, []):
        if kind == "call":
            if b == block:
                return True
            for a in payload["args"]:
                if derives_from_call(fa, a, block, depth + 1, seen):
                    return True
        elif kind == "assign":
            rv = payload
            for k in ("op", "a", "b"):
                if k in rv and isinstance(rv[k], dict) and derives_from_call(fa, rv[k], block, depth + 1, seen):
                    return True
            if rv["k"] in ("ref", "discr") and derives_from_call(fa, {"c": rv["place"]}, block, depth + 1, seen):
                return True
            if rv["k"] == "agg":
                for o in rv["ops"]:
                    if derives_from_call(fa, o, block, depth + 1, seen):
                        return True
    return False


def const_index_source(fa, S, op, depth=0, seen=None):
    """If the operand derives from `cols[k]` (Index with a constant k on a collected split),
    return k."""
    if seen is None:
        seen = set()
    pl = op_place(op)
    if pl is None or depth > 25:
        return None
    l = pl["l"]
    if l in seen:
        return None
    seen.add(l)
    for (b, i, kind, payload) in fa.defs().get(l, []):
        if kind == "call":
            ps = [strip_generics(x) for x in callee_paths(payload)]
            if any(x.endswith("Index::index") for x in ps) and len(payload["args"]) == 2:
                k = fmt.const_of(fa, payload["args"][1])
                if k is not None and "int" in k:
                    return k["int"]
            for a in payload["args"][:1]:
                r = const_index_source(fa, S, a, depth + 1, seen)
                if r is not None:
                    return r
        elif kind == "assign":
            rv = payload
            if rv["k"] in ("use", "cast"):
                # a slice pattern `let &[a, b] = cols.as_slice()` binds element k directly
                spl = op_place(rv["op"])
                ci = [e for e in (spl["p"] if spl else []) if isinstance(e, dict) and "ci" in e]
                if len(ci) == 1 and not ci[0].get("from_end"):
                    return ci[0]["ci"]
                r = const_index_source(fa, S, rv["op"], depth + 1, seen)
                if r is not None:
                    return r
            if rv["k"] == "ref":
                r = const_index_source(fa, S, {"c": rv["place"]}, depth + 1, seen)
                if r is not None:
                    return r
    return None


# ---- writer side helpers ------------------------------------------------------------------

def rows_for(E, fa, S, wparam):
    """Text calls of a function whose writer derives from MIR argument `wparam`. If the function
    does not write to that writer through write_fmt / write_all at all (the text is assembled
    some other way), the row templates cannot be decoded: undecided (engine error), never a
    verdict on rows that were not seen."""
    out = [tc for tc in fmt.text_calls(E, fa)
           if tc["writer"] is not None and fmt.writer_root(E, fa, tc["writer"]) == wparam]
    if not out:
        raise EngineError("FMT: %s emits nothing to writer parameter %s through write_fmt/"
                          "write_all; its row templates cannot be decoded" % (fa.fn.path, wparam))
    return out


def logical_rows(E, fa, S, wparam):
    """Merge consecutive text calls on one writer into logical rows: a row ends with the call whose
    last literal ends in a newline; it consists of that call plus every earlier call on the same
    writer that dominates it and is not separated from it by another dominating row end.
    Returns [{'b': block of the terminating call, 'pieces': [...]}]."""
    calls = rows_for(E, fa, S, wparam)
    dom = fa.dominators()

    def ends_row(tc):
        l = [p for p in tc["pieces"] if p[0] == "lit"]
        return bool(tc["pieces"]) and tc["pieces"][-1][0] == "lit" and tc["pieces"][-1][1].endswith("\n")

    enders = [tc for tc in calls if ends_row(tc)]
    rows = []
    for w in enders:
        members = []
        for c in calls:
            if c is w or not fa.dominates(c["b"], w["b"]) or c["b"] == w["b"]:
                continue
            if ends_row(c):
                continue
            # separated by another row end that lies between c and w?
            sep = any(t is not w and fa.dominates(c["b"], t["b"]) and fa.dominates(t["b"], w["b"])
                      and t["b"] != w["b"] for t in enders)
            if not sep:
                members.append(c)
        members.sort(key=lambda x: len(dom[x["b"]]))
        pieces = []
        for m in members + [w]:
            for p in m["pieces"]:
                if p[0] == "lit" and pieces and pieces[-1][0] == "lit":
                    pieces[-1] = ("lit", pieces[-1][1] + p[1])
                else:
                    pieces.append(p)
        rows.append({"b": w["b"], "pieces": pieces, "kind": "row"})
    rows.sort(key=lambda x: x["b"])
    return rows


def lits(tc):
    return [p[1] for p in tc["pieces"] if p[0] == "lit"]


def args(fa, S, tc):
    return [S.operand(fmt.deref_arg(fa, p[1])) for p in tc["pieces"] if p[0] == "arg"]


def arg_ops(fa, tc):
    return [fmt.deref_arg(fa, p[1]) for p in tc["pieces"] if p[0] == "arg"]


def param_index(f, name):
    names = f.j.get("param_names") or []
    if name not in names:
        raise EngineError("anchor lost: parameter %s of %s" % (name, f.path))
    return names.index(name) + 1


def ends_with_field(e, name):
    e = strip_casts(e)
    return (e[0] == "ap" and e[1].proj[-1:] == (name,)) or \
        (e[0] == "call" and short(e[1]) == "get" and e[2] and ends_with_field(e[2][0], name))


def is_cost_expr(e):
    s = show(e)
    return "Neg(" in s and "Mul(" in s


# ---- the pairs -------------------------------------------------------------------------------

def lexicon_rows(ctx):
    crate = ctx.facts("A").lib
    E = Effects(crate)
    p = M + "write_dictionary"
    fa = E.fa(p)
    S = Sym(E, fa)
    f = crate.fns[p]
    # reader: column k -> WordParam::new argument
    rp = "vibrato::dictionary::lexicon::Lexicon::parse_csv"
    rfa = E.fa(rp)
    RS = Sym(E, rfa)
    names = rfa.fn.local_names()
    wp = [(b, t) for b, t in calls_named(rfa, "new") if "WordParam" in callee_of(t)["path"]]
    direct = {}          # the columns are parsed straight into the fields of one WordParam value

    def wp_field(pl):
        fs = [e for e in pl["p"] if e != "*"]
        if len(fs) == 1 and isinstance(fs[0], dict) and str(fs[0].get("o", "")).endswith("WordParam") and \
                fs[0].get("n") in ("left_id", "right_id", "word_cost"):
            return fs[0]["n"]
        return None
    if len(wp) != 1:
        n_direct = 0
        for b, i, s0 in rfa.stmts():
            if "lhs" in s0 and wp_field(s0["lhs"]):
                n_direct += 1
        for b, t in rfa.calls():
            if wp_field(t["dest"]):
                n_direct += 1
        if not n_direct:
            raise EngineError("FMT: WordParam::new call in parse_csv not found")
    # switch on field_cnt
    arms = {}
    for b in sorted(rfa.live_blocks()):
        t = rfa.term(b)
        if t["k"] == "switch" and t.get("ty") == "usize":
            bl = base_local(rfa, t["op"])
            if bl and names.get(bl[0]) == "field_cnt" and len(t["vals"]) >= 4:
                for v, tg in zip(t["vals"], t["targets"]):
                    arms[v] = tg
                other = t["otherwise"]
    if set(arms) < {0, 1, 2, 3}:
        raise EngineError("FMT: match on field_cnt with arms 0..3 not found in parse_csv")
    col_of_local = {}
    for k, tg in arms.items():
        others = {x for v, x in arms.items() if v != k} | {other}
        region = rfa.reachable(tg, avoid=others - {tg})
        for bb in sorted(region):
            for s in rfa.blocks[bb]["stmts"]:
                if "lhs" in s and not s["lhs"]["p"] and s["lhs"]["l"] in names and \
                        names[s["lhs"]["l"]] in ("surface", "left_id", "right_id", "word_cost"):
                    col_of_local[s["lhs"]["l"]] = k
            t = rfa.blocks[bb]["term"]
            if t["k"] == "call" and not t["dest"]["p"] and t["dest"]["l"] in names and \
                    names[t["dest"]["l"]] in ("surface", "left_id", "right_id", "word_cost"):
                col_of_local[t["dest"]["l"]] = k
            for s in rfa.blocks[bb]["stmts"]:
                if "lhs" in s and wp_field(s["lhs"]):
                    direct.setdefault(wp_field(s["lhs"]), set()).add(k)
            if t["k"] == "call" and wp_field(t["dest"]):
                direct.setdefault(wp_field(t["dest"]), set()).add(k)
    if len(wp) == 1:
        wb, wt = wp[0]
        got = []
        for a in wt["args"]:
            bl = base_local(rfa, a)
            got.append(col_of_local.get(bl[0]) if bl else None)
    else:
        wb = sorted(rfa.live_blocks())[0]
        got = [sorted(direct.get(n, [None]))[0] if len(direct.get(n, [])) == 1 else None
               for n in ("left_id", "right_id", "word_cost")]
    ok = got == [1, 2, 3]
    ctx.ob("FMT", "lex.csv|reader|columns-1,2,3->WordParam::new(left,right,cost)", ok, rfa.loc(wb),
           "parse_csv stores CSV column 1, 2, 3 into left_id, right_id, word_cost" if ok else
           "parse_csv hands columns %s to WordParam::new(left_id, right_id, word_cost): ids or "
           "cost are read from the wrong column" % got)
    # writers (logical rows: the surface cell and the remaining columns may be written by one or
    # several calls)
    for wname, label, first in (("lexicon_wtr", "lex.csv", "csvcell"), ("unk_handler_wtr", "unk.def", "plain"),
                                ("user_lexicon_wtr", "user.csv", "csvcell")):
        wi = param_index(f, wname)
        rows = logical_rows(E, fa, S, wi)
        want_rows = 2 if wname == "user_lexicon_wtr" else 1
        ctx.ob("FMT", "%s|writer|row-templates" % label, len(rows) == want_rows, fn_loc(crate, p),
               "%s is written from %d row template(s)" % (label, len(rows)))
        for n, tc in enumerate(rows):
            pcs = tc["pieces"]
            a_ops = [fmt.deref_arg(fa, q[1]) if q[2] != "csvcell" else q[1] for q in pcs if q[0] == "arg"]
            a = [S.operand(o) for o in a_ops]
            kinds = [q[2] for q in pcs if q[0] == "arg"]
            l = [q[1] for q in pcs if q[0] == "lit"]
            alternating = all((q[0] == "arg") == (i % 2 == 0) for i, q in enumerate(pcs))
            shape_ok = alternating and len(a) == 5 and l == [",", ",", ",", ",", "\n"]
            ctx.ob("FMT", "%s|writer|%d|comma-separated-5-columns" % (label, n), shape_ok, fa.loc(tc["b"]),
                   "row template: surface , left , right , cost , feature newline" if shape_ok else
                   "row template of %s has literals %s and %d placeholders: the compiler's CSV "
                   "reader expects five comma separated columns" % (label, l, len(a)))
            if not shape_ok:
                continue
            if first == "csvcell":
                okq = kinds[0] == "csvcell"
                ctx.ob("FMT", "%s|writer|%d|surface-quoted-first" % (label, n), okq, fa.loc(tc["b"]),
                       "the surface is written first, as a quoted CSV cell" if okq else
                       "the first column is not written through quote_csv_cell: a surface "
                       "containing a comma or quote breaks the row")
            a = a[1:]
            okl = ends_with_field(a[0], "left_id") and ends_with_field(a[1], "right_id")
            ctx.ob("FMT", "%s|writer|%d|left-then-right" % (label, n), okl, fa.loc(tc["b"]),
                   "columns 1 and 2 are the left id and the right id (the order parse_csv reads)"
                   if okl else "columns 1/2 are written from %s / %s: left and right id are "
                   "swapped relative to what the reader expects" % (show(a[0]), show(a[1])))
            okc = is_cost_expr(a[2]) or ends_with_field(a[2], "word_cost")
            ctx.ob("FMT", "%s|writer|%d|cost-third" % (label, n), okc, fa.loc(tc["b"]),
                   "column 3 is the cost" if okc else "column 3 is %s" % show(a[2]))
            okf = "feature" in show(a[3])
            ctx.ob("FMT", "%s|writer|%d|feature-last" % (label, n), okf, fa.loc(tc["b"]),
                   "the feature string is the last column" if okf else "last column is %s" % show(a[3]))


def matrix_rows(ctx):
    crate = ctx.facts("A").lib
    E = Effects(crate)
    p = M + "write_dictionary"
    fa = E.fa(p)
    S = Sym(E, fa)
    f = crate.fns[p]
    spec = KindSpec()
    rows = [tc for tc in rows_for(E, fa, S, param_index(f, "connector_wtr")) if tc["kind"] == "write_fmt"]
    ctx.ob("FMT", "matrix.def|writer|two-templates", len(rows) == 2, fn_loc(crate, p),
           "matrix.def is written from a header template and a row template")
    delim = {}
    for name, ncols in (("parse_header", 2), ("parse_body", 3)):
        rfa = E.fa(MC + name)
        RS = Sym(E, rfa)
        sp = splits(rfa, RS)
        ok = len(sp) == 1 and sp[0][1] is not None
        delim[name] = sp[0][1] if ok else None
        # returned tuple field i <- cols[i]
        ret_cols = []
        for b, i, s in rfa.stmts():
            if "rv" in s and s["rv"]["k"] == "agg" and s["rv"].get("agg") == "tuple" and \
                    len(s["rv"]["ops"]) == ncols:
                ret_cols = [const_index_source(rfa, RS, o) for o in s["rv"]["ops"]]
        okc = ret_cols == list(range(ncols))
        ctx.ob("FMT", "matrix.def|reader|%s|tuple-field-i<-column-i" % name, okc, fn_loc(crate, MC + name),
               "%s returns (column 0, column 1%s) in file order" % (name, ", column 2" if ncols == 3 else "")
               if okc else "%s returns columns %s: right/left (and cost) are read from the wrong "
               "columns" % (name, ret_cols))
        # column count check
        cnt = None
        for b in sorted(rfa.live_blocks()):
            t = rfa.term(b)
            if t["k"] == "switch":
                e = RS.operand(t["op"])
                if e[0] == "binop" and e[1] in ("Ne", "Eq") and e[3][0] == "const" and \
                        ((e[2][0] == "call" and short(e[2][1]) == "len") or show(e[2]).startswith("PtrMetadata(")):
                    cnt = e[3][1]
        ctx.ob("FMT", "matrix.def|reader|%s|expects-%d-columns" % (name, ncols), cnt == ncols,
               fn_loc(crate, MC + name), "%s requires exactly %s columns" % (name, cnt))
    for tc, name, ncols in zip(sorted(rows, key=lambda x: x["b"]), ("parse_header", "parse_body"), (2, 3)):
        l = lits(tc)
        a = args(fa, S, tc)
        d = delim[name]
        ok = len(a) == ncols and l == [d] * (ncols - 1) + ["\n"]
        ctx.ob("FMT", "matrix.def|writer|%s|delimiter-and-count" % name, ok, fa.loc(tc["b"]),
               "%d columns separated by %r, one record per line - what %s splits on" % (ncols, d, name)
               if ok else "writer emits literals %s with %d values but %s splits on %r and expects "
               "%d columns" % (l, len(a), name, d, ncols))
    # roles of the written columns (right = LW first, left = RW second)
    fa2, opk, plk, _ = op_kind_fn(crate, E, p, spec)
    for tc, name in zip(sorted(rows, key=lambda x: x["b"]), ("header", "row")):
        ops = arg_ops(fa, tc)
        ks = []
        for o in ops[:2]:
            k = {x for x in opk(o) if x in SIDE}
            e = S.operand(o)
            ap = e[1] if e[0] == "ap" else E.ap_operand(fa, o)
            if not k and ap is not None and "<idx>" in ap.proj:
                fld = [x for x in ap.proj if isinstance(x, str) and not x.startswith("<") and x != "[]"][-1]
                cands = [v for kk, v in spec.index.items() if kk.endswith("." + fld)]
                if len(cands) == 1:
                    k = {cands[0]}
            ks.append(k)
        ok = (not ks[0] or ks[0] == {"LW"}) and (not ks[1] or ks[1] == {"RW"}) and (ks[0] or ks[1])
        ctx.ob("FMT", "matrix.def|writer|%s|right-then-left" % name, bool(ok), fa.loc(tc["b"]),
               "first column belongs to the right-id side, second to the left-id side (the order "
               "the reader assigns them)" if ok else
               "matrix.def %s writes a %s value first and a %s value second; the reader takes the "
               "first as right id and the second as left id" % (name, sorted(ks[0]), sorted(ks[1])))


def _zip_from_one(fa, e):
    """`e` is the member of a `zip` item that comes from the unbounded range `1..`."""
    e = strip_casts(e)
    if e[0] != "ap" or e[1].root[0] != "call" or len(e[1].proj) < 2 or e[1].proj[-1] not in ("#0", "#1"):
        return False
    side = int(e[1].proj[-1][1])
    t = fa.term(e[1].root[1])
    for _ in range(6):
        nm = {strip_generics(x).rsplit("::", 1)[-1] for x in callee_paths(t)}
        if "zip" in nm and len(t["args"]) == 2:
            o = fa.origin(t["args"][side])
            if o[0] == "rv" and o[1]["k"] == "agg" and "RangeFrom" in str(o[1].get("agg")) + str(o[1].get("adt", "")):
                c = op_const(o[1]["ops"][0])
                return bool(c) and c.get("int") == 1
            return False
        if not t["args"]:
            return False
        o = fa.origin(t["args"][0])
        if o[0] != "call":
            return False
        t = o[2]
    return False


def bigram_files(ctx):
    crate = ctx.facts("A").lib
    E = Effects(crate)
    spec = KindSpec()
    # readers
    rfa = E.fa(RCB + "parse_features")
    RS = Sym(E, rfa)
    sp = splits(rfa, RS)
    tab = sp[0][1] if len(sp) == 1 else None
    nx = next_calls_of(rfa, sp[0][0]) if sp else []
    ok = tab == "\t" and len(nx) == 3
    ctx.ob("FMT", "bigram.lr|reader|id<TAB>features", ok, fn_loc(crate, RCB + "parse_features"),
           "parse_features splits a line at TAB into exactly (id, features)" if ok else
           "parse_features splits on %r into %d parts" % (tab, len(nx)))
    # id from the first part, features (csv row) from the second
    if len(nx) == 3:
        pr = [(b, t) for b, t in calls_named(rfa, "parse")]
        cr = [(b, t) for b, t in calls_named(rfa, "parse_csv_row")]
        ok = len(pr) == 1 and len(cr) == 1 and derives_from_call(rfa, pr[0][1]["args"][0], nx[0][0]) and \
            derives_from_call(rfa, cr[0][1]["args"][0], nx[1][0])
        ctx.ob("FMT", "bigram.lr|reader|first=id,second=csv", ok, fn_loc(crate, RCB + "parse_features"),
               "the part before the TAB is the id, the part after it the CSV feature row" if ok else
               "parse_features does not take the id from the first part and the features from the second")
    # numbering: id == i + 1
    fp = RCB + "from_readers"
    ffa = E.fa(fp)
    FS = Sym(E, ffa)
    n_ord = 0
    for b in sorted(ffa.live_blocks()):
        t = ffa.term(b)
        if t["k"] == "switch":
            e = FS.operand(t["op"])
            if e[0] == "binop" and e[1] in ("Ne", "Eq"):
                s = show(e)
                if "parse_features" not in s:
                    continue
                if "Add(" in s and ", 1)" in s:
                    n_ord += 1
                elif any(_zip_from_one(ffa, x) for x in (e[2], e[3])):
                    n_ord += 1          # `lines().zip(1..)`: the expected id counts from 1
    ctx.ob("FMT", "bigram.lr|reader|ids-are-line-number-1-based", n_ord == 2, fn_loc(crate, fp),
           "both id files must list id i+1 on line i (0-based)" if n_ord == 2 else
           "the ascending-id check (id == line + 1) is missing for one of the files")
    cfa = E.fa(RCB + "parse_cost")
    CS = Sym(E, cfa)
    sp = splits(cfa, CS)
    delims = [d for b, d, t in sp]
    ok = delims == ["\t", "/"]
    ctx.ob("FMT", "bigram.cost|reader|features<TAB>cost,right/left", ok, fn_loc(crate, RCB + "parse_cost"),
           "parse_cost splits at TAB, then the feature part at '/'" if ok else
           "parse_cost splits on %s" % delims)
    # roles of the two feature strings: 1st -> right_id_map (LW), 2nd -> left_id_map (RW)
    roles = []
    if ok:
        nx = next_calls_of(cfa, sp[1][0])
        f2, opk, plk, _ = op_kind_fn(crate, E, RCB + "parse_cost", spec)
        for nb, nt in nx[:2]:
            role = set()
            for b, t in cfa.calls():
                if len(t["args"]) >= 2 and any(derives_from_call(cfa, a, nb) for a in t["args"][1:]):
                    role |= {x for x in opk(t["args"][0]) if x in SIDE}
            roles.append(role)
        okr = roles == [{"LW"}, {"RW"}]
        ctx.ob("FMT", "bigram.cost|reader|first-is-right-side", okr, fn_loc(crate, RCB + "parse_cost"),
               "the string before '/' is interned in the right-id (left word) map, the one after "
               "it in the left-id map" if okr else
               "parse_cost interns the two feature strings in %s" % roles)
    # writers
    for p, lw, rw, cw, label in (
            (M + "write_bigram_details", "right_wtr", "left_wtr", "cost_wtr", "trainer"),
            ("vibrato::mecab::generate_bigram_info", "bigram_right_wtr", "bigram_left_wtr",
             "bigram_cost_wtr", "mecab")):
        fa = E.fa(p)
        S = Sym(E, fa)
        f = crate.fns[p]
        f2, opk, plk, _ = op_kind_fn(crate, E, p, spec)
        for wname in (lw, rw):
            rows = [tc for tc in rows_for(E, fa, S, param_index(f, wname))]
            fm = [tc for tc in rows if tc["kind"] == "write_fmt"]
            heads = [tc for tc in fm if len(args(fa, S, tc)) == 1 and lits(tc) == ["\t"]]
            seps = [tc for tc in fm if not args(fa, S, tc) and lits(tc) == [","]]
            nls = [tc for tc in fm if not args(fa, S, tc) and lits(tc) == ["\n"]]
            stars = [tc for tc in fm if not args(fa, S, tc) and lits(tc) == ["*"]]
            rest = [tc for tc in fm if tc not in heads + seps + nls + stars]
            cells = [tc for tc in rows if tc["kind"] == "csvcell"] + \
                    [tc for tc in rest if len(args(fa, S, tc)) == 1 and not lits(tc)]
            rest = [tc for tc in rest if tc not in cells]
            ok = len(heads) == 1 and len(seps) == 1 and len(nls) == 1 and len(stars) == 1 and \
                len(cells) == 1 and not rest
            ctx.ob("FMT", "bigram.lr|writer|%s|%s|id<TAB>cells,comma,newline" % (label, wname), ok,
                   fn_loc(crate, p),
                   "%s: each line is id TAB features joined by ',' ('*' for an absent feature) "
                   "newline" % wname if ok else
                   "%s: line shape differs from id<TAB>csv (heads=%d seps=%d newlines=%d stars=%d "
                   "cells=%d other=%s)" % (wname, len(heads), len(seps), len(nls), len(stars),
                                           len(cells), [lits(x) for x in rest]))
            if heads:
                e = args(fa, S, heads[0])[0]
                s = show(e)
                one_based = ("Add(" in s and s.rstrip(")").endswith(", 1")) or range_from_one(fa, S, arg_ops(fa, heads[0])[0])
                ctx.ob("FMT", "bigram.lr|writer|%s|%s|ids-1-based" % (label, wname), one_based,
                       fa.loc(heads[0]["b"]),
                       "%s numbers its lines 1, 2, 3, … as the connector's reader requires" % wname
                       if one_based else "%s writes id %s: the reader requires line i to carry id i+1"
                       % (wname, s))
        crow = [tc for tc in rows_for(E, fa, S, param_index(f, cw)) if tc["kind"] == "write_fmt"]
        ok = len(crow) == 1 and lits(crow[0]) == ["/", "\t", "\n"] and len(args(fa, S, crow[0])) == 3
        ctx.ob("FMT", "bigram.cost|writer|%s|a/b<TAB>cost" % label, ok, fn_loc(crate, p),
               "bigram.cost line: first '/' second TAB cost newline" if ok else
               "bigram.cost line has literals %s" % ([lits(x) for x in crow]))
        if ok and roles == [{"LW"}, {"RW"}]:
            ops = arg_ops(fa, crow[0])
            ks = [{x for x in opk(o) if x in SIDE} for o in ops[:2]]
            if label == "mecab":
                ks = [mecab_side(fa, S, o) or k for o, k in zip(ops[:2], ks)]
            okr = (ks[0] == {"LW"} or not ks[0]) and (ks[1] == {"RW"} or not ks[1]) and (ks[0] or ks[1])
            ctx.ob("FMT", "bigram.cost|writer|%s|left-word-feature-first" % label, bool(okr),
                   fa.loc(crow[0]["b"]),
                   "the feature of the left word is written before '/', the right word's after it - "
                   "the order parse_cost interns them" if okr else
                   "bigram.cost writes a %s feature before '/' and a %s feature after it, but the "
                   "reader interns the first in the right-id (left word) map" % (sorted(ks[0]), sorted(ks[1])))


def mecab_side(fa, S, op):
    """In generate_bigram_info the ids come from feature_extractor.left/right_feature_ids()."""
    seen = set()
    work = [op]
    out = set()
    while work:
        o = work.pop()
        pl = op_place(o)
        if pl is None or pl["l"] in seen:
            continue
        seen.add(pl["l"])
        for (b, i, kind, payload) in fa.defs().get(pl["l"], []):
            if kind == "call":
                nm = strip_generics((callee_of(payload).get("resolved") or callee_of(payload))["path"]) \
                    if callee_of(payload) else ""
                if nm.endswith("left_feature_ids"):
                    out.add("LW")
                elif nm.endswith("right_feature_ids"):
                    out.add("RW")
                else:
                    work.extend(payload["args"][:1])
            elif kind == "assign":
                rv = payload
                if rv["k"] in ("use", "cast"):
                    work.append(rv["op"])
                elif rv["k"] == "ref":
                    work.append({"c": rv["place"]})
    return out


def range_from_one(fa, S, op):
    """Is the value an item of `1..n` / `1..=n`?"""
    pl = op_place(op)
    cur = pl["l"] if pl else None
    for _ in range(20):
        if cur is None:
            return False
        d = fa.single_def(cur)
        if d is None:
            return False
        if d[2] == "call":
            t = d[3]
            nm = strip_generics((callee_of(t).get("resolved") or callee_of(t))["path"])
            if nm.endswith("RangeInclusive::new"):
                k = fmt.const_of(fa, t["args"][0])
                return bool(k) and k.get("int") == 1
            if not t["args"]:
                return False
            p0 = op_place(t["args"][0])
        else:
            rv = d[3]
            if rv["k"] == "agg" and str(rv.get("adt", "")).startswith("std::ops::Range"):
                k = fmt.const_of(fa, rv["ops"][0])
                return bool(k) and k.get("int") == 1
            p0 = op_place(rv["op"]) if rv["k"] in ("use", "cast") else rv["place"] \
                if rv["k"] == "ref" else None
        cur = p0["l"] if p0 else None
    return False


def corpus_format(ctx):
    F = ctx.facts("A")
    crate = F.lib
    E = Effects(crate)
    rp = "vibrato::trainer::corpus::Corpus::from_reader"
    rfa = E.fa(rp)
    RS = Sym(E, rfa)
    sp = splits(rfa, RS)
    d = sp[0][1] if len(sp) == 1 else None
    nx = next_calls_of(rfa, sp[0][0]) if sp else []
    ok = d == "\t" and len(nx) == 3
    once = [(b, t) for b, t in rfa.calls() if (callee_of(t) or {}).get("name") == "split_once" and len(t["args"]) == 2]

    def part_index(op):
        """which half of the `split_once` pair an operand is taken from (0 / 1), else None"""
        pl = op_place(op)
        for _ in range(14):
            if pl is None:
                return None
            for e in pl["p"]:
                if isinstance(e, dict) and e.get("o") == "(tuple)" and "f" in e:
                    return e["f"]
            dd_ = rfa.single_def(pl["l"])
            if dd_ is None:
                return None
            if dd_[2] == "call":
                if dd_[3]["args"] and (callee_of(dd_[3]) or {}).get("name") in (
                        "to_string", "to_owned", "into", "from", "clone", "deref", "as_ref"):
                    pl = op_place(dd_[3]["args"][0])
                    continue
                return None
            rv_ = dd_[3]
            pl = op_place(rv_["op"]) if rv_["k"] in ("use", "cast") else rv_["place"] if rv_["k"] == "ref" else None
        return None
    if not sp and len(once) == 1:
        # `match line.split_once('\t') { Some((surface, feature)) if !feature.contains('\t') => .. }`
        k_ = fmt.const_of(rfa, once[0][1]["args"][1])
        d = (k_ or {}).get("char") or (k_ or {}).get("str")
        more = False
        for cb_, ct_ in rfa.calls():
            if (callee_of(ct_) or {}).get("name") == "contains" and len(ct_["args"]) == 2:
                kk = fmt.const_of(rfa, ct_["args"][1])
                if ((kk or {}).get("char") or (kk or {}).get("str")) == d and part_index(ct_["args"][0]) == 1:
                    more = True
        ok = d == "\t" and more
        sp = [(once[0][0], d, once[0][1])]
    ctx.ob("FMT", "corpus|reader|surface<TAB>feature", ok, fn_loc(crate, rp),
           "a corpus line is split at TAB into exactly (surface, feature)" if ok else
           "Corpus::from_reader splits on %r into %d parts" % (d, len(nx)))
    # the split line is the raw line of the reader (only the line terminator removed)
    if sp:
        names_chain = []
        pl = op_place(sp[0][2]["args"][0])
        cur = pl["l"] if pl else None
        for _ in range(16):
            if cur is None:
                break
            dd_ = rfa.single_def(cur)
            if dd_ is None:
                break
            if dd_[2] == "call":
                c = callee_of(dd_[3])
                names_chain.append(short(strip_generics((c.get("resolved") or c)["path"])) if c else "?")
                p0 = op_place(dd_[3]["args"][0]) if dd_[3]["args"] else None
            else:
                rv = dd_[3]
                p0 = op_place(rv["op"]) if rv["k"] in ("use", "cast") else rv["place"] if rv["k"] == "ref" else None
            cur = p0["l"] if p0 else None
        trims = [n for n in names_chain if n.startswith("trim")]
        okraw = "lines" in names_chain and not trims
        ctx.ob("FMT", "corpus|reader|raw-line", okraw, fn_loc(crate, rp),
               "the line handed to split() is the reader's line with only the terminator removed "
               "(BufRead::lines)" if okraw else
               "the corpus line is post-processed (%s) before it is split: trailing white space of "
               "a feature - or an empty feature - is lost, so writer output no longer parses to "
               "the same tokens" % (trims or names_chain))
    # the Word aggregate: surface from the first part, feature from the second
    WORD = "vibrato::trainer::corpus::Word"
    okw = False
    for b, i, s in rfa.stmts():
        if "rv" in s and s["rv"]["k"] == "agg" and s["rv"].get("adt") == WORD and len(nx) >= 2:
            fl = dict(zip(s["rv"]["fields"], s["rv"]["ops"]))
            okw = derives_from_call(rfa, fl["surface"], nx[0][0]) and \
                not derives_from_call(rfa, fl["surface"], nx[1][0]) and \
                derives_from_call(rfa, fl["feature"], nx[1][0])
    # .. or built by a constructor function of Word (`Word::new(surface, feature)`)
    from flow import ctor_fields
    for b, t in rfa.calls():
        c = callee_of(t)
        cp = (c.get("resolved") or c)["path"] if c else None
        if cp in crate.fns and crate.fns[cp].body and (t.get("dest_ty") or "") == WORD and len(nx) >= 2:
            m = ctor_fields(E.fa(cp), WORD)
            if m and {"surface", "feature"} <= set(m) and all(v - 1 < len(t["args"]) for v in m.values()):
                fl = {k: t["args"][v - 1] for k, v in m.items()}
                okw = derives_from_call(rfa, fl["surface"], nx[0][0]) and \
                    not derives_from_call(rfa, fl["surface"], nx[1][0]) and \
                    derives_from_call(rfa, fl["feature"], nx[1][0])
    if once and not nx:
        for b, i, s0 in rfa.stmts():
            if "rv" in s0 and s0["rv"]["k"] == "agg" and s0["rv"].get("adt") == WORD:
                fl = dict(zip(s0["rv"]["fields"], s0["rv"]["ops"]))
                okw = part_index(fl["surface"]) == 0 and part_index(fl["feature"]) == 1
        for b, t in rfa.calls():
            c = callee_of(t)
            cp = (c.get("resolved") or c)["path"] if c else None
            if cp in crate.fns and crate.fns[cp].body and (t.get("dest_ty") or "") == WORD:
                m = ctor_fields(E.fa(cp), WORD)
                if m and {"surface", "feature"} <= set(m) and all(v - 1 < len(t["args"]) for v in m.values()):
                    okw = part_index(t["args"][m["surface"] - 1]) == 0 and part_index(t["args"][m["feature"] - 1]) == 1
    ctx.ob("FMT", "corpus|reader|first=surface,second=feature", okw, fn_loc(crate, rp),
           "the first part becomes the surface, the second the feature" if okw else
           "surface/feature are not taken from the first/second part of the line")
    # the sentence terminator the reader recognises
    eos = None
    for b, t in rfa.calls():
        ps = [strip_generics(x) for x in callee_paths(t)]
        if any(x.endswith("::eq") or x.endswith("::ne") for x in ps):
            for a in t["args"]:
                k = fmt.const_of(rfa, a)
                if k is None:
                    from r_codec import find_const
                    k = find_const(rfa, a)
                if k is not None and "str" in k:
                    eos = k["str"]
                elif k is not None and "bytes" in k and "str" in str(k.get("ty", "")):
                    eos = bytes(k["bytes"]).decode("utf-8", "replace")      # a `&&str` constant
    # ... and only a line *without* a feature column is a terminator: the token `EOS<TAB>feature`
    # (a word spelled EOS) is an ordinary token. The branch taken when the comparison with the
    # terminator holds must lie behind the `no second part` edge.
    eq_calls = []
    for b, t in rfa.calls():
        ps = [strip_generics(x) for x in callee_paths(t)]
        if any(x.endswith("::eq") or x.endswith("::ne") for x in ps):
            ks = []
            for a in t["args"]:
                k = fmt.const_of(rfa, a)
                if k is None:
                    from r_codec import find_const
                    k = find_const(rfa, a)
                if k is not None and (k.get("str") == "EOS" or bytes(k.get("bytes") or b"") == b"EOS"):
                    ks.append(k)
            if ks:
                eq_calls.append((b, t, any(x.endswith("::ne") for x in ps)))
    second = nx[1] if len(nx) >= 2 else (once[0] if once else None)
    if eq_calls and second is not None:
        from mir import FnA as _FnA
        none_edges = set()
        for sb in sorted(rfa.live_blocks()):
            st_ = rfa.term(sb)
            if st_["k"] != "switch":
                continue
            o_ = rfa.origin(st_["op"])
            if o_[0] == "rv" and o_[1]["k"] == "discr":
                dpl = o_[1]["place"]
                src_ = rfa.origin({"c": {"l": dpl["l"], "p": []}})
                flds = [e for e in dpl["p"] if isinstance(e, dict) and (e.get("o") == "(tuple)" or "ci" in e)]
                if flds and len(dpl["p"]) == 1:
                    # `match (a, b, c) { .. }` / `match [a, b, c] { .. }`: the discriminant of one
                    # member of the tuple or array
                    dd0 = rfa.single_def(dpl["l"])
                    kk0 = flds[0]["f"] if "f" in flds[0] else flds[0]["ci"]
                    if dd0 and dd0[2] == "assign" and dd0[3]["k"] == "agg" and dd0[3].get("agg") in ("tuple", "array") \
                            and kk0 < len(dd0[3]["ops"]) and not flds[0].get("from_end"):
                        src_ = rfa.origin(dd0[3]["ops"][kk0])
                    else:
                        src_ = ("?",)
                elif dpl["p"]:
                    src_ = ("?",)
                if src_[0] == "call" and src_[1] == second[0]:
                    arms_ = dict(zip(st_["vals"], st_["targets"]))
                    none_edges.add((sb, arms_.get(0, st_["otherwise"])))
        # what a terminator does: it closes the sentence (an Example is built). With the
        # `no second part` edges cut, that must be unreachable. (The comparison itself may be
        # evaluated on other paths too - the match is compiled arm by arm.)
        cut = _FnA(rfa.fn, removed=none_edges)
        closes = [b0 for b0, i0, s0 in rfa.stmts()
                  if "rv" in s0 and s0["rv"]["k"] == "agg" and str(s0["rv"].get("adt", "")).endswith("corpus::Example")]
        live_cut = cut.reachable(0)
        okt = bool(none_edges) and bool(closes) and not any(b0 in live_cut for b0 in closes)
        ctx.ob("FMT", "corpus|reader|terminator-has-no-feature", okt, fn_loc(crate, rp),
               "a line is taken for the sentence terminator only when it has no second (feature) part"
               if okt else
               "the comparison with the terminator is made before (or without) testing that the line "
               "has no feature part: a token whose surface is `EOS` ends the sentence and is lost")
    ctx.ob("FMT", "corpus|reader|terminator", eos == "EOS", fn_loc(crate, rp),
           "a sentence ends at a line equal to %r" % eos)
    # writers
    wp = "vibrato::trainer::corpus::Example::write"
    wfa = E.fa(wp)
    WS = Sym(E, wfa)
    wparam = 2   # Example::write(&self, wtr)
    rows = logical_rows(E, wfa, WS, wparam)
    # write_all / write discipline first: it is independent of how the text is assembled
    bare = [b for b, t in wfa.calls()
            if any(strip_generics(x).endswith("io::Write::write") for x in callee_paths(t))]
    ctx.ob("FMT", "corpus|Example::write|no-partial-write", not bare, fn_loc(crate, wp),
           "output goes through write_fmt/write_all (complete writes)" if not bare else
           "Example::write uses Write::write, which may write only part of the buffer and drop "
           "token lines or the EOS line")
    if not rows:
        # the text is assembled in another way (e.g. pushed into a String and written once):
        # the row templates cannot be read off write_fmt calls - undecided, not a violation
        raise EngineError("FMT: Example::write does not emit its rows through write_fmt/writeln!; "
                          "the row template cannot be decoded")
    tok = [tc for tc in rows if len([q for q in tc["pieces"] if q[0] == "arg"]) == 2]
    end = [tc for tc in rows if not [q for q in tc["pieces"] if q[0] == "arg"]]
    ok = len(tok) == 1
    if ok:
        pcs = tok[0]["pieces"]
        a = [WS.operand(fmt.deref_arg(wfa, q[1])) for q in pcs if q[0] == "arg"]
        shape = [q[0] if q[0] == "arg" else q[1] for q in pcs]
        ok = shape == ["arg", d, "arg", "\n"] and ends_with_field(a[0], "surface") and \
            ends_with_field(a[1], "feature")
    ctx.ob("FMT", "corpus|Example::write|surface<TAB>feature", ok, fn_loc(crate, wp),
           "Example::write emits surface TAB feature newline per token" if ok else
           "Example::write emits rows %s" % [[q[1] if q[0] == "lit" else "{}" for q in x["pieces"]] for x in rows])
    ok = len(end) == 1 and [q[1] for q in end[0]["pieces"]] == [(eos or "") + "\n"]
    from flow import result_exits, must_pass
    okb, errb, _ = result_exits(wfa)
    ok_path = ok and all(must_pass(wfa, o, {end[0]["b"]}) for o in okb)
    ctx.ob("FMT", "corpus|Example::write|terminator", ok and ok_path, fn_loc(crate, wp),
           "every example ends with the line the reader recognises (%r)" % eos if ok and ok_path else
           "Example::write does not end every example with %r + newline" % eos)
    # tokenizer CLI (MeCab mode)
    tb = F.crate("tokenize-bin")
    TE = Effects(tb)
    mp = [p for p in tb.fns if p.endswith("::main") and tb.fns[p].body]
    tfa = TE.fa(mp[0])
    TS = Sym(TE, tfa)
    tcs = [tc for tc in fmt.text_calls(TE, tfa) if tc["kind"] == "write_all"]
    # find the sequence surface, TAB, feature, newline
    seq = []
    for tc in sorted(tcs, key=lambda x: x["b"]):
        p0 = tc["pieces"][0]
        if p0[0] == "lit":
            seq.append(("lit", p0[1], tc["b"]))
        else:
            e = TS.operand(p0[1])
            d_ = show(e)
            if e[0] == "ap" and e[1].root[0] == "call":
                ct = tfa.term(e[1].root[1])
                d_ = strip_generics((callee_of(ct).get("resolved") or callee_of(ct))["path"])
            seq.append(("arg", d_, tc["b"]))
    found = False
    for i in range(len(seq) - 3):
        a, b_, c, dd = seq[i:i + 4]
        if a[0] == "arg" and "surface" in a[1] and b_[:2] == ("lit", d) and c[0] == "arg" and \
                "feature" in c[1] and dd[:2] == ("lit", "\n"):
            found = True
    ctx.ob("FMT", "corpus|tokenize-cli|surface<TAB>feature", found, "tokenize/src/main.rs",
           "the tokenizer's MeCab-style output writes surface TAB feature newline per token" if found
           else "the tokenizer CLI's MeCab output does not have the surface<TAB>feature shape the "
           "corpus reader parses (sequence %s)" % [x[:2] for x in seq][:12])
    eos_lits = [x for x in seq if x[0] == "lit" and x[1] == (eos or "") + "\n"]
    ctx.ob("FMT", "corpus|tokenize-cli|terminator", len(eos_lits) >= 1, "tokenize/src/main.rs",
           "each sentence is terminated by %r" % ((eos or "") + "\n") if eos_lits else
           "the tokenizer CLI does not terminate sentences with %r" % eos)


def mapping_files(ctx):
    F = ctx.facts("A")
    rb = F.crate("reorder-bin")
    mb = F.crate("map-bin")
    RE, ME = Effects(rb), Effects(mb)
    lp = [p for p in mb.fns if p.endswith("load_mapping")]
    if not lp:
        raise EngineError("anchor lost: map::load_mapping")
    lfa = ME.fa(lp[0])
    LS = Sym(ME, lfa)
    sp = splits(lfa, LS)
    d = sp[0][1] if len(sp) == 1 else None
    pr = calls_named(lfa, "parse")
    col = const_index_source(lfa, LS, pr[0][1]["args"][0]) if len(pr) == 1 else None
    ctx.ob("FMT", "mapping|reader|id-in-column-0", d == "\t" and col == 0, "map/src/main.rs",
           "map reads the id from column 0 of a TAB separated line" if d == "\t" and col == 0 else
           "load_mapping splits on %r and parses column %s" % (d, col))
    mp = [p for p in rb.fns if p.endswith("::main") and rb.fns[p].body]
    fa = RE.fa(mp[0])
    S = Sym(RE, fa)
    fm = [tc for tc in fmt.text_calls(RE, fa) if tc["kind"] == "format" and len(args(fa, S, tc)) == 2]
    # one writing block run over `[("lmap", left list), ("rmap", right list)]`
    table = None
    if len(fm) == 1:
        for b0, i0, s0 in fa.stmts():
            rv0 = s0.get("rv") or {}
            if rv0.get("k") == "agg" and rv0.get("agg") == "array" and len(rv0.get("ops", [])) == 2:
                rows_ = []
                for o0 in rv0["ops"]:
                    d0 = fa.single_def(op_place(o0)["l"]) if op_place(o0) is not None and not op_place(o0)["p"] else None
                    if d0 and d0[2] == "assign" and d0[3]["k"] == "agg" and d0[3].get("agg") == "tuple" and len(d0[3]["ops"]) == 2:
                        k0 = fmt.const_of(fa, d0[3]["ops"][0])
                        rows_.append((k0.get("str") if k0 else None, d0[3]["ops"][1]))
                if len(rows_) == 2:
                    table = rows_
    if table is not None:
        ok = lits(fm[0]) == [d, "\n"]
        ctx.ob("FMT", "mapping|writer|id<TAB>prob", ok, "map/src/reorder.rs",
               "reorder writes `id TAB probability newline` into both mapping files (one block run for both)" if ok else
               "reorder's mapping lines have literals %s" % [lits(tc) for tc in fm])
        o = arg_ops(fa, fm[0])[0]
        bl = base_local(fa, o)
        okid = ok and ("#0" in show(S.operand(o)) or (bl is not None and bl[1][-1:] == ["#0"]))
        ctx.ob("FMT", "mapping|writer|id-first", bool(okid), "map/src/reorder.rs",
               "the id is the first column, the one map parses" if okid else
               "reorder does not write the id in the first column")
        probs = [(b, t) for b, t in calls_named(fa, "compute_connid_probs")]
        ctx.ob("FMT", "mapping|writer|one-probs-call", len(probs) == 1, "map/src/reorder.rs",
               "both files come from one compute_connid_probs() result")
        if len(probs) == 1:
            exts = [e for e, _ in table]
            srcs = [tuple_field_of_loop(fa, S, o1, probs[0][0]) for _, o1 in table]
            # the extension that is set and the list that is written are the two members of one row
            ext_ok = all(fmt.const_of(fa, t["args"][1]) is None for b, t in calls_named(fa, "set_extension"))
            ok = exts == ["lmap", "rmap"] and srcs == [0, 1] and ext_ok
            ctx.ob("FMT", "mapping|writer|lmap<-left-list,rmap<-right-list", ok, "map/src/reorder.rs",
                   "*.lmap receives the left-id list (first result), *.rmap the right-id list" if ok else
                   "files %s receive result components %s: left and right mappings are crossed"
                   % (exts, srcs))
        return
    ok = len(fm) == 2 and all(lits(tc) == [d, "\n"] for tc in fm)
    ctx.ob("FMT", "mapping|writer|id<TAB>prob", ok, "map/src/reorder.rs",
           "reorder writes `id TAB probability newline` into both mapping files" if ok else
           "reorder's mapping lines have literals %s" % [lits(tc) for tc in fm])
    # the first value is the id component (.0) of the entry
    okid = ok
    for tc in fm:
        o = arg_ops(fa, tc)[0]
        bl = base_local(fa, o)
        e = S.operand(o)
        okid = okid and ("#0" in show(e) or (bl is not None and bl[1][-1:] == ["#0"]))
    ctx.ob("FMT", "mapping|writer|id-first", bool(okid), "map/src/reorder.rs",
           "the id is the first column, the one map parses" if okid else
           "reorder does not write the id in the first column")
    # lmap gets the left list, rmap the right list (crossed files would silently permute wrongly)
    probs = [(b, t) for b, t in calls_named(fa, "compute_connid_probs")]
    ctx.ob("FMT", "mapping|writer|one-probs-call", len(probs) == 1, "map/src/reorder.rs",
           "both files come from one compute_connid_probs() result")
    if len(probs) == 1 and len(fm) == 2:
        # which tuple field feeds which extension
        pairs = []
        for b, t in calls_named(fa, "set_extension"):
            k = fmt.const_of(fa, t["args"][1])
            pairs.append((b, k.get("str") if k else None))
        dom = fa.dominators()
        pairs.sort(key=lambda x: len(dom[x[0]]))
        fm_sorted = sorted(fm, key=lambda x: len(dom[x["b"]]))
        srcs = []
        for tc in fm_sorted:
            srcs.append(tuple_field_of_loop(fa, S, arg_ops(fa, tc)[0], probs[0][0]))
        exts = [e for b, e in pairs]
        ok = exts == ["lmap", "rmap"] and srcs == [0, 1]
        ctx.ob("FMT", "mapping|writer|lmap<-left-list,rmap<-right-list", ok, "map/src/reorder.rs",
               "*.lmap receives the left-id list (first result), *.rmap the right-id list" if ok else
               "files %s receive result components %s: left and right mappings are crossed"
               % (exts, srcs))


def tuple_field_of_loop(fa, S, op, call_block):
    """Which component (0/1) of the tuple returned at call_block does the iterated list come from?"""
    seen = set()
    work = [op]
    while work:
        o = work.pop()
        pl = op_place(o)
        if pl is None:
            continue
        key = (pl["l"], str(pl["p"]))
        if key in seen:
            continue
        seen.add(key)
        d = fa.single_def(pl["l"])
        if d is None:
            continue
        if d[2] == "call":
            if d[3]["args"]:
                work.append(d[3]["args"][0])
        else:
            rv = d[3]
            if rv["k"] in ("use", "cast"):
                p0 = op_place(rv["op"])
                if p0 is not None:
                    fs = [e for e in p0["p"] if e != "*" and "f" in e and e.get("o") == "(tuple)"]
                    dd = fa.single_def(p0["l"])
                    if fs and dd is not None and dd[2] == "call" and dd[0] == call_block:
                        return fs[0]["f"]
                    work.append(rv["op"])
            elif rv["k"] == "ref":
                work.append({"c": rv["place"]})
    return None


def split_all(ctx):
    """SPLITALL (C19): the `split` tool hands every sentence of the corpus to exactly one of its
    three outputs. Where it pairs a *shared* iterator over the corpus with a counter, the counter
    is the first member of the `zip`: `Zip` asks its first member first, so with the shared
    iterator in front one sentence is taken and dropped each time the counter runs out."""
    F = ctx.facts("A")
    try:
        sb = F.crate("split-bin")
    except Exception:
        raise EngineError("SPLITALL: the split tool is not part of the build")
    SE = Effects(sb)
    mp = [p for p in sb.fns if p.endswith("::main") and sb.fns[p].body]
    if not mp:
        raise EngineError("SPLITALL: anchor lost: main of the split tool")
    fa = SE.fa(mp[0])
    n = 0
    writes = [b for b, t in fa.calls() if (callee_of(t) or {}).get("name") == "write" and "Example" in " ".join(callee_paths(t))]
    ctx.floor("SPLITALL", "Example::write calls in the split tool", len(writes), 1)

    def is_range(op):
        o = fa.origin(op)
        return o[0] == "rv" and o[1]["k"] == "agg" and str(o[1].get("adt", "")).endswith(("ops::Range", "Range::Range", "RangeInclusive"))

    def is_shared_iter(op):
        # `&mut it` / `it.by_ref()`: a mutable borrow of an iterator that lives on
        o = fa.origin(op)
        if o[0] == "call" and (callee_of(o[2]) or {}).get("name") == "by_ref":
            return True
        pl = op_place(op)
        d = fa.single_def(pl["l"]) if pl is not None and not pl["p"] else None
        return bool(d and d[2] == "assign" and d[3]["k"] == "ref" and d[3].get("bk") == "mut")
    for b, t in fa.calls():
        if (callee_of(t) or {}).get("name") != "zip" or len(t["args"]) != 2:
            continue
        if is_shared_iter(t["args"][0]) and is_range(t["args"][1]):
            n += 1
            ctx.ob("SPLITALL", "%s|counter-first|%d" % (mp[0], n), False, fa.loc(b),
                   "the shared corpus iterator is the first member of a zip with a counter: when the counter "
                   "runs out the iterator has already given up one more sentence, which is written nowhere")
        elif is_range(t["args"][0]) and is_shared_iter(t["args"][1]):
            n += 1
            ctx.ob("SPLITALL", "%s|counter-first|%d" % (mp[0], n), True, fa.loc(b),
                   "the counter is asked first: no sentence is taken from the shared iterator once the "
                   "counter has run out")
    ctx.count("SPLITALL", "zips of a counter with the shared corpus iterator", n)


def csvrow(ctx):
    """CSVROW (C17, C18, C20, C07, C16): utils::parse_csv_row turns a feature string (a CSV row)
    into its cells - the column numbers of templates and rewrite rules, and the feature text of
    bigram.left/right, depend on it. It drives csv-core field by field through a fixed buffer:
      (a) every chunk `output[..nout]` a read_field call produced is appended to the cell being
          built before the loop reads again or emits the cell (an `OutputFull` step included - a
          cell longer than the buffer is otherwise cut);
      (b) what is emitted is the accumulated cell, not the buffer;
      (c) a Field or InputEmpty outcome emits a cell before the next read or the return (the
          last cell too, also when it is empty: `x,y,` has three cells);
      (e) the End outcome emits nothing (csv-core has returned every field by then; `x,y,` does
          not have four cells);
      (d) the input is advanced by the consumed count `nin` on every iteration.
    csv-core contract used: ReadFieldResult variants in declaration order InputEmpty, OutputFull,
    Field, End (csv-core 0.1 src/reader.rs), i.e. discriminant 1 = OutputFull."""
    crate = ctx.facts("A").lib
    E = Effects(crate)
    p = "vibrato::utils::parse_csv_row"
    f = crate.fns.get(p)
    if f is None or not f.body:
        raise EngineError("CSVROW: anchor lost: %s" % p)
    fa = E.fa(p)
    S = Sym(E, fa, depth=30)
    reads = calls_named(fa, "read_field")
    if len(reads) != 1:
        raise EngineError("CSVROW: expected one read_field call in parse_csv_row, found %d" % len(reads))
    rb, rt = reads[0]
    after = rt.get("t")
    outbuf = buffer_var(fa, rt["args"][2])
    res = rt["dest"]["l"]

    def tuple_field_of_result(op):
        """which component of read_field's result an operand copies (0 result, 1 nin, 2 nout)"""
        pl = op_place(op)
        for _ in range(8):
            if pl is None:
                return None
            if pl["l"] == res:
                fs = [e["f"] for e in pl["p"] if e != "*" and "f" in e and e.get("o") == "(tuple)"]
                return fs[0] if fs else None
            if pl["p"]:
                return None
            d = fa.single_def(pl["l"])
            if d is None or d[2] != "assign" or d[3]["k"] not in ("use", "cast"):
                return None
            pl = op_place(d[3]["op"])
        return None

    def range_of(op, adt_suffix):
        """the bound operand of a RangeTo/RangeFrom aggregate an operand copies"""
        pl = op_place(op)
        for _ in range(6):
            if pl is None or pl["p"]:
                return None
            d = fa.single_def(pl["l"])
            if d is None or d[2] != "assign":
                return None
            rv = d[3]
            if rv["k"] == "agg" and str(rv.get("adt", "")).endswith(adt_suffix):
                return rv["ops"][0]
            if rv["k"] != "use":
                return None
            pl = op_place(rv["op"])
        return None

    # (a) appends of output[..nout]
    app = []
    acc = set()
    for b, t in fa.calls():
        nm = (callee_of(t) or {}).get("name")
        if nm not in ("extend_from_slice", "extend", "push_str", "write_all") or len(t["args"]) < 2:
            continue
        src = t["args"][1]
        # see through element-wise views of the chunk (`.iter().copied()`, `.to_vec()`)
        for _ in range(6):
            dd = fa.single_def(op_place(src)["l"]) if op_place(src) is not None and not op_place(src)["p"] else None
            if dd and dd[2] == "call" and (callee_of(dd[3]) or {}).get("name") in (
                    "iter", "into_iter", "copied", "cloned", "to_vec", "to_owned", "as_ref", "borrow") and dd[3]["args"]:
                src = dd[3]["args"][0]
            else:
                break
        if buffer_var(fa, src) != outbuf:
            continue
        # the slice bound is nout
        bound_ok = False
        pl = op_place(src)
        for _ in range(10):
            if pl is None:
                break
            d = fa.single_def(pl["l"])
            if d is None:
                break
            if d[2] == "call":
                if (callee_of(d[3]) or {}).get("name") in ("index", "index_mut") and len(d[3]["args"]) > 1:
                    r = range_of(d[3]["args"][1], "RangeTo")
                    bound_ok = r is not None and tuple_field_of_result(r) == 2
                    break
                pl = op_place(d[3]["args"][0]) if d[3]["args"] else None
                continue
            rv = d[3]
            pl = op_place(rv["op"]) if rv["k"] in ("use", "cast") else rv.get("place") if rv["k"] == "ref" else None
        if bound_ok:
            app.append(b)
            acc.add(buffer_var(fa, t["args"][0]))
    pushes = [(b, t) for b, t in calls_named(fa, "push") if len(t["args"]) >= 2]
    push_b = {b for b, t in pushes}
    if not pushes:
        raise EngineError("CSVROW: no cell is pushed in parse_csv_row")
    oka = bool(app)
    if oka:
        r = fa.reachable(after, avoid=set(app))
        oka = rb not in r and not (r & push_b) and not any(fa.term(x)["k"] == "return" for x in r)
    ctx.ob("CSVROW", "parse_csv_row|every-chunk-appended", oka, fa.loc(rb),
           "every chunk output[..nout] is appended to the cell before the next read, emit or return"
           if oka else
           "parse_csv_row can read again, emit a cell or return without appending the chunk "
           "output[..nout] it just decoded (an OutputFull step loses the chunk: cells longer than "
           "the buffer are cut)")
    # (b) the emitted value is the accumulated cell
    okb = True
    for b, t in pushes:
        pl = op_place(t["args"][1])
        src = None
        for _ in range(16):
            if pl is None:
                break
            if pl["l"] in acc or pl["l"] == outbuf:
                src = pl["l"]
                break
            d = fa.single_def(pl["l"])
            if d is None:
                src = pl["l"]
                break
            if d[2] == "call":
                pl = op_place(d[3]["args"][0]) if d[3]["args"] else None
                continue
            rv = d[3]
            pl = op_place(rv["op"]) if rv["k"] in ("use", "cast") else rv.get("place") if rv["k"] in ("ref", "rawptr") else None
        if src not in acc:
            okb = False
    ctx.ob("CSVROW", "parse_csv_row|emits-the-accumulated-cell", okb, fa.loc(pushes[0][0]),
           "the cell pushed is the accumulated cell" if okb else
           "parse_csv_row pushes something other than the accumulated cell (the decode buffer holds "
           "only the last chunk of a long cell)")
    # (c)/(e) per outcome of the read: the CFG specialised to "the result is variant v" (every
    # switch on the result's discriminant keeps only the edge v takes)
    from mir import FnA
    sws = []
    for b in sorted(fa.live_blocks()):
        t = fa.term(b)
        if t["k"] != "switch":
            continue
        o = fa.origin(t["op"])
        if o[0] == "rv" and o[1]["k"] == "discr" and tuple_field_of_result({"c": o[1]["place"]}) == 0:
            sws.append((b, t))
    if not sws:
        raise EngineError("CSVROW: the result of read_field is not matched on")
    sb = sws[0][0]

    def specialised(v):
        removed = set()
        for b, t in sws:
            arms = dict(zip(t["vals"], t["targets"]))
            keep = arms.get(v, t["otherwise"])
            for tg in set(arms.values()) | {t["otherwise"]}:
                if tg != keep:
                    removed.add((b, tg))
        return FnA(fa.fn, removed=removed)

    okc = True
    bad = []
    for v, name in ((0, "InputEmpty"), (2, "Field")):
        fv = specialised(v)
        r = fv.reachable(after, avoid=push_b)
        if rb in r or any(fv.term(x)["k"] == "return" for x in r):
            okc = False
            bad.append(name)
    ctx.ob("CSVROW", "parse_csv_row|every-field-outcome-emits-a-cell", okc, fa.loc(sb),
           "InputEmpty and Field each emit the cell before the next read or the return"
           if okc else
           "after a %s outcome parse_csv_row can read on or return without emitting the cell: a "
           "cell is dropped (e.g. the empty last cell of `x,y,`), shifting or shortening the columns"
           % "/".join(bad))
    # (e) End carries no cell: csv-core returns End only after the last field was returned by a
    # Field result (with an empty chunk), so emitting on End appends a cell that is not in the row
    fe = specialised(3)
    r = fe.reachable(after, avoid={rb})
    oke = not (r & push_b)
    ctx.ob("CSVROW", "parse_csv_row|end-outcome-emits-nothing", oke, fa.loc(sb),
           "the End outcome leaves the loop without emitting a cell" if oke else
           "parse_csv_row emits a cell on the End outcome: csv-core has already returned every field "
           "by then (a row ending in its delimiter, `x,y,`, gets a spurious extra empty cell, so "
           "the feature one past the end counts as present-and-empty instead of absent)")
    # (d) the input advances by nin
    adv = []
    for b, t in fa.calls():
        if (callee_of(t) or {}).get("name") == "index" and len(t["args"]) > 1:
            r = range_of(t["args"][1], "RangeFrom")
            if r is not None and tuple_field_of_result(r) == 1 and \
                    buffer_var(fa, t["args"][0]) == buffer_var(fa, rt["args"][1]):
                adv.append(b)
    okd = bool(adv) and rb not in fa.reachable(after, avoid=set(adv))
    ctx.ob("CSVROW", "parse_csv_row|input-advances-by-consumed-count", okd, fa.loc(rb),
           "the input slice is advanced by nin before every further read" if okd else
           "parse_csv_row can call read_field again without advancing the input by the consumed count")


def quoter(ctx):
    """QUOTER (C14): utils::quote_csv_cell is the only place where a surface becomes a CSV cell.
    Every byte it writes comes out of the csv-core writer's output buffer (never straight from
    the input), and every successful return has passed Writer::finish (closing quote). A
    shortcut that copies `data` verbatim leaves `"` unescaped, and the emitted lex.csv no longer
    reads back."""
    crate = ctx.facts("A").lib
    E = Effects(crate)
    p = "vibrato::utils::quote_csv_cell"
    f = crate.fns.get(p)
    if f is None or not f.body:
        raise EngineError("QUOTER: anchor lost: %s" % p)
    fa = E.fa(p)
    from flow import result_exits
    # the output buffers handed (by &mut) to Writer::field / Writer::finish
    bufs = set()
    fin = []
    for b, t in fa.calls():
        ps = [strip_generics(x) for x in callee_paths(t)]
        if any(x.endswith("csv_core::Writer::field") or x.endswith("Writer::field") for x in ps):
            bufs.add(buffer_var(fa, t["args"][2]))
        if any(x.endswith("Writer::finish") for x in ps):
            bufs.add(buffer_var(fa, t["args"][1]))
            fin.append(b)
    bufs.discard(None)
    if not bufs:
        # no csv-core writer at all: then every write comes from somewhere else - if from the
        # input parameter, cells are copied without csv-core's quoting decisions
        raw = []
        for b, t in fa.calls():
            ps = [strip_generics(x) for x in callee_paths(t)]
            if any(x.endswith("Write::write_all") or x.endswith("Write::write") for x in ps) and len(t["args"]) > 1:
                if buffer_var(fa, t["args"][1]) == 2:
                    raw.append(fa.loc(b))
        if raw:
            ctx.ob("QUOTER", "%s|writes-only-quoter-output" % p, False, raw[0],
                   "quote_csv_cell writes the bytes of its input directly (%s) and does not go through the "
                   "csv-core writer: which cells get quoted and how quotes are doubled is no longer "
                   "csv-core's decision (a cell starting with `\"` is emitted bare and the row no longer "
                   "reads back)" % ", ".join(raw[:3]))
            return
        raise EngineError("QUOTER: csv_core::Writer::field/finish not found in quote_csv_cell")
    nw = 0
    bad = []
    for b, t in fa.calls():
        ps = [strip_generics(x) for x in callee_paths(t)]
        if any(x.endswith("Write::write_all") or x.endswith("Write::write") or
               x.endswith("Write::write_fmt") for x in ps):
            nw += 1
            src = buffer_var(fa, t["args"][1])
            if src not in bufs:
                names = fa.fn.local_names()
                bad.append("%s writes from `%s`" % (fa.loc(b), names.get(src, "arg%s" % src if src else "?")))
    ctx.floor("QUOTER", "writes in quote_csv_cell", nw, 2)
    ctx.ob("QUOTER", "%s|all-output-through-csv-writer" % p, not bad, "%s:%s" % (f.file, f.line),
           "every write of quote_csv_cell takes its bytes from the csv-core writer's output buffer"
           if not bad else
           "quote_csv_cell copies bytes that did not pass through the CSV writer (%s): quotes in "
           "a surface stay unescaped and the following columns are swallowed when the file is "
           "read back" % "; ".join(bad))
    # the input advances by the consumed count, the output is cut at the produced count
    fields = [(b, t) for b, t in fa.calls()
              if any(strip_generics(x).endswith("Writer::field") for x in callee_paths(t))]
    if len(fields) == 1:
        fb_, ft_ = fields[0]
        res = ft_["dest"]["l"]
        inbuf = buffer_var(fa, ft_["args"][1])
        adv = []
        wrong = []
        for b, t in fa.calls():
            if (callee_of(t) or {}).get("name") == "index" and len(t["args"]) > 1 and \
                    buffer_var(fa, t["args"][0]) == inbuf:
                r = _range_bound(fa, t["args"][1], "RangeFrom")
                if r is None:
                    continue
                k = _tuple_field(fa, r, res)
                (adv if k == 1 else wrong).append(b)
        after = ft_.get("t")
        okadv = bool(adv) and not wrong and fb_ not in fa.reachable(after, avoid=set(adv))
        ctx.ob("QUOTER", "%s|input-advances-by-consumed-count" % p, okadv, fa.loc(fb_),
               "before every further Writer::field call the input is advanced by nin, the number of "
               "input bytes that call consumed" if okadv else
               "quote_csv_cell does not advance its input by the consumed count `nin` before calling "
               "Writer::field again (e.g. by the produced count `nout`): when quoting changes the "
               "length, bytes of a cell longer than the buffer are skipped or repeated")
        okcut = True
        for b, t in fa.calls():
            ps = [strip_generics(x) for x in callee_paths(t)]
            if any(x.endswith("Write::write_all") for x in ps) and buffer_var(fa, t["args"][1]) in bufs:
                pl = op_place(t["args"][1])
                bound = None
                for _ in range(10):
                    if pl is None:
                        break
                    d = fa.single_def(pl["l"])
                    if d is None:
                        break
                    if d[2] == "call":
                        if (callee_of(d[3]) or {}).get("name") in ("index", "index_mut") and len(d[3]["args"]) > 1:
                            bound = _range_bound(fa, d[3]["args"][1], "RangeTo")
                            break
                        pl = op_place(d[3]["args"][0]) if d[3]["args"] else None
                        continue
                    rv = d[3]
                    pl = op_place(rv["op"]) if rv["k"] in ("use", "cast") else rv.get("place") if rv["k"] == "ref" else None
                if bound is None:
                    okcut = False
                    continue
                # the bound is the produced count of the csv-core call that dominates this write
                kf = _tuple_field(fa, bound, res)
                fin_res = [fa.term(x)["dest"]["l"] for x in fin]
                kfin = [_tuple_field(fa, bound, r0) for r0 in fin_res]
                if not (kf == 2 or 1 in kfin):
                    okcut = False
        ctx.ob("QUOTER", "%s|output-cut-at-produced-count" % p, okcut, fa.loc(fb_),
               "every write emits output[..nout] with nout the count its csv-core call produced" if okcut else
               "a write in quote_csv_cell is not cut at the produced count of its csv-core call")
    ok_b, err_b, _ = result_exits(fa)
    okf = bool(fin) and all(any(fa.dominates(fb, o) for fb in fin) for o in ok_b)
    ctx.ob("QUOTER", "%s|finish-before-ok" % p, okf, "%s:%s" % (f.file, f.line),
           "every successful return of quote_csv_cell has called Writer::finish" if okf else
           "quote_csv_cell can return Ok without Writer::finish (a quoted cell is left open)")


def _tuple_field(fa, op, res):
    """which component of the tuple in local `res` an operand copies, else None"""
    pl = op_place(op)
    for _ in range(8):
        if pl is None:
            return None
        if pl["l"] == res:
            fs = [e["f"] for e in pl["p"] if e != "*" and "f" in e and e.get("o") == "(tuple)"]
            return fs[0] if fs else None
        if pl["p"]:
            return None
        d = fa.single_def(pl["l"])
        if d is None or d[2] != "assign" or d[3]["k"] not in ("use", "cast"):
            return None
        pl = op_place(d[3]["op"])
    return None


def _range_bound(fa, op, adt_suffix):
    """the bound operand of the RangeTo / RangeFrom aggregate an operand copies, else None"""
    pl = op_place(op)
    for _ in range(6):
        if pl is None or pl["p"]:
            return None
        d = fa.single_def(pl["l"])
        if d is None or d[2] != "assign":
            return None
        rv = d[3]
        if rv["k"] == "agg" and str(rv.get("adt", "")).endswith(adt_suffix):
            return rv["ops"][0]
        if rv["k"] != "use":
            return None
        pl = op_place(rv["op"])
    return None


def buffer_var(fa, op):
    """The local array/vector (or parameter) a slice operand is cut from."""
    pl = op_place(op)
    for _ in range(16):
        if pl is None:
            return None
        if 1 <= pl["l"] <= fa.arg_count:
            return pl["l"]
        ds = fa.defs().get(pl["l"], [])
        if len(ds) != 1:
            return pl["l"]
        d = ds[0]
        if d[2] == "call":
            nm = (callee_of(d[3]) or {}).get("name")
            if nm in ("index", "index_mut", "deref", "deref_mut", "as_slice", "as_mut_slice",
                      "as_ref", "as_mut", "borrow", "borrow_mut") and d[3]["args"]:
                pl = op_place(d[3]["args"][0])
                continue
            return pl["l"]
        rv = d[3]
        if rv["k"] == "use":
            pl = op_place(rv["op"])
        elif rv["k"] == "ref":
            pl = rv["place"]
        elif rv["k"] == "cast":
            pl = op_place(rv["op"])
        else:
            return pl["l"]
    return pl["l"] if pl else None


def run_c14(ctx):
    lexicon_rows(ctx)
    matrix_rows(ctx)
    quoter(ctx)


def run_c16(ctx):
    bigram_files(ctx)
    matrix_rows(ctx)
    quoter(ctx)       # the cells of bigram.left / bigram.right are written through quote_csv_cell


def run_c19(ctx):
    corpus_format(ctx)
    corpus_shape(ctx)
    import r_codec
    r_codec.errprop_corpus(ctx)
    import r_panic
    r_panic.run_train(ctx)
    # a feature that keeps a `\r` (or loses its tail) does not survive the corpus line format
    import r_feat
    r_feat.run(ctx)


def run_c13(ctx):
    mapping_files(ctx)


def lexicon_rows_reader(ctx):
    """C11 view: the reader side of lexicon_rows only is about parse_csv; the writer obligations
    belong to C14. Run the full rule (writer shape is cheap) but keep the reader obligation."""
    lexicon_rows(ctx)
    ctx.obs = [o for o in ctx.obs if not (o.rule == "FMT" and "|writer|" in o.key)]


def corpus_shape(ctx):
    """CORPUS (C19): sentence bookkeeping of Corpus::from_reader.
      * a token line appends to the pending token list; the EOS line closes the sentence;
      * a sentence is stored only if the concatenation of its token surfaces is non-empty
        (sentences with no tokens are dropped), and the stored Example owns exactly the pending
        list;
      * the pending list is replaced by a fresh one on *every* path out of the EOS arm (kept or
        dropped), so no token leaks into the next sentence;
      * anything that is neither `surface TAB feature` nor `EOS` reaches the Err return."""
    crate = ctx.facts("A").lib
    E = Effects(crate)
    p = "vibrato::trainer::corpus::Corpus::from_reader"
    fa = E.fa(p)
    S = Sym(E, fa)
    loc = fn_loc(crate, p)
    # the pending token list: the Vec that receives Word values and is moved into Example.tokens
    ex = None
    for b, i, s in fa.stmts():
        rv = s.get("rv")
        if rv and rv["k"] == "agg" and str(rv.get("adt", "")).endswith("corpus::Example"):
            ex = (b, dict(zip(rv["fields"], rv["ops"])))
    if ex is None:
        raise EngineError("CORPUS: construction of Example not found")
    eb, fields = ex
    tpl = op_place(fields["tokens"])
    tok = None
    cur = tpl
    for _ in range(6):
        if cur is None:
            break
        if len(fa.defs().get(cur["l"], [])) > 1:
            tok = cur["l"]
            break
        d = fa.single_def(cur["l"])
        if d is None or d[2] != "assign" or d[3]["k"] != "use":
            break
        cur = op_place(d[3]["op"])
    if tok is None:
        # identified by what it receives: the Vec into which Word values are pushed
        from r_scorer import table_var as _tv
        cands = set()
        for pb, pt in calls_named(fa, "push"):
            ppl = op_place(pt["args"][1]) if len(pt["args"]) > 1 else None
            if len(pt["args"]) > 1 and ("Word" in show(S.operand(pt["args"][1]))[:40] or (
                    ppl is not None and fa.fn.locals[ppl["l"]]["ty"].endswith("corpus::Word"))):
                v = _tv(fa, pt["args"][0])
                if v is not None:
                    cands.add(v)
        if len(cands) == 1:
            tok = cands.pop()
    if tok is None:
        raise EngineError("CORPUS: the pending token list was not identified")
    # loop header: the lines() iterator's next
    def over_lines(t):
        if "Lines" in " ".join(callee_paths(t)):
            return True
        cur = t["args"][0] if t["args"] else None
        for _ in range(10):
            if cur is None:
                return False
            o = fa.origin(cur)
            if o[0] != "call":
                return False
            if any(strip_generics(x).endswith("::lines") for x in callee_paths(o[2])):
                return True
            cur = o[2]["args"][0] if o[2]["args"] else None
        return False
    heads = [b for b, t in fa.calls() if any(strip_generics(x).endswith("::next") for x in callee_paths(t))
             and over_lines(t)]
    if len(heads) != 1:
        raise EngineError("CORPUS: the line loop was not recognised")
    H = heads[0]
    # (1) stored only when the concatenated surface is non-empty
    guard = None
    for b in sorted(fa.dominators().get(eb, ()), reverse=True):
        t = fa.term(b)
        if t["k"] != "switch":
            continue
        o = fa.origin(t["op"])
        neg = False
        if o[0] == "rv" and o[1]["k"] == "unop" and o[1]["op"] == "Not":
            o = fa.origin(o[1]["a"])
            neg = True
        if o[0] == "call" and "is_empty" in {strip_generics(x).rsplit("::", 1)[-1] for x in callee_paths(o[2])}:
            f_t, t_t = bool_switch_targets(t)
            nonempty_edge = t_t if neg else f_t
            guard = (b, eb in fa.reachable(nonempty_edge, avoid={t_t if not neg else f_t}), o)
            break
    ok1 = guard is not None and guard[1]
    src_ok = False
    if guard is not None:
        recv = show(S.operand(guard[2][2]["args"][0]))
        # the tested string must be the one the sentence is set from
        sent_calls = [t for b, t in fa.calls() if "set_sentence" in " ".join(callee_paths(t))]
        src_ok = bool(sent_calls) and show(S.operand(sent_calls[0]["args"][1])) == recv
    ctx.ob("FMT", "corpus|reader|empty-sentences-dropped", ok1 and src_ok, loc,
           "an Example is stored only on the non-empty edge of `input.is_empty()`, input being the "
           "text the sentence is set from" if ok1 and src_ok else
           "the Example is stored without testing that the sentence text is non-empty (or another "
           "string is tested): sentences with no tokens are not dropped")
    # (2) the pending list is renewed on every path from the EOS arm back to the loop header
    renew = set()
    for b, i, s in fa.stmts():
        if "lhs" in s and s["lhs"]["l"] == tok and not s["lhs"]["p"]:
            o = fa.origin(s["rv"]["op"]) if s["rv"]["k"] == "use" else ("?",)
            if o[0] == "call" and {strip_generics(x).rsplit("::", 1)[-1] for x in callee_paths(o[2])} & {"new", "default", "with_capacity", "from_elem"}:
                renew.add(b)
    for b, t in fa.calls():
        if {strip_generics(x).rsplit("::", 1)[-1] for x in callee_paths(t)} & {"clear", "take"} and t["args"]:
            a = E.ap_operand(fa, t["args"][0])
            from r_scorer import table_var as _tv2
            if (a is not None and a.root == ("local", tok) and not a.proj) or _tv2(fa, t["args"][0]) == tok:
                renew.add(b)
    if guard is None:
        return
    gb = guard[0]
    # the EOS arm: everything from the string test's dominator chain... take the block that
    # creates the sentence text (String::new) as the arm's start
    arm = None
    for b in sorted(fa.dominators().get(gb, ()), reverse=True):
        t = fa.term(b)
        if t["k"] == "call" and "String::new" in " ".join(strip_generics(x) for x in callee_paths(t)):
            arm = b
            break
    if arm is None:
        arm = gb
    # one trip round the line loop either appends a token or renews the list (the EOS arm, kept
    # or dropped, wherever in the arm the renewal stands)
    tok_pushes = set()
    from r_scorer import table_var as _tv3
    for pb, pt in calls_named(fa, "push"):
        if pt["args"] and _tv3(fa, pt["args"][0]) == tok:
            tok_pushes.add(pb)
    hs_ = fa.term(H).get("t")
    leak = H in fa.reachable(hs_, avoid=renew | tok_pushes) if hs_ is not None else True
    ctx.ob("FMT", "corpus|reader|pending-tokens-renewed", not leak and bool(renew), loc,
           "every path from the EOS line back to the next line replaces the pending token list "
           "(kept and dropped sentences alike)" if not leak and renew else
           "after an EOS line the pending token list can survive into the next sentence (e.g. when "
           "the sentence is dropped as empty): tokens of one sentence leak into the following one")
    # (3) malformed lines reach Err
    from flow import result_exits
    ok_b, err_b, _ = result_exits(fa)
    inv = [b for b, t in fa.calls() if "invalid_format" in " ".join(callee_paths(t))]
    ok3 = bool(inv) and all(not (fa.reachable(b) & ok_b) for b in inv)
    ctx.ob("FMT", "corpus|reader|malformed-line-is-error", ok3, loc,
           "the catch-all arm of the line match returns Err" if ok3 else
           "a malformed line does not lead to an Err return")

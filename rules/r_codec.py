"""CODEC / CONFIG / MAGIC / ERRPROP / WRITELEN / NOHASH: the binary image paths (C05, C09, C15)."""
import re

from effects import Effects
from facts import EngineError
from flow import result_exits, must_pass, calls_named, bool_switch_targets, value_defs, reach_const
from mir import AP, FnA, callee_of, callee_paths, op_place, op_const, strip_generics

ENC_TRAITS = ("bincode::Encode", "bincode::enc::Encode")
DEC_TRAITS = ("bincode::Decode", "bincode::de::Decode")
BDEC_TRAITS = ("bincode::BorrowDecode", "bincode::de::BorrowDecode")
ROOTS = {"C05": ["vibrato::dictionary::DictionaryInner"],
         "C15": ["vibrato::trainer::model::ModelData"]}


# fields that are deliberately not part of the image (one line of reason each)
DERIVED_FIELDS = {
    "vibrato::dictionary::connector::raw_connector::scorer::Scorer": {
        "bases_len": "cfg(avx2) only: broadcast of bases.len(), recomputed by decode",
        "checks_len": "cfg(avx2) only: broadcast of checks.len(), recomputed by decode",
    },
}

# ----------------------------------------------------------------------------------------
# wire type normalisation (facts about bincode 2.0.1 with Configuration<LittleEndian, Fixint>;
# trusted base, see DESIGN.md CODEC)

def split_top(s, sep=","):
    out, depth, cur = [], 0, ""
    for ch in s:
        if ch in "<([":
            depth += 1
        elif ch in ">)]":
            depth -= 1
        if ch == sep and depth == 0:
            out.append(cur.strip())
            cur = ""
        else:
            cur += ch
    if cur.strip():
        out.append(cur.strip())
    return out


SCALAR_EQ = {
    "vibrato::num::U31": "w32", "u32": "w32", "i32": "w32",
    "std::num::NonZero<u32>": "w32",
    "usize": "w64", "u64": "w64", "i64": "w64", "isize": "w64",
    "u16": "w16", "i16": "w16", "u8": "w8", "i8": "w8", "bool": "w8",
    "f64": "f64", "f32": "f32", "char": "char",
    "std::string::String": "seq<w8>", "str": "seq<w8>",
}


def norm_wire(ty):
    ty = ty.strip()
    while ty.startswith("&"):
        ty = ty[1:].strip()
        if ty.startswith("mut "):
            ty = ty[4:].strip()
        if ty.startswith("'"):
            ty = ty.split(" ", 1)[1].strip() if " " in ty else ty
    if ty in SCALAR_EQ:
        return SCALAR_EQ[ty]
    if ty.startswith("(") and ty.endswith(")"):
        parts = [norm_wire(x) for x in split_top(ty[1:-1])]
        if not parts:
            return "unit"
        if len(set(parts)) == 1 and len(parts) > 1:
            return "[%s;%d]" % (parts[0], len(parts))
        return "(" + ",".join(parts) + ")"
    if ty.startswith("[") and ty.endswith("]"):
        inner = ty[1:-1]
        if ";" in inner:
            el, n = inner.rsplit(";", 1)
            return "[%s;%s]" % (norm_wire(el), n.strip())
        return "seq<%s>" % norm_wire(inner)
    m = re.match(r"^([\w:]+)<(.*)>$", ty)
    if m:
        head, args = m.group(1), split_top(m.group(2))
        if head in ("std::vec::Vec", "alloc::vec::Vec", "std::collections::VecDeque"):
            return "seq<%s>" % norm_wire(args[0])
        if head.endswith("::HashMap") or head.endswith("::BTreeMap"):
            return "seq<(%s,%s)>" % (norm_wire(args[0]), norm_wire(args[1]))
        if head.endswith("::HashSet") or head.endswith("::BTreeSet"):
            return "seq<%s>" % norm_wire(args[0])
        if head in ("std::option::Option",):
            return "opt<%s>" % norm_wire(args[0])
        if head in ("std::boxed::Box",):
            return norm_wire(args[0])
        if head == "std::ops::Range":
            return "(%s,%s)" % (norm_wire(args[0]), norm_wire(args[0]))
        return "%s<%s>" % (head, ",".join(norm_wire(a) for a in args))
    return ty


def result_ok_type(ty):
    m = re.match(r"^std::result::Result<(.*)>$", ty)
    if not m:
        return None
    parts = split_top(m.group(1))
    return parts[0] if parts else None


# ----------------------------------------------------------------------------------------

def impl_fns(crate, traits, method):
    """{self adt path: Fn} for impl methods of the given traits."""
    out = {}
    for p, f in crate.fns.items():
        if f.j.get("impl_trait") in traits and f.name == method and f.body:
            adt = f.j.get("impl_self_adt")
            if adt:
                out[adt] = f
    return out


def codec_calls(fa, names):
    """Calls to Encode::encode / Decode::decode (trait method, any impl), in dominance order.
    Returns (ordered list of (block, term), is_chain)."""
    found = []
    for b, t in fa.calls():
        c = callee_of(t)
        if c is None:
            continue
        tr = c.get("trait") or ""
        nm = c.get("name")
        if nm in names and tr.startswith("bincode::"):
            found.append((b, t))
    dom = fa.dominators()
    found.sort(key=lambda x: len(dom[x[0]]))
    chain = all(fa.dominates(found[i][0], found[i + 1][0]) for i in range(len(found) - 1))
    return found, chain


def backward_fields(E, fa, op, depth=0, seen=None):
    """First-level fields of arg1 (self) the operand's value derives from, following moves,
    references, casts, aggregates and call arguments."""
    if seen is None:
        seen = set()
    out = set()
    pl = op_place(op)
    if pl is None:
        return out
    ap = E.ap_place(fa, pl)
    if ap.root == ("arg", 1):
        out.add(ap.proj[0] if ap.proj else "*")
        return out
    l = pl["l"]
    if l in seen or depth > 30:
        return out
    seen.add(l)
    for (b, kind, payload) in value_defs(fa, l):
        if kind == "call":
            for a in payload["args"]:
                out |= backward_fields(E, fa, a, depth + 1, seen)
        else:
            rv = payload
            for k in ("op", "a", "b"):
                if k in rv and isinstance(rv[k], dict):
                    out |= backward_fields(E, fa, rv[k], depth + 1, seen)
            if rv["k"] in ("ref", "rawptr", "discr"):
                out |= backward_fields(E, fa, {"c": rv["place"]}, depth + 1, seen)
            if rv["k"] == "agg":
                for o in rv["ops"]:
                    out |= backward_fields(E, fa, o, depth + 1, seen)
    return out


def backward_calls(fa, op, targets, depth=0, seen=None):
    """Blocks among `targets` (call blocks) the operand's value derives from."""
    if seen is None:
        seen = set()
    out = set()
    pl = op_place(op)
    if pl is None:
        return out
    l = pl["l"]
    if l in seen or depth > 40:
        return out
    seen.add(l)
    for (b, i, kind, payload) in fa.defs().get(l, []):
        if kind == "call":
            if b in targets:
                out.add(b)
            else:
                for a in payload["args"]:
                    out |= backward_calls(fa, a, targets, depth + 1, seen)
        elif kind == "assign":
            rv = payload
            for k in ("op", "a", "b"):
                if k in rv and isinstance(rv[k], dict):
                    out |= backward_calls(fa, rv[k], targets, depth + 1, seen)
            if rv["k"] in ("ref", "rawptr", "discr"):
                out |= backward_calls(fa, {"c": rv["place"]}, targets, depth + 1, seen)
            if rv["k"] == "agg":
                for o in rv["ops"]:
                    out |= backward_calls(fa, o, targets, depth + 1, seen)
    return out


def _array_loop(fa, b):
    """If the call at block b runs once per trip of `for x in [a, b, c] { .. }` (a loop over an
    array literal): (loop head block, the array's element operands), else None."""
    for hb, ht in fa.calls():
        if not any(strip_generics(x).endswith("::next") for x in callee_paths(ht)):
            continue
        sw = ht.get("t")
        st = fa.term(sw) if sw is not None else None
        if st is None or st["k"] != "switch":
            continue
        some_t = [tg for v, tg in zip(st["vals"], st["targets"]) if v == 1]
        none_t = [tg for v, tg in zip(st["vals"], st["targets"]) if v == 0] or [st["otherwise"]]
        if not some_t:
            continue
        body = fa.reachable(some_t[0], avoid={hb}) - fa.reachable(none_t[0], avoid={hb})
        if b not in body:
            continue
        if hb in fa.reachable(some_t[0], avoid={b}):
            return None                      # not on every trip
        cur = ht["args"][0]
        for _ in range(10):
            pl = op_place(cur)
            if pl is None:
                return None
            ds = [d for d in fa.defs().get(pl["l"], []) if d[2] != "partial"]
            if len(ds) != 1:
                return None
            d = ds[0]
            if d[2] == "call":
                nm = (callee_of(d[3]) or {}).get("name")
                if nm not in ("into_iter", "iter") or not d[3]["args"]:
                    return None
                cur = d[3]["args"][0]
            elif d[3]["k"] == "agg" and d[3].get("agg") == "array":
                return hb, d[3]["ops"]
            elif d[3]["k"] in ("use", "cast"):
                cur = d[3]["op"]
            elif d[3]["k"] == "ref":
                cur = {"c": d[3]["place"]}
            else:
                return None
        return None
    return None


def enc_sequence(E, f):
    fa = FnA(f)
    calls, chain = codec_calls(fa, ("encode",))
    unrolled = {}
    if not chain:
        # `for x in [&self.a, &self.b, &self.c] { x.encode(..)?; }`: one wire element per array
        # element, in the array's order
        pos = {}
        for b, t in calls:
            al = _array_loop(fa, b)
            if al is not None:
                unrolled[b] = al
            pos[b] = al[0] if al is not None else b
        dom = fa.dominators()
        order = sorted(calls, key=lambda x: len(dom[pos[x[0]]]))
        heads = [pos[b] for b, t in order]
        if len(set(heads)) == len(heads) and unrolled and \
                all(fa.dominates(heads[i], heads[i + 1]) for i in range(len(heads) - 1)):
            calls, chain = order, True
        else:
            unrolled = {}
    def leaves(op, depth=0):
        """element operands, in order, of a tuple / array value that is encoded as one value
        (`(&self.a, (&self.b, &self.c)).encode(..)`, `[x, y, z].encode(..)`); [op] otherwise"""
        pl = op_place(op)
        for _ in range(8):
            if pl is None or depth > 4:
                return [op]
            d = fa.single_def(pl["l"])
            if d is None or any(e != "*" for e in pl["p"]):
                return [op]
            if d[2] == "call":
                nm = (callee_of(d[3]) or {}).get("name")
                if nm == "map" and d[3]["args"] and "; " in (d[3].get("arg_tys") or [""])[0]:
                    inner = leaves(d[3]["args"][0], depth + 1)      # <[T; N]>::map is elementwise
                    return inner if len(inner) > 1 else [op]
                return [op]
            rv = d[3]
            if rv["k"] == "agg" and rv.get("agg") in ("tuple", "array"):
                out = []
                for o in rv["ops"]:
                    out.extend(leaves(o, depth + 1))
                return out
            if rv["k"] in ("use", "cast"):
                pl = op_place(rv["op"])
            elif rv["k"] in ("ref", "rawptr"):
                pl = rv["place"]
            else:
                return [op]
        return [op]
    seq = []
    for b, t in calls:
        ty = t["arg_tys"][0] if t.get("arg_tys") else "?"
        lv = leaves(t["args"][0]) if b not in unrolled else []
        if len(lv) > 1 and len({tuple(sorted(backward_fields(E, fa, o))) for o in lv}) > 1:
            # (elements that all come from one field - the lanes of a vector - stay one value)
            for o in lv:
                src = backward_fields(E, fa, o)
                seq.append({"wire": norm_wire(ty), "raw": ty, "fields": sorted(src), "at": fa.loc(b), "b": b,
                            "partial": None, "loose_wire": True})
            continue
        if b in unrolled:
            for o in unrolled[b][1]:
                src = backward_fields(E, fa, o)
                seq.append({"wire": norm_wire(ty), "raw": ty, "fields": sorted(src), "at": fa.loc(b), "b": b,
                            "partial": None, "loose_wire": True, "hb": unrolled[b][0]})
            continue
        src = backward_fields(E, fa, t["args"][0])
        seq.append({"wire": norm_wire(ty), "raw": ty, "fields": sorted(src), "at": fa.loc(b), "b": b,
                    "partial": _sub_range(fa, t["args"][0])})
    return seq, chain, fa


def _sub_range(fa, op):
    """Does the encoded value pass through an index with a proper range (`&self.table[..n]`),
    i.e. is only part of a field written? Returns a description or None."""
    pl = op_place(op)
    for _ in range(16):
        if pl is None:
            return None
        d = fa.single_def(pl["l"])
        if d is None:
            return None
        if d[2] == "call":
            t = d[3]
            nm = (callee_of(t) or {}).get("name")
            if nm in ("index", "index_mut", "get", "get_unchecked") and len(t["args"]) == 2:
                o = fa.origin(t["args"][1])
                if o[0] == "rv" and o[1]["k"] == "agg" and "ops::Range" in str(o[1].get("adt", "")) \
                        and not str(o[1].get("adt", "")).endswith("RangeFull"):
                    return str(o[1]["adt"]).rsplit("::", 1)[-1]
            if nm in ("split_at", "split_first", "split_last", "take", "skip", "truncate", "first", "last") \
                    and t["args"]:
                return nm
            if not t["args"]:
                return None
            pl = op_place(t["args"][0])
            continue
        rv = d[3]
        pl = op_place(rv["op"]) if rv["k"] in ("use", "cast") else rv.get("place") if rv["k"] in ("ref", "rawptr") else None
    return None


def dec_sequence(E, f, self_adt):
    fa = FnA(f)
    calls, chain = codec_calls(fa, ("decode", "borrow_decode"))
    blocks = {b for b, t in calls}
    seq = []
    for b, t in calls:
        ty = result_ok_type(t.get("dest_ty", "")) or "?"
        seq.append({"wire": norm_wire(ty), "raw": ty, "fields": set(), "at": fa.loc(b), "b": b})
    # destination fields: the aggregate of Self reached by the return value
    def element_path(op):
        """which element of a decoded tuple / array an operand is: indices from the outside in"""
        path = []
        pl = op_place(op)
        for _ in range(16):
            if pl is None:
                break
            for e in reversed(pl["p"]):
                if isinstance(e, dict) and e.get("o") == "(tuple)" and "f" in e:
                    path.append(e["f"])
                elif isinstance(e, dict) and "ci" in e and not e.get("from_end"):
                    path.append(e["ci"])
            d = fa.single_def(pl["l"])
            if d is None:
                break
            if d[2] == "call":
                # a conversion of the element (`vec.into_iter().collect()`), not the decode itself
                if d[0] in blocks or not d[3]["args"] or \
                        any("Try>::branch" in x or x.endswith("Try::branch") for x in callee_paths(d[3])):
                    if d[3]["args"] and d[0] not in blocks:
                        pl = op_place(d[3]["args"][0])
                        continue
                    break
                pl = op_place(d[3]["args"][0])
                continue
            if d[2] != "assign":
                break
            rv = d[3]
            if rv["k"] in ("use", "cast"):
                pl = op_place(rv["op"])
            elif rv["k"] in ("ref", "rawptr"):
                pl = rv["place"]
            elif rv["k"] == "agg" and rv.get("agg") == "adt" and len(rv.get("ops", [])) == 1:
                pl = op_place(rv["ops"][0])          # a newtype wrapped around the element
            else:
                break
        return tuple(reversed(path))
    agg_found = False
    elem = {}            # decode call block -> {element path -> set of fields}
    for b, i, s in fa.stmts():
        if "lhs" not in s:
            continue
        rv = s["rv"]
        if rv["k"] == "agg" and rv.get("agg") == "adt" and rv["adt"] == self_adt:
            agg_found = True
            for fname, o in zip(rv["fields"], rv["ops"]):
                for cb in backward_calls(fa, o, blocks):
                    for e in seq:
                        if e["b"] == cb:
                            e["fields"].add(fname)
                    elem.setdefault(cb, {}).setdefault(element_path(o), set()).add(fname)
    # a call that decodes a tuple / array whose elements go to different fields stands for one
    # wire value per element, in element order
    if any(len(m) > 1 for m in elem.values()):
        seq2 = []
        for e in seq:
            m = elem.get(e["b"], {})
            if len(m) > 1:
                for pth in sorted(m):
                    seq2.append(dict(e, fields=set(m[pth]), loose_wire=True))
            else:
                seq2.append(e)
        seq = seq2
    if not agg_found:
        for e in seq:
            e["fields"].add("*")
    for e in seq:
        e["fields"] = sorted(e["fields"])
    return seq, chain, fa


def fields_match(ef, df, nfields, all_encoded=()):
    if ef == df:
        return True
    # fields computed from a decoded value but never written (cfg-only caches such as
    # Scorer.bases_len) may accompany the decoded field
    if ef and set(ef) <= set(df) and not ((set(df) - set(ef)) & set(all_encoded)):
        return True
    if nfields == 1 and (ef == ["*"] or df == ["*"] or ef == ["0"] or df == ["0"]):
        return True
    if df == ["*"] or ef == ["*"]:
        return True
    return False


def hand_written(crate, trait_set):
    out = {}
    for imp in crate.impls:
        if imp.get("trait") in trait_set and imp.get("self_adt") and not imp.get("derive"):
            out[imp["self_adt"]] = imp
    return out


def codec_rule(ctx, prop):
    FA = ctx.facts("A")
    FB = ctx.facts("B")
    seqs = {}
    for cfg, F in (("A", FA), ("B", FB)):
        crate = F.lib
        E = Effects(crate)
        enc = impl_fns(crate, ENC_TRAITS, "encode")
        dec = impl_fns(crate, DEC_TRAITS, "decode")
        bdec = impl_fns(crate, BDEC_TRAITS, "borrow_decode")
        hw_enc = hand_written(crate, ENC_TRAITS)
        hw_dec = hand_written(crate, DEC_TRAITS)
        derived = [i for i in crate.impls if i.get("trait") in ENC_TRAITS + DEC_TRAITS
                   and i.get("derive")]
        ctx.count("CODEC", "derived impls (trusted) cfg " + cfg, len(derived))
        image = set()
        for root in ROOTS.get(prop, []):
            w = crate.walks.get(root)
            if w is None:
                raise EngineError("anchor lost: type walk of %s" % root)
            image |= {e.get("adt") for e in w["reached"] if e.get("adt")}
        hw = sorted(a for a in (set(hw_enc) | set(hw_dec)) if a in image
                    and (cfg == "A" or a.startswith("vibrato::")))
        if cfg == "A":
            ctx.floor("CODEC", "hand-written codecs", len(hw), 4 if prop == "C05" else 7)
        for adt in hw:
            fe, fd = enc.get(adt), dec.get(adt)
            loc = (fe or fd)
            locs = "%s:%s" % (loc.file, loc.line) if loc else adt
            if fe is None or fd is None:
                ctx.ob("CODEC", "%s|%s|both-impls" % (cfg, adt), False, locs,
                       "%s has a hand-written %s but no matching %s body to compare with"
                       % (adt, "Encode" if fe else "Decode", "Decode" if fe else "Encode"))
                continue
            es, echain, efa = enc_sequence(E, fe)
            ds, dchain, dfa = dec_sequence(E, fd, adt)
            seqs[(cfg, adt)] = (es, ds)
            ctx.listed("CODEC", "wire sequences", "%s %s: enc=%s dec=%s" % (
                cfg, adt.split("::")[-1], [(e["wire"], e["fields"]) for e in es],
                [(d["wire"], d["fields"]) for d in ds]))
            if not echain or not dchain:
                # loops / branches between the codec calls: the value-by-value comparison is out
                # of reach, but a field the encoder never even reads is not in the image
                read = set()

                def scan(x):
                    if isinstance(x, dict):
                        if "l" in x and "p" in x and isinstance(x["l"], int):
                            ap = E.ap_place(efa, x)
                            if ap is not None and ap.root == ("arg", 1) and ap.proj:
                                read.add(str(ap.proj[0]))
                            return
                        for k, v in x.items():
                            if k not in ("sp", "fn_sp", "func"):
                                scan(v)
                    elif isinstance(x, list):
                        for v in x:
                            scan(v)
                for bb in efa.blocks:
                    scan(bb["stmts"])
                    scan(bb["term"])
                missing = [fld for fld in (crate.fields(adt) if adt in crate.adts else [])
                           if fld not in read and fld not in DERIVED_FIELDS.get(adt, {})]
                for fld in missing:
                    ctx.ob("CODEC", "%s|%s|persisted|%s" % (cfg, adt, fld), False, locs,
                           "field `%s` of %s is not written by the encoder (it never reads it): after a "
                           "round trip it is recomputed or defaulted and can differ from the in-memory "
                           "value" % (fld, adt.split("::")[-1]))
                if not missing:
                    raise EngineError("CODEC: %s has a branching codec body (unsupported shape)" % adt)
                continue
            # every value is written / read on every successful path: an early `return Ok(..)`
            # between two codec calls leaves the stream out of phase with the other side
            for side, sq, sfa in (("encoder", es, efa), ("decoder", ds, dfa)):
                ok_b, err_b, _ = result_exits(sfa)
                skipped = [k for k, e in enumerate(sq) if "b" in e and
                           not all(sfa.dominates(e.get("hb", e["b"]), o) for o in ok_b)]
                ctx.ob("CODEC", "%s|%s|%s-all-paths" % (cfg, adt, side), not skipped, locs,
                       "%s: every successful path of the %s passes all %d codec calls"
                       % (adt.split("::")[-1], side, len(sq)) if not skipped else
                       "%s: the %s can return Ok without %s value(s) #%s - the other side still "
                       "writes/reads them, so the rest of the image is decoded out of phase"
                       % (adt.split("::")[-1], side, "reading" if side == "decoder" else "writing",
                          ",".join(map(str, skipped))))
            for k, e in enumerate(es):
                if e.get("partial"):
                    ctx.ob("CODEC", "%s|%s|whole-field|%d" % (cfg, adt, k), False, e["at"],
                           "%s value #%d: the encoder writes only part of field(s) %s (through %s): the "
                           "reloaded value is shorter than the one in memory, and what the missing part "
                           "meant is up to the reader's fallback" % (adt.split("::")[-1], k, e["fields"], e["partial"]))
            ok = len(es) == len(ds)
            ctx.ob("CODEC", "%s|%s|length" % (cfg, adt), ok, locs,
                   "%s: encoder writes %d values, decoder reads %d" % (adt.split("::")[-1],
                                                                      len(es), len(ds))
                   + ("" if ok else " - the image cannot round-trip"))
            nfields = len(crate.fields(adt)) if adt in crate.adts else 0
            for k, (e, d) in enumerate(zip(es, ds)):
                wok = e["wire"] == d["wire"] or e.get("loose_wire") or d.get("loose_wire")
                ctx.ob("CODEC", "%s|%s|wire|%d" % (cfg, adt, k), wok, d["at"],
                       "%s value #%d: encoder wire type %s %s decoder %s"
                       % (adt.split("::")[-1], k, e["raw"], "==" if wok else "!=", d["raw"]),
                       {"enc": e["wire"], "dec": d["wire"]})
                fok = fields_match(e["fields"], d["fields"], nfields,
                                   {x for ee in es for x in ee["fields"]})
                ctx.ob("CODEC", "%s|%s|field|%d" % (cfg, adt, k), fok, d["at"],
                       "%s value #%d: written from field(s) %s, read into field(s) %s"
                       % (adt.split("::")[-1], k, e["fields"], d["fields"])
                       + ("" if fok else " - encoder and decoder disagree on the field order"))
            # every field of the struct is persisted (or a declared derived cache)
            if adt in crate.adts:
                persisted = {x for ee in es for x in ee["fields"]}
                for fld in crate.fields(adt):
                    okf = fld in persisted or "*" in persisted or \
                        fld in DERIVED_FIELDS.get(adt, {})
                    ctx.ob("CODEC", "%s|%s|persisted|%s" % (cfg, adt, fld), okf, locs,
                           "field `%s` of %s is %s" % (
                               fld, adt.split("::")[-1],
                               "written to the image" if fld in persisted or "*" in persisted else
                               "a declared derived cache (%s)" % DERIVED_FIELDS[adt][fld]
                               if okf else
                               "not written by the encoder: after a round trip it is recomputed or "
                               "defaulted and can differ from the in-memory value"))
            # borrow decode sibling
            fb = bdec.get(adt)
            if fb is not None and not fb.j.get("sp", {}).get("exp"):
                bs, bchain, bfa = dec_sequence(E, fb, adt)
                bok = [x["wire"] for x in bs] == [x["wire"] for x in ds] and \
                      [x["fields"] for x in bs] == [x["fields"] for x in ds]
                ctx.ob("CODEC", "%s|%s|borrow-decode-sibling" % (cfg, adt), bok,
                       "%s:%s" % (fb.file, fb.line),
                       "BorrowDecode of %s reads the same sequence as Decode" % adt.split("::")[-1]
                       if bok else "BorrowDecode and Decode of %s disagree: %s vs %s"
                       % (adt, [(x["wire"], x["fields"]) for x in bs],
                          [(x["wire"], x["fields"]) for x in ds]))
    # cfg twins
    for (cfg, adt), (es, ds) in sorted(seqs.items()):
        if cfg != "A":
            continue
        other = seqs.get(("B", adt))
        if other is None:
            # not part of the AVX2 image closure (U31 lanes become __m256i) or a dependency's
            # codec (analysed in the default configuration only)
            continue
        same = [e["wire"] for e in es] == [e["wire"] for e in other[0]] and \
               [d["wire"] for d in ds] == [d["wire"] for d in other[1]] and \
               [e["fields"] for e in es] == [e["fields"] for e in other[0]]
        ctx.ob("CODEC", "twin|%s" % adt, same, adt,
               "wire sequence of %s is identical in the portable and the AVX2 build"
               % adt.split("::")[-1] if same else
               "the portable and AVX2 builds of %s write different images: %s vs %s"
               % (adt, [(e["wire"], e["fields"]) for e in es],
                  [(e["wire"], e["fields"]) for e in other[0]]))
    ctx.assume("bincode_derive generates symmetric Encode/Decode for derived impls; bincode "
               "2.0.1 wire facts (fixint widths, arrays/tuples without length prefix, maps and "
               "vectors as length-prefixed sequences) as listed in rules/r_codec.py")


def scorer_guard(ctx):
    """Decoder-side consistency check of the parallel arrays (checks.len() == costs.len())."""
    for cfg in ("A", "B"):
        crate = ctx.facts(cfg).lib
        E = Effects(crate)
        dec = impl_fns(crate, DEC_TRAITS, "decode")
        adt = "vibrato::dictionary::connector::raw_connector::scorer::Scorer"
        f = dec.get(adt)
        if f is None:
            raise EngineError("anchor lost: Decode for Scorer")
        fa = FnA(f)
        ok_b, err_b, _ = result_exits(fa)
        good = False
        for b in sorted(fa.live_blocks()):
            t = fa.term(b)
            if t["k"] != "switch":
                continue
            o = fa.origin(t["op"])
            if o[0] != "rv" or o[1]["k"] != "binop" or o[1]["op"] not in ("Eq", "Ne"):
                continue
            names = []
            for opnd in (o[1]["a"], o[1]["b"]):
                oo = fa.origin(opnd)
                if oo[0] == "place" and op_place(opnd) is not None:
                    # a member of `(checks.len(), costs.len())`, possibly through copies of the member
                    from mir import through_aggregates
                    pl_ = op_place(opnd)
                    for _ in range(4):
                        d_ = fa.single_def(pl_["l"]) if not pl_["p"] else None
                        if d_ and d_[2] == "assign" and d_[3]["k"] == "use" and op_place(d_[3]["op"]) is not None:
                            pl_ = op_place(d_[3]["op"])
                        else:
                            break
                    oo = fa.origin(through_aggregates(fa, pl_))
                if oo[0] == "call" and any(p.endswith("::len") for p in
                                           [strip_generics(x) for x in callee_paths(oo[2])]):
                    names.append(named_local_of(fa, oo[2]["args"][0]))
            if sorted(x or "" for x in names) != ["checks", "costs"]:
                continue
            f_t, t_t = bool_switch_targets(t)
            mismatch = f_t if o[1]["op"] == "Eq" else t_t
            r = fa.reachable(mismatch)
            if not (r & ok_b):
                good = True
        ctx.ob("CODEC-GUARD", "%s|Scorer::decode|checks-costs-same-length" % cfg, good,
               "%s:%s" % (f.file, f.line),
               "Scorer::decode rejects images whose `checks` and `costs` arrays differ in length"
               if good else "Scorer::decode no longer rejects `checks`/`costs` of different length: "
               "a crafted or damaged image leads to out-of-range reads of `costs` (unchecked "
               "gather in the AVX2 build)")


def config_rule(ctx):
    n = 0
    for cname, crate in sorted(ctx.facts("A").crates.items()):
        for p, f in sorted(crate.fns.items()):
            if not f.body:
                continue
            fa = FnA(f)
            for b, t in fa.calls():
                ps = [strip_generics(x) for x in callee_paths(t)]
                if not any(x in ("bincode::encode_into_std_write", "bincode::decode_from_std_read",
                                 "bincode::encode_to_vec", "bincode::decode_from_slice",
                                 "bincode::encode_into_slice", "bincode::borrow_decode_from_slice")
                           for x in ps):
                    continue
                n += 1
                cfg_arg = t["args"][-1]
                o = fa.origin(cfg_arg)
                ok = o[0] == "call" and any(
                    x == "vibrato::common::bincode_config" for x in callee_paths(o[2]))
                ctx.ob("CONFIG", "%s|%s" % (p, ps[0]), ok, fa.loc(b),
                       "%s in %s takes its configuration from common::bincode_config()"
                       % (ps[0].split("::")[-1], p.split("::")[-1]) if ok else
                       "%s in %s uses a configuration that does not come from "
                       "common::bincode_config(): writer and reader can drift apart" % (ps[0], p))
    ctx.floor("CONFIG", "bincode entry calls", n, 4)
    # the configuration itself
    f = ctx.facts("A").lib.fn("vibrato::common::bincode_config")
    want = "bincode::config::Configuration<bincode::config::LittleEndian, bincode::config::Fixint>"
    got = f.j.get("output", "")
    ctx.ob("CONFIG", "bincode_config|type", got.replace(" ", "") == want.replace(" ", ""),
           "%s:%s" % (f.file, f.line),
           "bincode_config() returns %s (the wire-type table assumes little-endian fixed-int)" % got)


def nohash_rule(ctx, root):
    crate = ctx.facts("A").lib
    w = crate.walks.get(root)
    if w is None:
        raise EngineError("anchor lost: type walk of %s" % root)
    bad = [e for e in w["reached"] if "Hash" in e["flags"]]
    ctx.ob("NOHASH", "%s|no-hash-containers" % root, not bad, "type closure of " + root,
           "no HashMap/HashSet in the image of %s (%d types): the encoded bytes do not depend on "
           "hash iteration order" % (root.split("::")[-1], len(w["reached"])) if not bad else
           "hash container %s (via %s) inside %s: writing the reloaded value need not reproduce "
           "the same bytes" % (bad[0]["ty"], bad[0]["via"], root))


def magic_rule(ctx):
    crate = ctx.facts("A").lib
    E = Effects(crate)
    P_RC = "vibrato::dictionary::Dictionary::read_common"
    P_W = "vibrato::dictionary::Dictionary::write"
    fa = E.fa(P_RC)
    ok_b, err_b, other = result_exits(fa)
    dec_calls = [(b, t) for b, t in fa.calls()
                 if any(strip_generics(x).startswith("bincode::decode") for x in callee_paths(t))]
    if len(dec_calls) != 1:
        raise EngineError("MAGIC: expected one bincode decode call in read_common")
    db = dec_calls[0][0]
    # comparison of the buffer filled by read_exact with a constant
    re_calls = [(b, t) for b, t in fa.calls()
                if any(x.endswith("Read::read_exact") for x in callee_paths(t))]
    ctx.ob("MAGIC", "%s|read_exact" % P_RC, len(re_calls) == 1, fa.loc(0),
           "the magic header is read with read_exact (a short read is an error, not a partial "
           "match)" if len(re_calls) == 1 else
           "read_common does not read the header with exactly one read_exact: a reader that "
           "returns the header in pieces would be rejected or a short header accepted")
    # the bytes are taken from the caller's reader itself: a buffering wrapper created here reads
    # ahead of the image and throws away what follows it in the stream (a second image, a trailer)
    wrapped = []
    for b0, t0 in list(re_calls) + dec_calls:
        cur, hops = t0["args"][0] if t0 in [x[1] for x in re_calls] else t0["args"][-2] if len(t0["args"]) >= 2 else t0["args"][0], 0
        while hops < 8:
            hops += 1
            o0 = fa.origin(cur)
            if o0[0] == "call":
                n0 = {strip_generics(x).rsplit("::", 1)[-1] for x in callee_paths(o0[2])}
                if any("BufReader" in x for x in callee_paths(o0[2])) and n0 & {"new", "with_capacity"}:
                    wrapped.append("%s at %s" % (sorted(n0)[0], fa.loc(o0[1])))
                    break
                if not o0[2]["args"]:
                    break
                cur = o0[2]["args"][0]
                continue
            break
    ctx.ob("MAGIC", "%s|reads-the-callers-reader" % P_RC, not wrapped, fa.loc(0),
           "the header and the image are read from the caller's reader itself" if not wrapped else
           "read_common reads through a wrapper it creates (%s): a buffering reader takes more from the "
           "caller's stream than the image holds, so what follows the image is lost and `read` no longer "
           "consumes what `write` produced" % ", ".join(sorted(set(wrapped))))
    buf_ap = E.ap_operand(fa, re_calls[0][1]["args"][1]) if re_calls else None
    magic_const = None
    cmp_ok = False
    why = "no comparison of the header buffer with the magic constant dominates decoding"
    for b in sorted(fa.live_blocks()):
        t = fa.term(b)
        if t["k"] != "switch":
            continue
        o = fa.origin(t["op"])
        call = None
        if o[0] == "call":
            call = o[2]
        if call is None:
            continue
        ps = [strip_generics(x) for x in callee_paths(call)]
        is_ne = any(x.endswith("::ne") for x in ps)
        is_eq = any(x.endswith("::eq") for x in ps)
        if not (is_ne or is_eq) or len(call["args"]) != 2:
            continue
        aps = [E.ap_operand(fa, a) for a in call["args"]]
        consts = []
        for a in call["args"]:
            oo = fa.origin(a)
            if oo[0] == "const":
                consts.append(oo[1])
            elif oo[0] == "place":
                pass
        if buf_ap is None or buf_ap not in aps:
            continue
        # the other operand: constant bytes (MODEL_MAGIC)
        for a in call["args"]:
            k = find_const(fa, a)
            if k is not None and ("bytes" in k or "uneval" in k):
                magic_const = k
        f_t, t_t = bool_switch_targets(t)
        mismatch = t_t if is_ne else f_t
        # what the mismatch edge can reach, following an `Err(..)` built there through `?`
        # (the comparison may sit in an expanded helper that returns Result<()>)
        r = reach_const(fa, mismatch)
        if (r & ok_b) or db in r:
            why = "the mismatch branch of the magic comparison still reaches decoding / Ok"
            continue
        if not fa.dominates(b, db) and db in reach_const(fa, 0, avoid={b}):
            why = "decoding is not dominated by the magic comparison"
            continue
        if not any(fa.dominates(rb, b) for rb, _ in re_calls):
            why = "the comparison happens before the header is read"
            continue
        cmp_ok = True
        # the rejection itself must not be able to panic: the header bytes of a foreign stream are
        # arbitrary (not UTF-8, not of any particular form), so nothing on the way to the Err may
        # unwrap a result computed from them
        risky = []
        for rb in sorted(r):
            rt = fa.term(rb)
            if rt["k"] != "call":
                continue
            rn = {strip_generics(x).rsplit("::", 1)[-1] for x in callee_paths(rt)}
            if rn & {"unwrap", "expect", "unwrap_unchecked", "index", "from_utf8_unchecked"} and \
                    not (rt.get("sp") or {}).get("exp"):
                risky.append("%s at %s" % (sorted(rn)[0], fa.loc(rb)))
        ctx.ob("MAGIC", "%s|rejection-cannot-panic" % P_RC, not risky, fa.loc(b),
               "the path from a header mismatch to the error has no unwrap / index of its own" if not risky else
               "rejecting a foreign header goes through %s: a stream whose first bytes are not of the "
               "expected form (not UTF-8, ..) makes Dictionary::read panic instead of returning an error"
               % ", ".join(risky))
    ctx.ob("MAGIC", "%s|compare-dominates-decode" % P_RC, cmp_ok, fa.loc(db),
           "decoding is dominated by the branch that found the header equal to MODEL_MAGIC; "
           "a mismatch reaches only Err" if cmp_ok else
           "foreign images are not rejected before decoding (%s)" % why)
    # the writer emits the same constant before encoding
    fw = E.fa(P_W)
    wa = [(b, t) for b, t in fw.calls() if any(x.endswith("Write::write_all") for x in callee_paths(t))]
    enc = [(b, t) for b, t in fw.calls()
           if any(strip_generics(x).startswith("bincode::encode") for x in callee_paths(t))]
    same = False
    wconst = None
    if len(wa) == 1 and len(enc) == 1:
        wconst = find_const(fw, wa[0][1]["args"][1])
        if wconst is not None and magic_const is not None:
            same = const_id(wconst) == const_id(magic_const)
        before = fw.dominates(wa[0][0], enc[0][0])
    else:
        before = False
    ctx.ob("MAGIC", "%s|writes-same-magic-first" % P_W, same and before, fw.loc(0),
           "Dictionary::write emits the constant the reader compares with, before the encoded "
           "body" if same and before else
           "writer and reader disagree on the magic header (writer %s, reader %s) or the header "
           "is not written first" % (const_id(wconst) if wconst else None,
                                     const_id(magic_const) if magic_const else None))
    # WRITELEN
    ok_w, _, _ = result_exits(fw)
    wl = False
    for b in ok_w:
        for s in fw.blocks[b]["stmts"]:
            if "lhs" in s and s["lhs"]["l"] == 0 and s["rv"]["k"] == "agg":
                o = fw.origin(s["rv"]["ops"][0])
                # expect Add(len(MAGIC), n) through the overflow check tuple
                wl = is_len_plus_encoded(fw, s["rv"]["ops"][0], enc[0][0] if enc else None,
                                         wconst)
    ctx.ob("WRITELEN", "%s|returns-magic-plus-body" % P_W, wl, fw.loc(0),
           "write returns len(MODEL_MAGIC) + the byte count reported by the encoder" if wl else
           "the value returned by Dictionary::write is not len(magic) + encoded bytes")
    # who may construct Dictionary
    DICT = "vibrato::dictionary::Dictionary"
    allowed = {"vibrato::dictionary::builder::SystemDictionaryBuilder::build",
               "vibrato::dictionary::Dictionary::read"}
    n = 0
    for p, f in sorted(crate.fns.items()):
        if not f.body or f.krate != "vibrato":
            continue
        for bb in f.blocks:
            for s in bb["stmts"]:
                if "lhs" in s and s["rv"]["k"] == "agg" and s["rv"].get("adt") == DICT:
                    n += 1
                    ok = p in allowed or (f.j.get("impl_trait") in DEC_TRAITS
                                          and "TrainerConfig" in (f.j.get("impl_self_adt") or ""))
                    ctx.ob("MAGIC", "constructs-Dictionary|%s" % p, ok,
                           "%s:%s" % (s["sp"]["file"], s["sp"]["line"]),
                           "`Dictionary { data }` is constructed in %s (%s)" % (
                               p.split("::")[-1], "verified construction point" if ok else
                               "outside build/read/TrainerConfig::decode: a dictionary could be "
                               "made from unverified data"))
    ctx.floor("MAGIC", "Dictionary construction sites", n, 3)


def named_local_of(fa, op, depth=0):
    """Debug name of the user variable an operand refers to (through refs and moves)."""
    pl = op_place(op)
    if pl is None or depth > 10:
        return None
    names = fa.fn.local_names()
    if pl["l"] in names:
        return names[pl["l"]]
    d = fa.single_def(pl["l"])
    if d is None or d[2] != "assign":
        return None
    rv = d[3]
    if rv["k"] == "ref":
        return named_local_of(fa, {"c": rv["place"]}, depth + 1)
    if rv["k"] == "use":
        return named_local_of(fa, rv["op"], depth + 1)
    return None


def find_const(fa, op, depth=0):
    """Trace an operand to a constant (through refs, unsizing casts, deref of promoteds)."""
    if depth > 12:
        return None
    k = op_const(op)
    if k is not None:
        return k
    pl = op_place(op)
    if pl is None:
        return None
    d = fa.single_def(pl["l"])
    if d is None:
        return None
    b, i, kind, payload = d
    if kind != "assign":
        return None
    rv = payload
    if rv["k"] in ("use", "cast"):
        return find_const(fa, rv["op"], depth + 1)
    if rv["k"] == "ref":
        return find_const(fa, {"c": {"l": rv["place"]["l"], "p": []}}, depth + 1)
    return None


def const_id(k):
    if k is None:
        return None
    if "bytes" in k:
        return "bytes:" + bytes(k["bytes"]).hex()
    if "uneval" in k:
        return "const:" + k["uneval"] + (":p%s" % k["promoted"] if "promoted" in k else "")
    if "str" in k:
        return "str:" + k["str"]
    return k.get("dbg")


def is_len_plus_encoded(fa, op, enc_block, wconst):
    """value == Add(len(constant), result of the encode call)."""
    o = fa.origin(op)
    if o[0] == "place":
        # (_x.0 of an AddWithOverflow tuple)
        ap = o[1]
        if ap.root[0] == "local":
            d = fa.single_def(ap.root[1])
            if d and d[2] == "assign" and d[3]["k"] == "binop" and d[3]["op"].startswith("Add"):
                o = ("rv", d[3], d[0], d[1])
    if o[0] != "rv" or o[1]["k"] != "binop" or not o[1]["op"].startswith("Add"):
        return False
    sides = [fa.origin(o[1]["a"]), fa.origin(o[1]["b"])]
    has_enc = False
    has_len = False
    for s in sides:
        if s[0] == "call":
            ps = [strip_generics(x) for x in callee_paths(s[2])]
            if any(x.endswith("::len") for x in ps):
                k = find_const(fa, s[2]["args"][0])
                if k is not None and (wconst is None or const_id(k) == const_id(wconst)):
                    has_len = True
        if s[0] == "place" and s[1].root[0] == "call":
            # value of `?` applied to the encode call
            b = s[1].root[1]
            t = fa.term(b)
            if any("Try::branch" in x for x in callee_paths(t)):
                oo = fa.origin(t["args"][0])
                if oo[0] == "call" and oo[1] == enc_block:
                    has_enc = True
        if s[0] == "const" and "int" in s[1]:
            has_len = True  # constant-folded length
    return has_enc and has_len


def _kept_by_predicate(crate, fa, t):
    """`item.as_ref().map_or(true, ..)` inside the predicate closure of `filter` / `take_while`:
    the item is only looked at through a borrow, an error item answers `true`, so it is kept (or
    the iteration continues) and whoever consumes the items still sees the error."""
    o = fa.origin(t["args"][0])
    if not (o[0] == "call" and any(strip_generics(x).endswith(("Result::as_ref", "Result::as_deref")) for x in callee_paths(o[2]))):
        return False
    k = op_const(t["args"][1]) if len(t["args"]) > 1 else None
    if not (k is not None and k.get("ty") == "bool" and k.get("int") == 1):
        return False
    par = fa.fn.j.get("closure_of")
    if not par or par not in crate.fns or not crate.fns[par].body:
        return False
    pfa = FnA(crate.fns[par])
    for b0, i0, s0 in pfa.stmts():
        rv0 = s0.get("rv") or {}
        if rv0.get("k") == "agg" and rv0.get("agg") == "closure" and rv0.get("closure") == fa.fn.path:
            cl = s0["lhs"]["l"]
            for b1, t1 in pfa.calls():
                if any((op_place(a) or {}).get("l") == cl for a in t1["args"][1:]):
                    nm1 = {strip_generics(x).rsplit("::", 1)[-1] for x in callee_paths(t1)}
                    return bool(nm1 & {"filter", "take_while"})
    return False


def errprop_rule(ctx, fn_pred, label, cfgs=("A", "B"), floor=10):
    """Every fallible call (Result of DecodeError / io::Error / VibratoError) in the selected
    functions is consumed by `?` or returned; never dropped, `.ok()`-ed or defaulted."""
    ERR_TYS = ("bincode::error::DecodeError", "std::io::Error", "vibrato::errors::VibratoError",
               "bincode::error::EncodeError", "std::num::ParseIntError", "std::num::ParseFloatError",
               "std::str::Utf8Error", "std::num::TryFromIntError", "std::string::FromUtf8Error")
    n = 0
    for cfg in cfgs:
        crate = ctx.facts(cfg).lib
        for p, f in sorted(crate.fns.items()):
            if not f.body or not fn_pred(f):
                continue
            fa = FnA(f)
            for b, t in fa.calls():
                dty = t.get("dest_ty", "")
                if not dty.startswith("std::result::Result<") or not any(e in dty for e in ERR_TYS):
                    continue
                ps = [strip_generics(x) for x in callee_paths(t)]
                if any("Try::branch" in x or "from_residual" in x for x in ps):
                    continue
                if any(x.endswith(("Result::as_ref", "Result::as_mut", "Result::as_deref")) for x in ps):
                    continue        # a borrowed view of a Result: what is done with it is judged below
                n += 1
                dest = t["dest"]
                ok = False
                how = "dropped"
                if dest["l"] == 0 and not dest["p"]:
                    ok, how = True, "returned"
                else:
                    # the value may be handed on by plain moves (the return slot of an expanded
                    # helper / closure, a `let r = ..;`) before it is consumed
                    alias = [dest["l"]]
                    for l0 in alias:
                        for bb2, i2, s2 in fa.stmts():
                            if "lhs" in s2 and not s2["lhs"]["p"] and s2["rv"]["k"] == "use":
                                pl = op_place(s2["rv"]["op"])
                                if pl and pl["l"] == l0 and not pl["p"] and s2["lhs"]["l"] not in alias:
                                    alias.append(s2["lhs"]["l"])
                            # wrapped whole into `Some(..)` (`opt.map(|r| fallible(r))` written out):
                            # the Option carries the Result on, e.g. into `transpose()?`
                            if "lhs" in s2 and not s2["lhs"]["p"] and s2["rv"]["k"] == "agg" and \
                                    s2["rv"].get("variant") == "Some" and len(s2["rv"]["ops"]) == 1:
                                pl = op_place(s2["rv"]["ops"][0])
                                if pl and pl["l"] == l0 and not pl["p"] and s2["lhs"]["l"] not in alias:
                                    alias.append(s2["lhs"]["l"])
                    if 0 in alias:
                        ok, how = True, "returned"
                    uses = [u for l0 in alias for u in uses_of_local(fa, l0)]
                    for (ub, ut, idx) in uses:
                        ups = [strip_generics(x) for x in callee_paths(ut)] if ut["k"] == "call" else []
                        if any("Try::branch" in x for x in ups):
                            ok, how = True, "?"
                        elif any(x.endswith("Result::unwrap") or x.endswith("Result::expect")
                                 or x.endswith("Result::unwrap_unchecked") for x in ups):
                            # not swallowed: a panic site, audited by PANIC
                            ok, how = True, "unwrap (audited by PANIC)"
                        elif any(x.endswith("Result::map_err") or x.endswith("Result::map")
                                 or x.endswith("Result::and_then") for x in ups):
                            # converted, must then be consumed by ? (checked at that call)
                            ok, how = True, "converted"
                        elif ups:
                            how = ups[0].rsplit("::", 1)[-1]
                    if not ok:
                        # matched on: the discriminant of the result is inspected
                        for bb2, i2, s2 in fa.stmts():
                            if "rv" in s2 and s2["rv"]["k"] == "discr" and s2["rv"]["place"]["l"] in alias:
                                ok, how = True, "match"
                    if not uses:
                        # moved into _0 via assignment?
                        for bb2, i2, s2 in fa.stmts():
                            if "lhs" in s2 and s2["lhs"]["l"] == 0 and s2["rv"]["k"] == "use":
                                pl = op_place(s2["rv"]["op"])
                                if pl and pl["l"] == dest["l"]:
                                    ok, how = True, "returned"
                ctx.ob("ERRPROP", "%s|%s|%s" % (cfg, p, ps[0] if ps else "?"), ok, fa.loc(b),
                       "%s: result of %s is propagated (%s)" % (p.split("::")[-1],
                                                              (ps[0] if ps else "?").split("::")[-1], how)
                       if ok else
                       "%s: error of %s is swallowed (%s): a truncated or damaged stream would be "
                       "accepted with default/partial data instead of being rejected"
                       % (p, ps[0] if ps else "?", how))
            # a Result that arrives as a value (closure parameter, iterator item) and is
            # discarded by a combinator: `.ok()`, `unwrap_or*`, `is_ok()`, `flatten()` ...
            for b, t in fa.calls():
                ps = [strip_generics(x) for x in callee_paths(t)]
                nm = ps[0].rsplit("::", 1)[-1] if ps else ""
                if not any("result::Result" in x for x in ps) or \
                        nm not in ("ok", "unwrap_or", "unwrap_or_default", "unwrap_or_else", "is_ok",
                                   "is_err", "err", "iter", "into_iter", "map_or", "map_or_else"):
                    continue
                pl = op_place(t["args"][0]) if t["args"] else None
                ty = fa.fn.locals[pl["l"]]["ty"] if pl else ""
                if not any(e in ty for e in ERR_TYS):
                    continue
                if nm == "map_or" and _kept_by_predicate(crate, fa, t):
                    ctx.ob("ERRPROP", "%s|%s|view:%s" % (cfg, p, nm), True, fa.loc(b),
                           "%s: a borrowed view of the item is tested and an error item passes the "
                           "test (default true): it stays in the iteration and is reported by its "
                           "consumer" % p)
                    continue
                ctx.ob("ERRPROP", "%s|%s|discard:%s" % (cfg, p, nm), False, fa.loc(b),
                       "%s: an error value (%s) is discarded with `.%s()`: the failure (unreadable "
                       "line, truncated stream, malformed number) is silently turned into absence "
                       "or a default" % (p, ty.split("<", 1)[-1][:60], nm))
            # ... or by handing a discarding function to an adaptor (`map_while(Result::ok)`,
            # `filter_map(Result::ok)`), or by flattening an iterator of io::Result items
            # (`lines().flatten()`): the iteration silently stops or skips at the first error
            for b, t in fa.calls():
                for a in t["args"]:
                    k = op_const(a)
                    fnp = (k or {}).get("fn", {}).get("path") if k else None
                    if fnp and "result::Result" in fnp and fnp.rsplit("::", 1)[-1] in (
                            "ok", "unwrap_or_default", "is_ok", "err", "into_iter", "iter"):
                        ctx.ob("ERRPROP", "%s|%s|discard-fn:%s" % (cfg, p, fnp.rsplit("::", 1)[-1]), False, fa.loc(b),
                               "%s: `Result::%s` is handed to %s: an error item (unreadable or "
                               "malformed line) silently ends or thins the iteration instead of being "
                               "reported" % (p, fnp.rsplit("::", 1)[-1],
                                             ([strip_generics(x) for x in callee_paths(t)] or ["?"])[0].rsplit("::", 1)[-1]))
                ps = [strip_generics(x) for x in callee_paths(t)]
                nm = ps[0].rsplit("::", 1)[-1] if ps else ""
                if nm in ("flatten", "flat_map", "filter_map", "map_while") and t["args"]:
                    pl = op_place(t["args"][0])
                    ty = fa.fn.locals[pl["l"]]["ty"] if pl else ""
                    if nm == "flatten" and ("io::Lines<" in ty or "io::Split<" in ty or "io::Bytes<" in ty):
                        ctx.ob("ERRPROP", "%s|%s|discard-fn:flatten" % (cfg, p), False, fa.loc(b),
                               "%s: an iterator of io::Result items is flattened: a read error "
                               "silently skips the item instead of being reported" % p)
    ctx.floor("ERRPROP", "fallible calls on the %s path" % label, n, floor)


def errprop_corpus(ctx):
    """ERRPROP on the corpus reader/writer (C19: malformed or unreadable lines are errors)."""
    errprop_rule(ctx, lambda f: "trainer::corpus::" in f.path and f.krate == "vibrato", "corpus",
                 cfgs=("A",), floor=2)


def uses_of_local(fa, local):
    out = []
    for b in sorted(fa.live_blocks()):
        t = fa.term(b)
        if t["k"] == "call":
            for idx, a in enumerate(t["args"]):
                pl = op_place(a)
                if pl is not None and pl["l"] == local and not pl["p"]:
                    out.append((b, t, idx))
    return out


def is_read_path(f):
    p = f.path
    if p in ("vibrato::dictionary::Dictionary::read", "vibrato::dictionary::Dictionary::read_common",
             "vibrato::trainer::model::Model::read_model"):
        return True
    if f.j.get("impl_trait") in DEC_TRAITS + BDEC_TRAITS and f.krate == "vibrato" \
            and not f.j.get("derive"):
        return True
    return False


def range_rule(ctx):
    """The decoder of U31 validates through U31::new; every U31 constant the crate writes into
    images must be accepted by that predicate."""
    for cfg in ("A", "B"):
        crate = ctx.facts(cfg).lib
        E = Effects(crate)
        p = "vibrato::num::U31::new"
        fa = E.fa(p)
        bound = None
        for b in sorted(fa.live_blocks()):
            t = fa.term(b)
            if t["k"] != "switch":
                continue
            o = fa.origin(t["op"])
            if o[0] == "rv" and o[1]["k"] == "binop" and o[1]["op"] in ("Le", "Lt"):
                a = fa.origin(o[1]["a"])
                c = None
                ob = fa.origin(o[1]["b"])
                if ob[0] == "const":
                    c = ob[1].get("int")
                elif ob[0] == "call" and ob[2]["args"]:
                    k = find_const(fa, ob[2]["args"][0])
                    c = k.get("int") if k else None
                if a[0] == "arg" and c is not None:
                    bound = c if o[1]["op"] == "Le" else c - 1
        if bound is None:
            raise EngineError("CODEC-RANGE: cannot read the bound U31::new accepts")
        consts = set()
        for q, f in crate.fns.items():
            if not f.body or f.krate != "vibrato":
                continue
            for bb in f.blocks:
                for st in bb["stmts"]:
                    rv = st.get("rv")
                    if not rv:
                        continue
                    ops = [rv.get("op"), rv.get("a"), rv.get("b")] + list(rv.get("ops", []))
                    for o in ops:
                        if isinstance(o, dict) and "k" in o and o["k"].get("ty") == "vibrato::num::U31" \
                                and "int" in o["k"]:
                            consts.add(o["k"]["int"])
                t = bb["term"]
                if t["k"] == "call":
                    for o in t["args"]:
                        if "k" in o and o["k"].get("ty") in ("vibrato::num::U31", "&vibrato::num::U31") \
                                and "int" in o["k"]:
                            consts.add(o["k"]["int"])
        # the decoder validates through U31::new: it hands the decoded integer to U31::new and
        # builds no U31 itself; a decoder with a test of its own must accept exactly 0..=bound
        decs = [q for q, f in crate.fns.items() if f.body and f.j.get("impl_trait") in (
                    "bincode::Decode", "bincode::de::Decode", "bincode::BorrowDecode", "bincode::de::BorrowDecode")
                and str(f.j.get("impl_self_ty", "")) == "vibrato::num::U31"]
        ctx.floor("CODEC-RANGE", "decoders of U31 (cfg %s)" % cfg, len(decs), 1)
        for q in sorted(decs):
            qa = E.fa(q)
            builds = [(b, s0) for b, i, s0 in qa.stmts()
                      if "rv" in s0 and s0["rv"]["k"] == "agg" and s0["rv"].get("adt") == "vibrato::num::U31"]
            news = [(b, t) for b, t in qa.calls()
                    if any(strip_generics(x) == "vibrato::num::U31::new" for x in callee_paths(t))]
            inner = [(b, t) for b, t in qa.calls()
                     if any(strip_generics(x).endswith(("Decode::decode", "BorrowDecode::borrow_decode"))
                            for x in callee_paths(t))]
            if not builds:
                # directly, or by delegating to the other decoder of U31
                okd = bool(news) or any("U31" in (t.get("dest_ty") or "") for b, t in inner)
                ctx.ob("CODEC-RANGE", "%s|%s|validates-through-U31::new" % (cfg, q), okd, qa.loc(0),
                       "the decoded integer becomes a U31 only through U31::new (values above %d are "
                       "rejected, everything else is accepted)" % bound if okd else
                       "the decoder of U31 neither calls U31::new nor builds a U31")
                continue
            # its own test: the comparisons of the decoded integer with constants on the way to
            # the construction
            lo, hi, unknown = 0, (1 << 32) - 1, []
            for b, s0 in builds:
                for gb in sorted(qa.dominators().get(b, ())):
                    gt = qa.term(gb)
                    if gt["k"] != "switch" or gb == b:
                        continue
                    o = qa.origin(gt["op"])
                    if o[0] == "rv" and o[1]["k"] == "discr":
                        continue              # the `?` on the inner decode
                    f_t, t_t = bool_switch_targets(gt)
                    truth = True if b in qa.reachable(t_t, avoid={gb}) and b not in qa.reachable(f_t, avoid={gb}) else \
                        False if b in qa.reachable(f_t, avoid={gb}) and b not in qa.reachable(t_t, avoid={gb}) else None
                    if o[0] == "rv" and o[1]["k"] == "unop" and o[1]["op"] == "Not":
                        o = qa.origin(o[1]["a"])
                        truth = None if truth is None else not truth
                    if o[0] == "call" and (callee_of(o[2]) or {}).get("name") == "contains" and len(o[2]["args"]) == 2:
                        # `CONST_RANGE.contains(&x)` with a constant half-open range of u32
                        kr = find_const(qa, o[2]["args"][0])
                        if truth and kr is not None and "int" in kr and \
                                str(kr.get("ty", "")).replace(" ", "").endswith("ops::Range<u32>"):
                            lo = max(lo, kr["int"] & 0xffffffff)
                            hi = min(hi, (kr["int"] >> 32) - 1)
                            continue
                        unknown.append(qa.loc(gb))
                        continue
                    if o[0] != "rv" or o[1]["k"] != "binop" or o[1]["op"] not in ("Le", "Lt", "Ge", "Gt"):
                        unknown.append(qa.loc(gb))
                        continue
                    ka, kb = find_const(qa, o[1]["a"]), find_const(qa, o[1]["b"])
                    opx = o[1]["op"]
                    if truth is None or (ka is None) == (kb is None):
                        unknown.append(qa.loc(gb))
                        continue
                    if ka is not None:        # C op x  ->  x op' C
                        opx = {"Le": "Ge", "Lt": "Gt", "Ge": "Le", "Gt": "Lt"}[opx]
                    c = (ka or kb).get("int")
                    if c is None:
                        unknown.append(qa.loc(gb))
                        continue
                    if not truth:
                        opx = {"Le": "Gt", "Lt": "Ge", "Ge": "Lt", "Gt": "Le"}[opx]
                    if opx == "Le":
                        hi = min(hi, c)
                    elif opx == "Lt":
                        hi = min(hi, c - 1)
                    elif opx == "Ge":
                        lo = max(lo, c)
                    else:
                        lo = max(lo, c + 1)
            if unknown:
                raise EngineError("CODEC-RANGE: %s builds a U31 itself under a test that is not a comparison "
                                  "with a constant (%s): the accepted values cannot be decided" % (q, unknown[:2]))
            okd = (lo, hi) == (0, bound)
            ctx.ob("CODEC-RANGE", "%s|%s|validates-through-U31::new" % (cfg, q), okd, qa.loc(0),
                   "the decoder's own test accepts exactly 0..=%d, as U31::new does" % bound if okd else
                   "the decoder of U31 accepts %d..=%d but U31::new (and so the encoder) allows 0..=%d: "
                   "an image the crate wrote is rejected, or an invalid value is accepted" % (lo, hi, bound))
        ctx.floor("CODEC-RANGE", "U31 constants in the crate (cfg %s)" % cfg, len(consts), 1)
        bad = sorted(c for c in consts if c > bound)
        ctx.ob("CODEC-RANGE", "%s|U31::new-accepts-all-written-constants" % cfg, not bad,
               "%s:%s" % (crate.fns[p].file, crate.fns[p].line),
               "U31::new (applied by the decoder) accepts every U31 constant the crate stores in "
               "images (max %d <= %d)" % (max(consts), bound) if not bad else
               "U31::new accepts values up to %d but the crate writes the constant(s) %s (the "
               "invalid feature id) into connector tables: such an image can be written but is "
               "rejected by Dictionary::read" % (bound, bad))


def lanes_rule(ctx):
    """LANES (C05, C07): the eight feature ids of a U31x8 are written in lane order 0..7 in both
    build configurations (a constant index `self.0[k]` in the portable build, the immediate of
    `_mm256_extract_epi32::<k>` in the AVX2 build) - the decoder reads them back in that order,
    and an image written by one build is read by the other."""
    import re as _re
    for cfg in ("A", "B"):
        crate = ctx.facts(cfg).lib
        E = Effects(crate)
        ps = [p for p, f in crate.fns.items() if f.body and f.j.get("impl_trait") == "bincode::Encode"
              and str(f.j.get("impl_self_ty", "")).endswith("::U31x8")]
        if len(ps) != 1:
            raise EngineError("LANES: Encode for U31x8 not found (%s)" % cfg)
        fa = E.fa(ps[0])
        tuples = []
        for b in sorted(fa.live_blocks()):
            for i, st in enumerate(fa.blocks[b]["stmts"]):
                if "lhs" in st and st["rv"]["k"] == "agg" and st["rv"].get("agg") == "tuple" \
                        and len(st["rv"]["ops"]) == 8:
                    tuples.append((b, i, st["rv"]["ops"]))
        if not tuples:
            # the array itself handed to the encoder: order is the array's
            whole = [t for b0, t in fa.calls() if (callee_of(t) or {}).get("name") == "encode" and t["args"]
                     and E.ap_operand(fa, t["args"][0]) is not None
                     and E.ap_operand(fa, t["args"][0]).root == ("arg", 1)
                     and tuple(E.ap_operand(fa, t["args"][0]).proj) == ("0",)]
            if len(whole) == 1 and cfg == "A":
                ctx.ob("LANES", "%s|U31x8::encode|lane-order" % cfg, True, fa.loc(0),
                       "(%s) the id array is encoded as a whole, in its own order" % cfg)
                continue
        if len(tuples) != 1:
            raise EngineError("LANES: expected one 8-tuple in U31x8::encode (%s), found %d" % (cfg, len(tuples)))
        b, i, ops = tuples[0]
        got = []
        for o in ops:
            lane = None
            pl = op_place(o)
            for _ in range(12):
                if pl is None:
                    break
                ci = [e["ci"] for e in pl["p"] if e != "*" and isinstance(e, dict) and "ci" in e]
                if ci:
                    lane = ci[0] if not isinstance(ci[0], dict) else ci[0].get("offset")
                    break
                ix = [e["i"] for e in pl["p"] if e != "*" and isinstance(e, dict) and "i" in e]
                if ix:
                    di = fa.single_def(ix[0])
                    if di is not None and di[2] == "assign" and di[3]["k"] == "use":
                        k0 = op_const(di[3]["op"])
                        lane = k0.get("int") if k0 else None
                    break
                d = fa.single_def(pl["l"])
                if d is None:
                    break
                if d[2] == "call":
                    c = callee_of(d[3]) or {}
                    if c.get("name") == "_mm256_extract_epi32":
                        m = [_re.match(r"const (\d+)", x) for x in (c.get("args") or [])]
                        m = [int(x.group(1)) for x in m if x]
                        lane = m[0] if m else None
                    break
                rv = d[3]
                if rv["k"] in ("use", "cast"):
                    pl = op_place(rv["op"])
                elif rv["k"] == "ref":
                    pl = rv["place"]
                else:
                    break
            got.append(lane)
        ok = got == list(range(8))
        ctx.ob("LANES", "%s|U31x8::encode|lane-order" % cfg, ok, fa.loc(b, i),
               "(%s) the eight ids of a U31x8 are written in lane order 0..7" % cfg if ok else
               "(%s) U31x8::encode writes lanes %s: the decoder (and the other build) reads them back "
               "in order 0..7, so template positions are permuted after a write/read" % (cfg, got))


def simd_build_rule(ctx):
    """SIMDBUILD (C05, C07; AVX2 build): where a U31x8 is built from eight ids - in
    U31x8::to_simd_vec and in U31x8::decode - the vector is an in-order load of the whole
    8-element array: `_mm256_loadu_si256` / `_mm256_lddqu_si256` of `array.as_ptr()`, where the
    array is the padded temporary (to_simd_vec: `[U31::MAX; 8]` overwritten by the chunk; decode:
    the decoded `[U31; 8]`). `_mm256_set_epi32(a0..a7)` reverses the lanes (`setr` keeps them), a
    masked load from the chunk leaves the padding lanes 0 - the empty BOS/EOS feature - instead
    of the invalid id."""
    from sym import Sym, show
    crate = ctx.facts("B").lib
    E = Effects(crate)
    SC = "vibrato::dictionary::connector::raw_connector::scorer::"
    targets = [SC + "U31x8::to_simd_vec"] + [p for p, f in crate.fns.items() if f.body and
                                            f.j.get("impl_trait", "").startswith("bincode::Decode") and
                                            str(f.j.get("impl_self_ty", "")).endswith("::U31x8")]
    n = 0
    for p in targets:
        f = crate.fns.get(p)
        if f is None or not f.body:
            raise EngineError("SIMDBUILD: anchor lost: %s" % p)
        fa = E.fa(p)
        S = Sym(E, fa, depth=20)
        makers = []
        for b, t in fa.calls():
            c = callee_of(t) or {}
            nm = c.get("name") or ""
            if nm.startswith("_mm256_") and fa.fn.locals[t["dest"]["l"]]["ty"].endswith("__m256i") and \
                    not nm.startswith("_mm256_set1") and not nm.startswith("_mm256_setzero"):
                makers.append((b, nm, t))
        # judge the construction that ends up inside the U31x8 value
        wrapped = set()
        for b, i, s0 in fa.stmts():
            rv = s0.get("rv")
            if rv and rv["k"] == "agg" and str(rv.get("adt", "")).endswith("::U31x8") and rv["ops"]:
                o = fa.origin(rv["ops"][0])
                if o[0] == "call":
                    wrapped.add(o[1])
        makers = [m for m in makers if m[0] in wrapped]
        if not makers:
            raise EngineError("SIMDBUILD: no vector construction found in %s" % p)
        for b, nm, t in makers:
            n += 1
            ok, why = False, "built with %s" % nm
            if nm in ("_mm256_loadu_si256", "_mm256_lddqu_si256", "_mm256_load_si256"):
                txt = show(S.operand(t["args"][0]))
                whole = "as_ptr(" in txt
                if p.endswith("to_simd_vec"):
                    # the pointer is the padded temporary's, not the chunk's
                    padded = "repeat" in txt and "chunks(" not in txt and "call@" not in txt
                    ok = whole and padded
                    why = "loaded from %s" % txt[:60]
                else:
                    ok = whole and "decode(" in txt
                    why = "loaded from %s" % txt[:60]
            elif nm in ("_mm256_setr_epi32", "_mm256_set_epi32") and len(t["args"]) == 8:
                # element k of the (padded) array at argument position k (setr) / 7-k (set)
                idx = []
                for a in t["args"]:
                    pl = op_place(a)
                    k = None
                    for _ in range(8):
                        if pl is None:
                            break
                        ci = [e for e in pl["p"] if isinstance(e, dict) and ("ci" in e or "i" in e)]
                        if ci:
                            e0 = ci[0]
                            if "ci" in e0:
                                k = e0["ci"] if not isinstance(e0["ci"], dict) else e0["ci"].get("offset")
                            else:
                                di = fa.single_def(e0["i"])
                                kk = op_const(di[3]["op"]) if di and di[2] == "assign" and di[3]["k"] == "use" else None
                                k = kk.get("int") if kk else None
                            break
                        d = fa.single_def(pl["l"])
                        if d is None or d[2] != "assign":
                            if d is not None and d[2] == "call" and d[3]["args"]:
                                pl = op_place(d[3]["args"][0])
                                continue
                            break
                        rv = d[3]
                        pl = op_place(rv["op"]) if rv["k"] in ("use", "cast") else rv.get("place") if rv["k"] == "ref" else None
                    idx.append(k)
                want = list(range(8)) if nm == "_mm256_setr_epi32" else list(range(7, -1, -1))
                ok = idx == want
                why = "%s with elements %s (in-order lanes need %s)" % (nm, idx, want)
            ctx.ob("SIMDBUILD", "%s|%s" % (p.split("::")[-2] + "::" + p.split("::")[-1], nm), ok, fa.loc(b),
                   "the vector is an in-order load of the whole 8-element array" if ok else
                   "%s does not build its vector by an in-order load of the whole (padded) array (%s): "
                   "lanes are reversed, or padding lanes become 0 (the empty BOS/EOS feature) instead "
                   "of the invalid id" % ("::".join(p.split("::")[-2:]), why))
    ctx.floor("SIMDBUILD", "vector constructions judged (AVX2 build)", n, 2)


def run_c05_derived(ctx):
    derived_caches(ctx)


def run_c05(ctx):
    codec_rule(ctx, "C05")
    range_rule(ctx)
    scorer_guard(ctx)
    config_rule(ctx)
    nohash_rule(ctx, "vibrato::dictionary::DictionaryInner")
    magic_rule(ctx)


def run_c09(ctx):
    magic_rule(ctx)
    errprop_rule(ctx, is_read_path, "read")
    codec_rule(ctx, "C05")
    scorer_guard(ctx)


def derived_caches(ctx):
    """CODEC-DERIVED: a field that is not part of the image but recomputed (`<x>_len`, the
    broadcast length of table `<x>` in the AVX2 build) must be recomputed from its own table
    wherever a value of the type is constructed: in the decoder, in the builder and in Default.
    A cache taken from the sibling table compiles, passes every in-memory test and only differs
    after a write/read round trip in the AVX2 build."""
    from sym import Sym, show
    n = 0
    for cfg in ("A", "B"):
        crate = ctx.facts(cfg).lib
        E = Effects(crate)
        for adt, derived in DERIVED_FIELDS.items():
            for p, f in sorted(crate.fns.items()):
                if not f.body or f.krate != "vibrato":
                    continue
                fa = E.fa(p)
                S = None
                for b, i, s in fa.stmts():
                    rv = s.get("rv")
                    if not (rv and rv["k"] == "agg" and rv.get("adt") == adt):
                        continue
                    S = S or Sym(E, fa)
                    vals = {k: show(S.operand(o)) for k, o in zip(rv["fields"], rv["ops"])}
                    for fld in derived:
                        if fld not in vals or not fld.endswith("_len"):
                            continue
                        base = fld[:-4]
                        if base not in vals:
                            continue
                        n += 1
                        src = vals[base]
                        # the decoded value `branch(decode(..)).as Continue.0` of the base is
                        # printed through its call block in the length expression: compare by
                        # the origin of the two operands instead of by text
                        ob = fa.origin(rv["ops"][rv["fields"].index(base)])
                        ok = False
                        cur = rv["ops"][rv["fields"].index(fld)]
                        for _ in range(10):
                            o = fa.origin(cur)
                            if o[0] != "call":
                                break
                            nm = strip_generics(sorted(callee_paths(o[2]))[0]).rsplit("::", 1)[-1]
                            if nm == "len":
                                ol = fa.origin(o[2]["args"][0])
                                ok = ol[:2] == ob[:2] if ol[0] in ("call", "arg") else ol == ob
                                break
                            if not o[2]["args"]:
                                ok = vals[fld].endswith("(0)") and src in ("new()", "default()")
                                break
                            cur = o[2]["args"][0]
                        else:
                            ok = False
                        if not ok and vals[fld].endswith("(0)") and src in ("new()", "default()"):
                            ok = True           # Default: empty table, length 0
                        ctx.ob("CODEC-DERIVED", "%s|%s|%s|%s" % (cfg, p, adt.split("::")[-1], fld), ok,
                               fa.loc(b, i),
                               "%s.%s is recomputed from %s.len() in %s" % (adt.split("::")[-1], fld, base,
                                                                            p.split("::")[-1]) if ok else
                               "%s.%s is computed as %s in %s, not from the length of `%s` (%s): the "
                               "cached bound differs from the table it guards (lookups beyond it read "
                               "as misses, or out-of-range lanes are accepted)"
                               % (adt.split("::")[-1], fld, vals[fld][:70], p.split("::")[-1], base, src[:40]))
    ctx.floor("CODEC-DERIVED", "constructions of types with derived caches", n, 4)


def run_c18(ctx):
    """The id tables of the feature extractor (string -> id maps and the next-id counters) are
    part of the model image: dictionaries are normally generated from a re-read model, so
    `different strings -> different ids` needs the hand-written codecs to be symmetric."""
    codec_rule(ctx, "C15")


def run_c15(ctx):
    codec_rule(ctx, "C15")
    config_rule(ctx)

"""Thorough-tier extras: (1) the property's rules re-run on the no-default-features build
(configuration C); (2) self-test of the checker: every seeded change this check is recorded to
catch (seeded/SWEEP.json) must still make it fire on a scratch copy of /repo, and every benign
refactor patch (selftest/benign, and selftest/benign_indep/<this property>_*) must leave it silent. A self-test failure is an engine error,
never a property verdict; patches that no longer apply to an edited /repo are skipped."""
import glob
import json
import os
import re
import subprocess

import engine
from facts import EngineError, VERIF

NO_TRAIN = {"C01", "C02", "C03", "C04", "C05", "C06", "C07", "C08", "C09", "C10", "C11", "C12", "C13"}


def config_c(ctx, rules):
    if ctx.prop not in NO_TRAIN:
        return
    sub = engine.Ctx(ctx.prop, ctx.tier)
    real = ctx.facts

    def facts_c(cfg="A"):
        return real("C" if cfg == "A" else cfg)
    sub.facts = facts_c
    n_ok = 0
    for r in rules:
        before = len(sub.obs)
        try:
            r(sub)
            n_ok += 1
        except EngineError as e:
            # rule anchored in code that does not exist without the `train` feature
            sub.obs = sub.obs[:before]
            ctx.listed("CONFIG-C", "rules not applicable without default features",
                       "%s: %s" % (getattr(r, "__name__", str(r)), str(e)[:100]))
    for o in sub.obs:
        o.key = o.key.replace("|", "|cfgC|", 1)
        o.rule = o.rule
        ctx.obs.append(o)
    ctx.count("CONFIG-C", "rules evaluated on --no-default-features", n_ok)
    ctx.count("CONFIG-C", "obligations", len(sub.obs))


def run_vtry(patch, prop):
    env = dict(os.environ, VTRY_CACHE=os.path.join(VERIF, ".cache", "selftest-%s" % prop))
    env.pop("VERIF_TIER", None)
    r = subprocess.run([os.path.join(VERIF, "bin", "vtry"), patch, prop], stdout=subprocess.PIPE,
                       stderr=subprocess.STDOUT, text=True, env=env)
    out = r.stdout
    if "error: patch failed" in out or "does not apply" in out or "No such file" in out and "patch" in out:
        return "skipped", out
    if re.search(r"^VIOLATION property=%s\b" % prop, out, re.M):
        return "fired", out        # (other rules of the check may have ended with an engine error)
    if "ENGINE-ERROR" in out:
        return "engine", out
    if r.returncode == 0:
        return "silent", out
    return "engine", out


def selftest(ctx):
    sweep_p = os.path.join(VERIF, "seeded", "SWEEP.json")
    if not os.path.exists(sweep_p):
        raise EngineError("seeded/SWEEP.json missing: run bin/vsweep")
    sweep = json.load(open(sweep_p))
    mine = sorted(s for s, r in sweep.items() if ctx.prop in r.get("flagged_by", []))
    # keep the tier bounded: all changes written against this property, plus a sample of the
    # ones written against other properties that this check also reports
    own = [s for s in mine if sweep[s]["breaks"] == ctx.prop]
    others = [s for s in mine if sweep[s]["breaks"] != ctx.prop]
    cap = int(os.environ.get("VERIF_SELFTEST_OTHERS", "12"))
    ctx.count("SELFTEST", "seeded changes of other properties also caught (sampled %d)" % min(cap, len(others)),
              len(others))
    mine = own + others[::max(1, len(others) // cap)][:cap] if cap else own
    fired = skipped = 0
    for sname in mine:
        st, out = run_vtry(os.path.join(VERIF, "seeded", sname, "patch.diff"), ctx.prop)
        if st == "skipped":
            skipped += 1
            ctx.listed("SELFTEST", "skipped (patch does not apply to the current tree)", sname)
            continue
        if st != "fired":
            raise EngineError("self-test: seeded change %s no longer makes check %s fire (%s)\n%s"
                              % (sname, ctx.prop, st, out[-600:]))
        fired += 1
        ctx.ob("SELFTEST", "seed|%s" % sname, True, "seeded/%s/patch.diff" % sname,
               "seeded change %s (breaks %s) still makes this check fire on a scratch copy"
               % (sname, sweep[sname]["breaks"]))
    silent = 0
    # the author's twins, and the refactorings fresh sub-agents wrote against this property
    benign = sorted(glob.glob(os.path.join(VERIF, "selftest", "benign", "*.diff"))) + \
        sorted(glob.glob(os.path.join(VERIF, "selftest", "benign_indep", ctx.prop + "_*.diff")))
    for bp in benign:
        name = os.path.basename(bp)
        # `<patch>.audit` lists properties whose conservative panic audit is *expected* to ask
        # for a review of the refactored code (a new index or arithmetic site): "Cxx reason"
        expected = {}
        if os.path.exists(bp + ".audit"):
            for line in open(bp + ".audit"):
                if line.strip() and not line.startswith("#"):
                    pid, why = line.strip().split(None, 1)
                    expected[pid] = why
        if ctx.prop in expected:
            ctx.listed("SELFTEST", "benign patches that add a site the panic audit must review",
                       "%s: %s" % (name, expected[ctx.prop]))
            continue
        st, out = run_vtry(bp, ctx.prop)
        if st == "skipped":
            skipped += 1
            ctx.listed("SELFTEST", "skipped (patch does not apply to the current tree)", name)
            continue
        if st != "silent":
            raise EngineError("self-test: benign refactor %s makes check %s report (%s)\n%s"
                              % (name, ctx.prop, st, out[-600:]))
        silent += 1
        ctx.ob("SELFTEST", "benign|%s" % name, True, os.path.relpath(bp, VERIF),
               "behaviour-preserving refactor %s leaves this check silent" % name)
    # the scratch build cache of this self-test is large (a few GB per property) and nothing in
    # it is needed again: extracted facts live on in the shared pool
    import shutil
    shutil.rmtree(os.path.join(VERIF, ".cache", "selftest-%s" % ctx.prop), ignore_errors=True)
    ctx.count("SELFTEST", "seeded changes that fired", fired)
    ctx.count("SELFTEST", "benign patches silent", silent)
    ctx.count("SELFTEST", "patches skipped", skipped)

"""FEATSPAN (C11): the feature string of a lexicon row is the remainder of the row after the
fourth CSV field, byte for byte.

Lexicon::parse_csv drives csv-core field by field. The only way to know where the fourth field
ends *in the input* (surfaces may be quoted and contain commas) is the reader's consumed-byte
count at the moment field 3 (the cost) completes. The rule follows the two variables from which
the feature slice is cut - its base B (a sub-slice of the input) and its length L - through a
path-sensitive abstract interpretation of the parsing loop:

    c  : the field counter, abstracted to 0,1,2,3,4+   (switches and comparisons on it prune)
    L  : Z  zero
         F  sum of consumed counts of fields >= 4 of the current record only
         G  anything else (bytes of an earlier record or of fields 0..3)
    B  : T  rebased at `cursor[nin..]` when field 3 of the current record completed
         S  stale (initial value or rebased for an earlier record)

A record ends where the counter is reset to 0: there F decays to G and T to S. At the statement
that cuts the feature (`from_utf8(&B[..f(L)])`) every reachable state must have L in {Z, F} and
B = T. Unrecognised spellings are reported as ENGINE-ERROR (undecided), except the recognised
anti-idiom of re-deriving the feature by splitting text on commas (which ignores CSV quoting).
"""
from effects import Effects
from facts import EngineError
from flow import calls_named, bool_switch_targets
from mir import callee_of, callee_paths, op_place, op_const, strip_generics

P_PARSE = "vibrato::dictionary::lexicon::Lexicon::parse_csv"
SPLITS = ("split", "splitn", "rsplit", "rsplitn", "split_once", "rsplit_once", "split_terminator",
          "find", "rfind", "trim_end_matches", "trim_start_matches", "trim_matches")


def _names(t):
    return {strip_generics(x).rsplit("::", 1)[-1] for x in callee_paths(t)}


def _paths(t):
    return [strip_generics(x) for x in callee_paths(t)]


def _local_of(fa, op, depth=0):
    """The multi-definition (mutable) local or parameter an operand is a copy/reborrow of."""
    o = fa.origin(op)
    if o[0] == "place" and o[1].root[0] == "local" and not o[1].proj:
        return o[1].root[1]
    if o[0] == "arg":
        return o[1]
    return None


def run(ctx):
    crate = ctx.facts("A").lib
    E = Effects(crate)
    fa = E.fa(P_PARSE)
    f = fa.fn
    loc = "%s:%s" % (f.file, f.line)
    names = f.local_names()

    # --- the reader call and its consumed-count result
    rfs = [(b, t) for b, t in fa.calls() if any(p.endswith("Reader::read_field") for p in _paths(t))]
    if len(rfs) != 1:
        raise EngineError("FEATSPAN: expected one csv_core read_field call in parse_csv, found %d" % len(rfs))
    rfb, rft = rfs[0]
    rdest = rft["dest"]["l"]
    cursor = _local_of(fa, rft["args"][1])
    if cursor is None:
        raise EngineError("FEATSPAN: the input cursor passed to read_field is not a local")
    nin = set()
    for b in fa.live_blocks():
        for s in fa.blocks[b]["stmts"]:
            if "rv" in s and s["rv"]["k"] == "use":
                pl = op_place(s["rv"]["op"])
                if pl and pl["l"] == rdest and len(pl["p"]) == 1 and isinstance(pl["p"][0], dict) \
                        and pl["p"][0].get("f") == 1 and not s["lhs"]["p"]:
                    nin.add(s["lhs"]["l"])
    if not nin:
        raise EngineError("FEATSPAN: the consumed-byte count of read_field is not bound to a local")

    def is_nin(op, depth=0):
        """operand is nin, or nin + const"""
        pl = op_place(op)
        if pl is None or depth > 6:
            return False
        if pl["l"] in nin and not pl["p"]:
            return True
        if pl["l"] == rdest and len(pl["p"]) == 1 and isinstance(pl["p"][0], dict) and pl["p"][0].get("f") == 1:
            return True
        d = fa.single_def(pl["l"])
        if d is None or d[2] != "assign":
            return False
        rv = d[3]
        if rv["k"] == "use":
            return is_nin(rv["op"], depth + 1)
        if rv["k"] == "binop" and rv["op"] in ("Add", "AddWithOverflow"):
            return (is_nin(rv["a"], depth + 1) and op_const(rv["b"]) is not None) or \
                   (is_nin(rv["b"], depth + 1) and op_const(rv["a"]) is not None)
        return False

    # --- the feature stored in RawWordEntry
    feat_op = None
    for b in sorted(fa.live_blocks()):
        for s in fa.blocks[b]["stmts"]:
            if "rv" in s and s["rv"]["k"] == "agg" and "RawWordEntry" in str(s["rv"].get("agg")) + str(s["rv"].get("adt", "")):
                fields = s["rv"].get("fields") or []
                ops = s["rv"]["ops"]
                if "feature" in fields:
                    feat_op = ops[fields.index("feature")]
                else:
                    feat_op = ops[-1]
    if feat_op is None:
        raise EngineError("FEATSPAN: construction of RawWordEntry not found in parse_csv")
    # chase: feature <- (Try::branch Continue.0) <- from_utf8(slice) <- index(B, RangeTo{end})
    chain = []
    strips = []          # (name, constant pattern) of content-based trimming calls on the way
    cur = feat_op
    idx_call = None

    def note_strip(t):
        nm = sorted(_names(t))[0]
        if nm in ("strip_suffix", "trim_end_matches", "trim_matches", "strip_prefix", "trim_start_matches"):
            pat = None
            if len(t["args"]) > 1:
                po = fa.origin(t["args"][1])
                if po[0] == "const":
                    k = po[1]
                    pat = k.get("str") if "str" in k else bytes(k.get("bytes") or []).decode("latin1") \
                        if k.get("bytes") else chr(k["int"]) if "int" in k and k.get("ty") == "char" else None
            strips.append((nm, pat))
        elif nm in ("trim_end", "trim", "trim_ascii_end", "trim_ascii", "trim_start"):
            strips.append((nm, "<whitespace>"))
    for _ in range(24):
        o = fa.origin(cur)
        if o[0] == "place":
            # projection out of a call result (Continue.0 / Ok.0) or a mutable local
            ap = o[1]
            if ap.root[0] == "call":
                t = fa.term(ap.root[1])
                note_strip(t)
                chain.append(sorted(_names(t))[0])
                if not t["args"]:
                    break
                cur = t["args"][0]
                continue
            if ap.root[0] == "local" and not ap.proj:
                # a single assignment `feature = val`? follow any unique non-const definition
                ds = [d for d in fa.defs().get(ap.root[1], [])]
                if len(ds) == 1 and ds[0][2] == "assign" and ds[0][3]["k"] == "use":
                    cur = ds[0][3]["op"]
                    continue
                # `let mut feature = "";` assigned once inside the loop: follow the one definition
                # that is not a constant
                nc = [d for d in ds if d[2] == "assign" and d[3]["k"] == "use" and fa.origin(d[3]["op"])[0] != "const"]
                if len(ds) > 1 and len(nc) == 1 and len(ds) - len(nc) == len(
                        [d for d in ds if d[2] == "assign" and d[3]["k"] == "use" and fa.origin(d[3]["op"])[0] == "const"]):
                    cur = nc[0][3]["op"]
                    continue
            break
        if o[0] == "call":
            t = o[2]
            nm = _names(t)
            note_strip(t)
            chain.append(sorted(nm)[0])
            if nm & {"index", "get", "get_unchecked"} and len(t["args"]) == 2:
                idx_call = (o[1], t)
                break
            if not t["args"]:
                break
            cur = t["args"][0]
            continue
        break
    # The record terminator is removed arithmetically (the last consumed count includes exactly
    # one terminator byte, `\n` or `\r`: csv-core ends a CRLF record at the `\r`). Removing it by
    # looking at the bytes (`strip_suffix("\n")`, `trim_end..`) leaves the `\r` of CRLF rows in
    # the feature, or eats characters that belong to it.
    # A content-based cut is wrong when it knows only `\n` (CRLF rows keep their `\r`) or when it
    # trims whitespace in general (a feature may end in a space). A cut that removes one `\r` or
    # `\n` is a correct alternative and is accepted.
    lf_only = [s for s in strips if s[1] in ("\n",)]
    white = [s for s in strips if s[1] == "<whitespace>"]
    handles_cr = any(s[1] is not None and "\r" in s[1] for s in strips) or \
        any(s[1] is None for s in strips)      # non-constant pattern (closure / char set): undecided, accept
    bad_term = white or (lf_only and not handles_cr)
    ctx.ob("FEATSPAN", "terminator-cut-handles-CR-and-LF", not bad_term, loc,
           "the record terminator is removed by count, or by a cut that knows both `\\r` and `\\n`"
           if not bad_term else
           "the end of the feature is found by %s: %s" % (
               ", ".join("%s(%r)" % s for s in strips),
               "whitespace that belongs to the feature is removed" if white else
               "a CR-terminated (CRLF) row keeps its `\\r` because csv-core ends the record at the `\\r`"))
    by_content = [s[0] for s in strips]
    bad_split = [c for c in chain if c in SPLITS and c not in by_content]
    if bad_split:
        ctx.ob("FEATSPAN", "feature-cut-at-reader-positions", False, loc,
               "the feature string is re-derived by text operations (%s) instead of being cut at "
               "the CSV reader's byte positions: a quoted surface containing commas shifts the "
               "columns, and the remainder is no longer byte for byte the text after the fourth "
               "field" % ", ".join(bad_split))
        return
    if idx_call is None or "from_utf8" not in chain:
        raise EngineError("FEATSPAN: the derivation of RawWordEntry.feature is not recognised (%s)"
                          % " <- ".join(chain))
    ub, ut = idx_call
    B = _local_of(fa, ut["args"][0])
    # the range: RangeTo{end: f(L)}
    ro = fa.origin(ut["args"][1])
    if not (ro[0] == "rv" and ro[1]["k"] == "agg" and "RangeTo" in str(ro[1].get("agg")) + str(ro[1].get("adt", ""))
            and len(ro[1]["ops"]) == 1):
        raise EngineError("FEATSPAN: the feature slice at %s is not of the form base[..len]" % fa.loc(ub))
    eo = ro[1]["ops"][0]
    # the end of the row is where the CSV reader says it is; a search of the raw bytes for a line
    # break ends the row inside a quoted cell that contains one
    from r_rewrite import _chain_to_source
    ech = _chain_to_source(fa, eo)
    searched = [c for c in ech if c in ("position", "rposition", "find", "rfind", "memchr", "find_map", "split", "lines",
                                        "split_once", "find_byte")]
    if searched:
        ctx.ob("FEATSPAN", "feature-cut-at-reader-positions", False, fa.loc(ub),
               "the end of the feature is found by searching the remaining input (%s) instead of by the "
               "byte counts of the CSV reader: a quoted feature cell that contains a line break is cut "
               "inside the cell" % " <- ".join(ech))
        return
    L = None
    endtxt = "len"
    cut_k = 0
    for _ in range(6):
        L = _local_of(fa, eo)
        if L is not None and len(fa.defs().get(L, [])) > 1:
            break
        L = None
        o2 = fa.origin(eo)
        if o2[0] == "call" and _names(o2[2]) & {"saturating_sub", "wrapping_sub"}:
            endtxt = "len.saturating_sub(%s)" % (op_const(o2[2]["args"][1]) or {}).get("int", "?")
            cut_k = (op_const(o2[2]["args"][1]) or {}).get("int")
            eo = o2[2]["args"][0]
        elif o2[0] == "call" and _names(o2[2]) & {"take"}:
            eo = o2[2]["args"][0]          # mem::take(&mut len)
        elif o2[0] == "rv" and o2[1]["k"] == "binop" and o2[1]["op"] in ("Sub", "SubWithOverflow"):
            endtxt = "len - %s" % (op_const(o2[1]["b"]) or {}).get("int", "?")
            cut_k = (op_const(o2[1]["b"]) or {}).get("int")
            eo = o2[1]["a"]
        elif o2[0] == "place" and o2[1].root[0] == "local" and len(o2[1].proj) == 1:
            # `move _t.0` of a checked subtraction
            d = fa.single_def(o2[1].root[1])
            if d and d[2] == "assign" and d[3]["k"] == "binop" and d[3]["op"] in ("Sub", "SubWithOverflow"):
                endtxt = "len - %s" % (op_const(d[3]["b"]) or {}).get("int", "?")
                cut_k = (op_const(d[3]["b"]) or {}).get("int")
                eo = d[3]["a"]
            else:
                break
        else:
            break
    if B is None or L is None:
        raise EngineError("FEATSPAN: base or length of the feature slice at %s is not a local" % fa.loc(ub))
    if B <= fa.arg_count and B == cursor:
        raise EngineError("FEATSPAN: the feature base is the cursor itself")
    # --- the field counter: the local switched on with the values 0..3
    C = None
    for b in sorted(fa.live_blocks()):
        t = fa.term(b)
        if t["k"] == "switch" and len(t["vals"]) >= 4 and set(t["vals"][:4]) == {0, 1, 2, 3}:
            l = _local_of(fa, t["op"])
            if l is not None and f.locals[l]["ty"] == "usize":
                C = l
    if C is None:
        raise EngineError("FEATSPAN: the field counter (a switch on 0,1,2,3) was not found")
    ctx.ob("FEATSPAN", "feature-cut-at-reader-positions", True, fa.loc(ub),
           "feature = from_utf8(&%s[..%s]) with len = `%s`, field counter `%s`, consumed count of "
           "read_field `%s`" % (names.get(B, "_%d" % B), endtxt, names.get(L, "_%d" % L),
                                names.get(C, "_%d" % C), "/".join(sorted(names.get(x, "_%d" % x) for x in nin))))

    # --- abstract interpretation
    def overflow_src(op):
        """`x = move _t.0` where _t = AddWithOverflow(a, b): (a, b) else None"""
        pl = op_place(op)
        if pl is None or len(pl["p"]) != 1:
            return None
        d = fa.single_def(pl["l"])
        if d is None or d[2] != "assign" or d[3]["k"] != "binop":
            return None
        if d[3]["op"] not in ("AddWithOverflow", "Add"):
            return None
        return d[3]["a"], d[3]["b"]

    def is_rebase(rv):
        """rvalue is (a reborrow of) index(cursor, RangeFrom{start: nin})"""
        if rv["k"] == "use":
            o = fa.origin(rv["op"])
        elif rv["k"] == "ref":
            o = fa.origin_place(rv["place"])
        else:
            return False
        if o[0] != "call":
            return False
        t = o[2]
        if not (_names(t) & {"index"}) or len(t["args"]) != 2:
            return False
        if _local_of(fa, t["args"][0]) != cursor:
            return False
        r2 = fa.origin(t["args"][1])
        return r2[0] == "rv" and r2[1]["k"] == "agg" and "RangeFrom" in str(r2[1].get("agg")) + str(r2[1].get("adt", "")) \
            and len(r2[1]["ops"]) == 1 and is_nin(r2[1]["ops"][0])

    def cmp_eval(t, c):
        """Outcome of a boolean switch that compares the counter with a constant, or None."""
        o = fa.origin(t["op"])
        if o[0] != "rv" or o[1]["k"] != "binop":
            return None
        opn = o[1]["op"]
        if opn not in ("Eq", "Ne", "Lt", "Le", "Gt", "Ge"):
            return None
        if _local_of(fa, o[1]["a"]) != C:
            return None
        k = op_const(o[1]["b"])
        if k is None or "int" not in k:
            return None
        k = k["int"]
        if c < 4:
            return {"Eq": c == k, "Ne": c != k, "Lt": c < k, "Le": c <= k, "Gt": c > k, "Ge": c >= k}[opn]
        # c >= 4
        if opn == "Eq":
            return False if k < 4 else None
        if opn == "Ne":
            return True if k < 4 else None
        if opn == "Lt":
            return False if k <= 4 else None
        if opn == "Le":
            return False if k < 4 else None
        if opn == "Gt":
            return True if k < 4 else None
        if opn == "Ge":
            return True if k <= 4 else None
        return None

    # boolean locals that are assigned constants somewhere and are branched on (`record_end`):
    # tracked so that `InputEmpty => true` cannot take the "record continues" edge
    flags = []
    for l, ds in fa.defs().items():
        if f.locals[l]["ty"] != "bool" or l <= fa.arg_count:
            continue
        if len(ds) >= 2 and any(d[2] == "assign" and d[3]["k"] == "use" and op_const(d[3]["op"]) is not None
                                for d in ds):
            flags.append(l)
    flags.sort()
    fidx = {l: i for i, l in enumerate(flags)}
    ctx.count("FEATSPAN", "tracked boolean flags", len(flags))

    # the reader's own "this field ended the record" flag: the counter must be back at 0 before
    # the next field is read, whatever happens to the row (stored, skipped, reported)
    re0 = set()
    for b0, i0, s0 in fa.stmts():
        rv0 = s0.get("rv") or {}
        pl0 = op_place(rv0.get("op")) if rv0.get("k") == "use" else None
        if pl0 is not None and any(isinstance(e, dict) and e.get("n") == "record_end" and
                                   "ReadFieldResult" in str(e.get("o", "")) for e in pl0["p"]) and not s0["lhs"]["p"]:
            re0.add(s0["lhs"]["l"])
    RE = set(re0)
    for l0, ds0 in fa.defs().items():
        for d0 in ds0:
            if d0[2] == "assign" and d0[3]["k"] == "use" and _local_of(fa, d0[3]["op"]) in re0:
                RE.add(l0)
    for l0, ds0 in fa.defs().items():
        for d0 in ds0:
            pl0 = op_place(d0[3]["op"]) if d0[2] == "assign" and d0[3]["k"] == "use" else None
            if pl0 is not None and not pl0["p"] and pl0["l"] in re0:
                RE.add(l0)
    ctx.count("FEATSPAN", "record-end flags of the reader", len(RE))
    # ... they are branched on more than once (`if record_end && ..` and `if record_end {`): follow
    # their value along the edges taken, like the constant-assigned flags
    for l0 in sorted(RE):
        if l0 not in fidx and f.locals[l0]["ty"] == "bool":
            fidx[l0] = len(flags)
            flags.append(l0)
    # the number of *output* bytes of the read (tuple member 2) and the arm taken for the
    # InputEmpty outcome (csv-core: enum ReadFieldResult { InputEmpty, OutputFull, Field{..}, End })
    nout = set()
    resl = set()
    for b0, i0, s0 in fa.stmts():
        rv0 = s0.get("rv") or {}
        pl0 = op_place(rv0.get("op")) if rv0.get("k") == "use" else None
        if pl0 is not None and pl0["l"] == rdest and len(pl0["p"]) == 1 and isinstance(pl0["p"][0], dict) \
                and not s0["lhs"]["p"]:
            if pl0["p"][0].get("f") == 2:
                nout.add(s0["lhs"]["l"])
            elif pl0["p"][0].get("f") == 0:
                resl.add(s0["lhs"]["l"])
    field_dc = set()
    for b0, i0, s0 in fa.stmts():
        o0 = (s0.get("rv") or {}).get("op")
        pl0 = op_place(o0) if isinstance(o0, dict) else None
        for e in (pl0 or {}).get("p") or []:
            if isinstance(e, dict) and e.get("n") == "Field" and "dc" in e:
                field_dc.add(e["dc"])
    ie_arms = set()
    for b0 in sorted(fa.live_blocks()):
        t0 = fa.term(b0)
        if t0["k"] != "switch":
            continue
        o0 = fa.origin(t0["op"])
        if o0[0] == "rv" and o0[1]["k"] == "discr":
            dl = o0[1]["place"]
            if (dl["l"] in resl and not dl["p"]) or (dl["l"] == rdest and len(dl["p"]) == 1 and
                                                     isinstance(dl["p"][0], dict) and dl["p"][0].get("f") == 0):
                ie_arms.add(dict(zip(t0["vals"], t0["targets"])).get(0, t0["otherwise"]))
    fe_arms = set()
    for b0 in sorted(fa.live_blocks()):
        t0 = fa.term(b0)
        if t0["k"] != "switch":
            continue
        o0 = fa.origin(t0["op"])
        if o0[0] == "rv" and o0[1]["k"] == "discr":
            dl = o0[1]["place"]
            if (dl["l"] in resl and not dl["p"]) or (dl["l"] == rdest and len(dl["p"]) == 1 and
                                                     isinstance(dl["p"][0], dict) and dl["p"][0].get("f") == 0):
                fe_arms.add(dict(zip(t0["vals"], t0["targets"])).get(2, t0["otherwise"]))
    term_clause = bool(ie_arms) and bool(fe_arms) and field_dc <= {2} and cut_k in (0, 1)

    def nin_plus(op, depth=0):
        """k when the operand is `nin + k` (k a constant, 0 for nin itself), else None"""
        pl = op_place(op)
        if pl is None or depth > 6:
            return None
        if (pl["l"] in nin and not pl["p"]) or (pl["l"] == rdest and len(pl["p"]) == 1 and
                                                isinstance(pl["p"][0], dict) and pl["p"][0].get("f") == 1):
            return 0
        if pl["p"] and not (len(pl["p"]) == 1 and isinstance(pl["p"][0], dict) and pl["p"][0].get("f") == 0):
            return None
        d = fa.single_def(pl["l"])
        if d is None or d[2] != "assign":
            return None
        rv = d[3]
        if rv["k"] == "use":
            return nin_plus(rv["op"], depth + 1)
        if rv["k"] == "binop" and rv["op"] in ("Add", "AddWithOverflow"):
            for x, y in ((rv["a"], rv["b"]), (rv["b"], rv["a"])):
                k = op_const(y)
                base = nin_plus(x, depth + 1)
                if base is not None and k is not None and "int" in k:
                    return base + k["int"]
        return None

    def empty_eval(t, md):
        """Outcome of a test whether the input handed to the reader was empty / nothing was
        consumed, in the mode `md` (FE: the input was empty; FN: it was not)."""
        o = fa.origin(t["op"])
        if o[0] == "call" and _names(o[2]) & {"is_empty"} and o[2]["args"] and _local_of(fa, o[2]["args"][0]) == cursor:
            return md == "FE"
        if o[0] == "rv" and o[1]["k"] == "binop" and o[1]["op"] in ("Eq", "Ne"):
            a_, b_ = o[1]["a"], o[1]["b"]
            for x, y in ((a_, b_), (b_, a_)):
                k = op_const(y)
                if k is None or k.get("int") != 0:
                    continue
                isn = nin_plus(x) == 0
                ox = fa.origin(x)
                islen = ox[0] == "call" and _names(ox[2]) & {"len"} and ox[2]["args"] and _local_of(fa, ox[2]["args"][0]) == cursor
                if isn or islen:
                    return (md == "FE") == (o[1]["op"] == "Eq")
        return None
    term_bad = {}
    eof_clause = bool(ie_arms) and bool(nout) and field_dc <= {2}
    err_calls = {b0 for b0, t0 in fa.calls() if "invalid_format" in " ".join(_paths(t0))}
    eof_bad = {}

    def nout_eval(t):
        """Outcome of a switch that compares the output count with 0, given that it is 0."""
        o = fa.origin(t["op"])
        if o[0] != "rv" or o[1]["k"] != "binop" or o[1]["op"] not in ("Eq", "Ne", "Gt", "Lt", "Ge", "Le"):
            return None
        a_, b_ = o[1]["a"], o[1]["b"]

        def is_nout(op):
            pl = op_place(op)
            for _ in range(6):
                if pl is None:
                    return False
                if (pl["l"] in nout and not pl["p"]) or (pl["l"] == rdest and len(pl["p"]) == 1 and
                                                         isinstance(pl["p"][0], dict) and pl["p"][0].get("f") == 2):
                    return True
                d = fa.single_def(pl["l"]) if not pl["p"] else None
                if d is None or d[2] != "assign" or d[3]["k"] != "use":
                    return False
                pl = op_place(d[3]["op"])
            return False

        def is_zero(op):
            k = op_const(op)
            if k is None:
                oo = fa.origin(op)
                k = oo[1] if oo[0] == "const" else None
            return k is not None and k.get("int") == 0
        if is_nout(a_) and is_zero(b_):
            return {"Eq": True, "Ne": False, "Gt": False, "Lt": False, "Ge": True, "Le": True}[o[1]["op"]]
        if is_nout(b_) and is_zero(a_):
            return {"Eq": True, "Ne": False, "Gt": False, "Lt": False, "Ge": True, "Le": True}[o[1]["op"]]
        return None
    unreset = {}
    start = (0, 0, "Z", "S", tuple("?" for _ in flags), "-", "-", "-", 0)
    seen = {start}
    pred = {}
    work = [start]
    arrivals = {}
    nstates = 0
    notes = set()
    foreign = set()
    while work:
        b, c, lv, bv, fl, en, ie, md, sl = entry = work.pop()
        fl = list(fl)
        if b == rfb:
            if en == "E" and c != 0:
                unreset.setdefault(c, entry)
            en = "-"
            ie = "-"
            md = "-"
        # "I": the input ran out while no field of a row had been started (c == 0), and nothing
        # was produced (taken as an assumption at the comparisons of the output count below)
        if eof_clause and b in ie_arms and c == 0:
            ie = "I"
        if ie == "I" and b in err_calls:
            eof_bad.setdefault(b, entry)
        # which outcome ended the record, for the terminator clause: IE = the input ran out inside
        # a field; FE / FN = a field was returned and the input handed to the reader was empty / was
        # not (csv-core returns the last, empty field of `..,` at the end of the input that way)
        forks = [md]
        if term_clause and md == "-":
            if b in ie_arms:
                forks = ["IE"]
            elif b in fe_arms:
                forks = ["FE", "FN"]
        if len(forks) == 2:
            st2 = (b, c, lv, bv, tuple(fl), en, ie, forks[1], sl)
            if st2 not in seen:
                seen.add(st2)
                pred[st2] = pred.get(entry)
                work.append(st2)
        md = forks[0]
        nstates += 1
        if nstates > 200000:
            raise EngineError("FEATSPAN: state space too large")
        bb = fa.blocks[b]
        for s in bb["stmts"]:
            if "lhs" not in s or s["lhs"]["p"]:
                continue
            l = s["lhs"]["l"]
            rv = s["rv"]
            if l in fidx:
                k = op_const(rv["op"]) if rv["k"] == "use" else None
                if k is not None and "int" in k:
                    fl[fidx[l]] = "T" if k["int"] else "F"
                else:
                    src = _local_of(fa, rv["op"]) if rv["k"] == "use" else None
                    if src not in fidx and rv["k"] == "use":
                        spl = op_place(rv["op"])
                        for _ in range(4):          # through plain copies of a single-definition flag
                            if spl is None or spl["p"] or spl["l"] in fidx:
                                break
                            d_ = fa.single_def(spl["l"])
                            spl = op_place(d_[3]["op"]) if d_ and d_[2] == "assign" and d_[3]["k"] == "use" else None
                        if spl is not None and not spl["p"] and spl["l"] in fidx:
                            src = spl["l"]
                    fl[fidx[l]] = fl[fidx[src]] if src in fidx else "?"
            if l == C:
                k = op_const(rv["op"]) if rv["k"] == "use" else None
                if k is not None and k.get("int") == 0:
                    c = 0
                    en = "-"
                    lv = "G" if lv == "F" else lv       # a record ended
                    bv = "S"
                else:
                    src = overflow_src(rv["op"]) if rv["k"] == "use" else None
                    if src and _local_of(fa, src[0]) == C and (op_const(src[1]) or {}).get("int") == 1:
                        c = min(c + 1, 4)
                    else:
                        raise EngineError("FEATSPAN: unrecognised update of the field counter at %s" % fa.loc(b))
            elif l == L:
                k = op_const(rv["op"]) if rv["k"] == "use" else None
                if k is not None and k.get("int") == 0:
                    lv = "Z"
                    sl = 0
                else:
                    src = overflow_src(rv["op"]) if rv["k"] == "use" else None
                    if src and _local_of(fa, src[0]) == L:
                        kk = nin_plus(src[1])
                        kc = op_const(src[1])
                        if kk is not None:
                            sl = min(sl + kk, 3)
                        elif kc is not None and "int" in kc:
                            sl = min(sl + kc["int"], 3)
                            continue            # a constant credit: not a change of what is measured
                        else:
                            sl = 3
                    if src and _local_of(fa, src[0]) == L and is_nin(src[1]):
                        if c >= 4:
                            lv = "F" if lv in ("Z", "F") else "G"
                        else:
                            lv = "G"
                            notes.add("bytes of field %d are added to the length" % c)
                    elif src and _local_of(fa, src[0]) == L:
                        # the length grows by something that is not the reader's consumed-byte
                        # count (e.g. the number of *unquoted output* bytes): it no longer
                        # measures the input
                        lv = "G"
                        foreign.add(fa.loc(b))
                    else:
                        raise EngineError("FEATSPAN: unrecognised update of the feature length at %s" % fa.loc(b))
            elif l == B:
                if is_rebase(rv) and c == 3:
                    bv = "T"
                else:
                    bv = "S"
        t = bb["term"]
        if t["k"] == "call":
            # &mut L handed to a call: mem::take / mem::replace(.., 0) zero it
            for a in t["args"]:
                pl = op_place(a)
                if pl is None:
                    continue
                d = fa.single_def(pl["l"])
                if d and d[2] == "assign" and d[3]["k"] == "ref" and d[3].get("bk") == "mut" and \
                        d[3]["place"]["l"] == L and not d[3]["place"]["p"]:
                    if _names(t) & {"take"}:
                        lv = "Z"
                    else:
                        raise EngineError("FEATSPAN: the feature length is passed by &mut to %s" % sorted(_names(t)))
        if b == ub:
            arrivals.setdefault((lv, bv), entry)
            if term_clause and md in ("IE", "FE", "FN") and sl < 3:
                want = cut_k if md in ("IE", "FE") else 0
                if sl != want:
                    term_bad.setdefault((md, sl), entry)
        if t["k"] == "switch":
            tg = None
            if _local_of(fa, t["op"]) == C and not fa.origin(t["op"])[0] == "rv":
                tg = [dict(zip(t["vals"], t["targets"])).get(c, t["otherwise"])] if c < 4 else \
                     [dict(zip(t["vals"], t["targets"])).get(4, t["otherwise"])] if 4 in t["vals"] else [t["otherwise"]]
            else:
                ev = cmp_eval(t, c)
                if ev is None and ie == "I":
                    ev = nout_eval(t)
                if ev is None and md in ("FE", "FN"):
                    ev = empty_eval(t, md)
                fl_l = _local_of(fa, t["op"])
                if ev is None and fl_l in fidx and fa.origin(t["op"])[0] == "place" and fl[fidx[fl_l]] != "?":
                    ev = fl[fidx[fl_l]] == "T"
                if ev is not None:
                    f_t, t_t = bool_switch_targets(t)
                    tg = [t_t if ev else f_t]
            succ = tg if tg is not None else fa.succs(b)
            ended_edge = None
            if _local_of(fa, t["op"]) in RE and fa.origin(t["op"])[0] != "rv":
                ended_edge = bool_switch_targets(t)[1]
            # a branch on a flag whose value is not known fixes it along each edge
            refine = None
            fl_r = _local_of(fa, t["op"])
            if fl_r not in fidx:
                spl = op_place(t["op"])
                for _ in range(4):
                    if spl is None or spl["p"] or spl["l"] in fidx:
                        break
                    d_ = fa.single_def(spl["l"])
                    spl = op_place(d_[3]["op"]) if d_ and d_[2] == "assign" and d_[3]["k"] == "use" else None
                if spl is not None and not spl["p"] and spl["l"] in fidx:
                    fl_r = spl["l"]
                    if tg is None and fl[fidx[fl_r]] != "?":
                        # the value of this flag is known on this path
                        f_t2, t_t2 = bool_switch_targets(t)
                        succ = [t_t2 if fl[fidx[fl_r]] == "T" else f_t2]
            if tg is None and fl_r in fidx and fl[fidx[fl_r]] == "?":
                f_t2, t_t2 = bool_switch_targets(t)
                if f_t2 != t_t2:
                    # the flag and the flags it is a plain copy of
                    idxs = [fidx[fl_r]]
                    cur_ = fl_r
                    for _ in range(4):
                        d_ = fa.single_def(cur_)
                        spl = op_place(d_[3]["op"]) if d_ and d_[2] == "assign" and d_[3]["k"] == "use" else None
                        if spl is None or spl["p"]:
                            break
                        cur_ = spl["l"]
                        if cur_ in fidx:
                            idxs.append(fidx[cur_])
                    refine = (idxs, f_t2, t_t2)
        else:
            succ = fa.succs(b)
            ended_edge = None
            refine = None
        for x in succ:
            if fa.blocks[x].get("cleanup"):
                continue
            fl_x = fl
            if refine is not None and x in (refine[1], refine[2]):
                fl_x = list(fl)
                for ix_ in refine[0]:
                    fl_x[ix_] = "T" if x == refine[2] else "F"
            st = (x, c, lv, bv, tuple(fl_x), "E" if x == ended_edge else en, ie, md, sl)
            if st not in seen:
                seen.add(st)
                pred[st] = entry
                work.append(st)

    def path_to(st):
        out = []
        while st is not None and len(out) < 400:
            out.append(st)
            st = pred.get(st)
        out.reverse()
        # source lines with the abstract state, consecutive duplicates removed
        txt = []
        for (b, c, lv, bv, _fl, _en, _ie, _md, _sl) in out:
            ln = fa.loc(b).rsplit(":", 1)[-1]
            item = "L%s[c=%s,len=%s,base=%s]" % (ln, c, lv, bv)
            if not txt or txt[-1] != item:
                txt.append(item)
        return " > ".join(txt[-14:])
    ctx.count("FEATSPAN", "abstract states explored", nstates)
    if not arrivals:
        raise EngineError("FEATSPAN: the feature slice is not reachable in the abstract run")
    ctx.count("FEATSPAN", "abstract states at the feature slice", len(arrivals))
    badL = sorted(k for k in arrivals if k[0] == "G")
    ctx.ob("FEATSPAN", "length-grows-by-consumed-input-only", not foreign, fa.loc(ub),
           "`%s` only ever grows by the consumed-byte count of read_field (plus a constant)"
           % names.get(L, "_%d" % L) if not foreign else
           "`%s` is increased at %s by a value that is not the number of input bytes read_field "
           "consumed (for quoted fields the unquoted output is shorter than the input): the "
           "feature is cut short or long" % (names.get(L, "_%d" % L), sorted(foreign)))
    badB = sorted(k for k in arrivals if k[1] != "T")
    ctx.ob("FEATSPAN", "length-counts-only-this-row's-feature-bytes", not badL, fa.loc(ub),
           "on every path to the cut, `%s` is zero or the sum of the bytes consumed for fields >= 4 "
           "of the current row (it is reset when the cost field completes and never carries "
           "bytes over from a previous or skipped row)" % names.get(L, "_%d" % L) if not badL else
           "there is a path on which `%s` still holds bytes of an earlier (e.g. skipped "
           "empty-surface) row or of fields 0..3 when the feature is cut: the feature is no "
           "longer the remainder of its own row; path %s"
           % (names.get(L, "_%d" % L), path_to(arrivals[badL[0]]) if badL else ""))
    ctx.ob("FEATSPAN", "base-rebased-when-the-cost-field-completes", not badB, fa.loc(ub),
           "on every path to the cut, `%s` was set to cursor[nin..] when field 3 of the current "
           "row completed" % names.get(B, "_%d" % B) if not badB else
           "there is a path on which `%s` was not rebased at the end of the current row's cost "
           "field: the feature starts in another row or column; path %s"
           % (names.get(B, "_%d" % B), path_to(arrivals[badB[0]]) if badB else ""))
    if RE:
        ctx.ob("FEATSPAN", "counter-reset-at-every-record-end", not unreset, loc,
               "whenever the reader reports the end of a record, the field counter `%s` is 0 again "
               "before the next field is read (also when the row is skipped or reported)"
               % names.get(C, "_%d" % C) if not unreset else
               "a record can end with the field counter `%s` left at %s when the next field is read "
               "(e.g. on the path that skips an empty surface): the following rows are taken for "
               "further columns of that row and are silently dropped; path %s"
               % (names.get(C, "_%d" % C), sorted(unreset), path_to(unreset[sorted(unreset)[0]])))
    if eof_clause:
        ctx.ob("FEATSPAN", "input-end-at-a-row-start-is-not-a-row", not eof_bad, loc,
               "when the input runs out before any field of a row was started and nothing was "
               "produced (only blank lines, or the line feed after a final CR, were consumed), no "
               "`row too short` error can follow" if not eof_bad else
               "csv-core consumes blank lines silently: the read that hits the end of the input can "
               "report consumed bytes, no output and no started row. That outcome reaches the `row "
               "too short` error at %s - the only test in front of it is on the consumed count, not on "
               "the output - so a lexicon that ends with a blank line (or CRLF) is rejected as a whole; "
               "path %s" % (sorted(fa.loc(x) for x in eof_bad), path_to(eof_bad[sorted(eof_bad)[0]])))
    if term_clause:
        what = {"IE": "the input runs out inside the last field (no final newline)",
                "FE": "the last field is returned when the input is already empty (the row ends in a comma "
                      "and there is no final newline)",
                "FN": "a field that consumed its record terminator ends the row"}
        ctx.ob("FEATSPAN", "terminator-is-cut-only-when-one-was-consumed", not term_bad, fa.loc(ub),
               "the cut `%s` removes one byte exactly when a record terminator is among the counted bytes: "
               "the two ways a row can end without one (input empty inside a field; the last field "
               "returned on empty input) each credit the length with one byte" % endtxt if not term_bad else
               "; ".join("when %s the length carries %d byte(s) of credit but the cut is `%s`: %s"
                         % (what[m_], s_, endtxt,
                            "the last byte of the feature (the comma) is cut off - a missing final newline "
                            "changes the word" if m_ in ("IE", "FE") and s_ < cut_k else
                            "the record terminator stays in the feature" if m_ == "FN" or s_ > cut_k else "")
                         for (m_, s_) in sorted(term_bad)) +
               "; path %s" % path_to(term_bad[sorted(term_bad)[0]]))
    ctx.assume("FEATSPAN decides where the feature slice starts and which bytes its length counts; "
               "the off-by-one for the record terminator (len - 1, CRLF) is csv-core behaviour "
               "and is not decided")


RAW_OK = ("deref", "as_slice", "as_ref", "borrow", "as_bytes", "index", "deref_mut", "as_mut_slice", "ok")


def rawinput(ctx):
    """RAWINPUT (C11): the bytes Lexicon::parse_csv sees are the bytes that were read. Every
    caller hands it the buffer filled by `read_to_end` (or its own byte-slice parameter)
    through reborrows only: no trimming, case folding, replacing or re-encoding in between (a
    trailing space of the last feature, or a final blank cell, would change)."""
    crate = ctx.facts("A").lib
    E = Effects(crate)
    n = 0
    for p, f in sorted(crate.fns.items()):
        if not f.body or f.krate != "vibrato":
            continue
        fa = E.fa(p)
        for b, t in fa.calls():
            if not any(strip_generics(x).endswith("Lexicon::parse_csv") for x in callee_paths(t)):
                continue
            n += 1
            chain = []
            cur = t["args"][0]
            src = None
            for _ in range(30):
                o = fa.origin(cur)
                if o[0] == "call" and sorted(_names(o[2]))[0] in ("new", "with_capacity", "default") \
                        and "Vec" in " ".join(_paths(o[2])):
                    # a local buffer: it may be handed out mutably to read_to_end only
                    fills = []
                    for cb, ct in fa.calls():
                        for a in ct["args"]:
                            pl = op_place(a)
                            if pl is None or not fa.fn.locals[pl["l"]]["ty"].startswith("&mut"):
                                continue
                            oo = fa.origin(a)
                            if oo[0] == "call" and oo[1] == o[1]:
                                fills.append(sorted(_names(ct))[0])
                    src = "the buffer filled by %s" % (sorted(set(fills)) or "?")
                    extra = set(fills) - {"read_to_end"}
                    if extra or not fills:
                        chain.append("<buffer also modified by %s>" % sorted(extra))
                    break
                if o[0] == "call":
                    nm = sorted(_names(o[2]))[0]
                    chain.append(nm)
                    if nm == "index" and len(o[2]["args"]) == 2:
                        r = fa.origin(o[2]["args"][1])
                        full = r[0] == "rv" and r[1]["k"] == "agg" and str(r[1].get("adt", "")).endswith("RangeFull")
                        if not full:
                            chain.append("<sub-range>")
                    if not o[2]["args"]:
                        break
                    cur = o[2]["args"][0]
                    continue
                if o[0] == "arg":
                    src = "parameter %d" % o[1]
                elif o[0] == "place" and o[1].root[0] == "call" and len(chain) < 24 and \
                        sorted(_names(fa.term(o[1].root[1])))[0] in ("branch", "unwrap", "expect") and \
                        fa.term(o[1].root[1])["args"]:
                    # payload of `?` / unwrap on a Result: go on with the Result
                    chain.append("ok")
                    cur = fa.term(o[1].root[1])["args"][0]
                    continue
                elif o[0] == "place" and o[1].root[0] == "local":
                    l = o[1].root[1]
                    # the value a helper returned (after expansion: several assignments, one per
                    # return path): follow the `Ok(x)` / plain-move definitions
                    nxt = None
                    for (db, di, dk, dp) in fa.defs().get(l, []):
                        if dk == "assign" and dp["k"] == "agg" and dp.get("variant") == "Ok" and dp["ops"]:
                            nxt = dp["ops"][0]
                        elif dk == "assign" and dp["k"] == "use" and op_place(dp["op"]) is not None \
                                and not op_place(dp["op"])["p"] and len(fa.defs().get(l, [])) > 1:
                            nxt = dp["op"]
                    if nxt is not None and len(chain) < 24:
                        chain.append("ok")
                        cur = nxt
                        continue
                    # a local buffer: it must be filled by read_to_end only
                    fills = []
                    for cb, ct in fa.calls():
                        for a in ct["args"]:
                            pl = op_place(a)
                            d = fa.single_def(pl["l"]) if pl else None
                            if d and d[2] == "assign" and d[3]["k"] == "ref" and d[3].get("bk") == "mut" and \
                                    d[3]["place"]["l"] == l:
                                fills.append(sorted(_names(ct))[0])
                    src = "buffer filled by %s" % (sorted(set(fills)) or "?")
                    if set(fills) - {"read_to_end", "read_to_string"}:
                        chain.append("<buffer modified by %s>" % sorted(set(fills) - {"read_to_end"}))
                elif o[0] == "place":
                    src = repr(o[1])
                break
            bad = [c for c in chain if c not in RAW_OK and c not in ("new", "from_elem")]
            ctx.ob("RAWINPUT", "%s|parse_csv-input" % p, not bad and src is not None, fa.loc(b),
                   "%s parses %s unchanged" % (p.split("::")[-1], src) if not bad and src else
                   "%s transforms the bytes before Lexicon::parse_csv sees them (%s): rows are no "
                   "longer taken byte for byte (e.g. a feature ending in a space, or trailing "
                   "cells, are altered)" % (p.split("::")[-1], ", ".join(bad) or "source not found"))
    ctx.floor("RAWINPUT", "callers of Lexicon::parse_csv", n, 5)
    # one level up: library functions that take the caller's reader and hand it to a lexicon
    # reader (Lexicon::from_reader, UnkHandler::from_reader) pass that very reader - not a
    # buffer they read, edited and wrapped again (CR stripping, trimming, re-encoding)
    m = 0
    for p, f in sorted(crate.fns.items()):
        if not f.body or f.krate != "vibrato":
            continue
        fa = E.fa(p)
        for b, t in fa.calls():
            ps = [strip_generics(x) for x in callee_paths(t)]
            if not any(x.endswith("Lexicon::from_reader") or x.endswith("UnkHandler::from_reader") for x in ps):
                continue
            m += 1
            o = fa.origin(t["args"][0])
            for _ in range(4):
                # lossless wrappers of a reader
                if o[0] == "call" and o[2]["args"] and (
                        sorted(_names(o[2]))[0] in ("by_ref", "as_mut", "borrow_mut") or
                        (sorted(_names(o[2]))[0] == "new" and "BufReader" in " ".join(_paths(o[2])))):
                    o = fa.origin(o[2]["args"][0])
                else:
                    break
            okr = o[0] == "arg" or (o[0] == "place" and o[1].root[0] == "arg")
            ctx.ob("RAWINPUT", "%s|reader-passed-through|%s" % (p, ps[0].rsplit("::", 2)[-2]), okr, fa.loc(b),
                   "%s hands its caller's reader to %s unchanged" % (p.split("::")[-1], "::".join(ps[0].split("::")[-2:]))
                   if okr else
                   "%s does not hand its caller's reader to %s but something it built itself (%s): "
                   "the rows can be altered before the lexicon parser sees them (e.g. bytes "
                   "stripped regardless of quoting)" % (p.split("::")[-1], "::".join(ps[0].split("::")[-2:]),
                                                        o[0] if o[0] != "call" else "result of " + sorted(_names(o[2]))[0]))
    ctx.floor("RAWINPUT", "library callers of the lexicon readers", m, 4)


def csvdefault(ctx):
    """CSVDEFAULT (C11, C14): lexicon rows are read and written with csv-core's default dialect
    (comma, double quote, no comment character, no escape). A builder option (comment, delimiter,
    quote, escape, double_quote, terminator) changes which rows exist and where fields end: e.g.
    `comment(Some(b'#'))` silently drops every row whose surface starts with `#`."""
    crate = ctx.facts("A").lib
    E = Effects(crate)
    n = 0
    bad = []
    for p, f in sorted(crate.fns.items()):
        if not f.body or f.krate != "vibrato":
            continue
        fa = E.fa(p)
        for b, t in fa.calls():
            ps = [strip_generics(x) for x in callee_paths(t)]
            if any("csv_core::" in x and ("Reader::new" in x or "Writer::new" in x) for x in ps):
                n += 1
            for x in ps:
                if "csv_core::" in x and ("ReaderBuilder::" in x or "WriterBuilder::" in x):
                    nm = x.rsplit("::", 1)[-1]
                    if nm not in ("new", "build", "default"):
                        bad.append("%s(..) in %s at %s" % (nm, p.split("::")[-1], fa.loc(b)))
                    else:
                        n += 1
    ctx.ob("CSVDEFAULT", "csv-core-default-dialect", not bad, "vibrato/src (csv_core users)",
           "every csv-core reader/writer uses the default dialect (%d construction sites)" % n if not bad else
           "a csv-core reader/writer is configured with %s: rows and field boundaries no longer "
           "follow the plain CSV dialect of the lexicon files" % "; ".join(bad))
    ctx.floor("CSVDEFAULT", "csv-core constructions", n, 3)

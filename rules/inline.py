"""Helper inlining on the fact level.

Intraprocedural shape rules anchor on the functions of the pinned tree. The commonest
behaviour-preserving edit (and the commonest disguise of a slip) is to move a stretch of such a
function into a *new* named helper and call it, perhaps twice. So that every rule keeps seeing
the statements it judges, calls to functions that do not exist in the baseline of the pinned tree
(spec/fn_baseline.json: every function path of the workspace crates, all configurations) are
expanded in their callers when a crate's facts are loaded: the callee's blocks and locals are
copied in (locals and blocks renumbered), its parameters become assignments from the call's
arguments, its `return` becomes an assignment to the call's destination and a jump to the
continuation. A helper (or closure) whose every use was expanded is then dropped from the crate:
its statements live on in the callers, where the whole-crate audits see them once, in context. Only named,
non-recursive functions of the same crate with a body are expanded, at most three levels deep.

The same is done for a *local closure that is called by name* (`let gather = |rows| {..};
gather(a); gather(b);`) unless the pinned tree already calls that closure by name
(`direct_closures` in the baseline; rules look into those explicitly): its body is copied to each
call, the tupled arguments become its parameters, and every use of a captured variable
(`(*_1).k`) is redirected to a local that receives capture k where the closure is created.
Closures handed to adaptors (`map`, `for_each`, `sort_by`, ..) are left alone.

This changes no verdict on the pinned tree: it has no function outside its own baseline.
"""
import copy
import json
import os

HERE = os.path.dirname(os.path.abspath(__file__))
BASELINE = os.path.join(os.path.dirname(HERE), "spec", "fn_baseline.json")
_base = None


_direct = None
_sole = {}


def baseline():
    global _base, _direct, _sole
    if _base is None:
        with open(BASELINE) as fh:
            j = json.load(fh)
        _base = set(j["functions"])
        _direct = set(j.get("direct_closures", []))
        _sole = j.get("sole_caller", {})
    return _base


def sole_caller(path):
    """the one function that called `path` on the confirmed tree (private helpers), or None"""
    baseline()
    return _sole.get(path)


def baseline_direct_closures():
    baseline()
    return _direct


def _strip(path):
    # `a::b::<T>::c` -> `a::b::c`
    out, depth = [], 0
    i = 0
    while i < len(path):
        ch = path[i]
        if ch == "<" and path[i - 2:i] == "::":
            depth += 1
            # drop the preceding `::`
            del out[-2:]
        elif ch == ">" and depth:
            depth -= 1
            i += 1
            continue
        if not depth:
            out.append(ch)
        i += 1
    return "".join(out)


def _callee_path(term):
    f = (term.get("func") or {}).get("k") or {}
    fn = f.get("fn")
    if not fn:
        return None
    r = fn.get("resolved") or fn
    return r.get("path")


def _shift_place(pl, dl):
    pl["l"] += dl
    for e in pl["p"]:
        if isinstance(e, dict) and "i" in e and isinstance(e["i"], int):
            e["i"] += dl


def _shift_operand(op, dl):
    if not isinstance(op, dict):
        return
    for k in ("c", "m"):
        if k in op and isinstance(op[k], dict) and "l" in op[k]:
            _shift_place(op[k], dl)


def _walk_shift(x, dl):
    """shift every place/operand inside an rvalue / terminator payload"""
    if isinstance(x, dict):
        if "l" in x and "p" in x and isinstance(x["l"], int):
            _shift_place(x, dl)
            return
        for k, v in x.items():
            if k in ("sp", "fn_sp", "func", "ty", "from_ty", "arg_tys", "dest_ty", "targs", "fields"):
                continue
            _walk_shift(v, dl)
    elif isinstance(x, list):
        for v in x:
            _walk_shift(v, dl)


def _retarget(term, db):
    for k in ("t", "otherwise", "unwind"):
        if isinstance(term.get(k), int):
            term[k] += db
    if "targets" in term:
        term["targets"] = [t + db for t in term["targets"]]


def new_helpers(crate_json):
    base = baseline()
    out = {}
    for f in crate_json["fns"]:
        if not f.get("body") or f.get("kind") not in ("Fn", "AssocFn"):
            continue
        if f.get("impl_trait") or f.get("derive"):
            continue
        if f["path"] in base:
            continue
        out[f["path"]] = f
    return out


def expand(crate_json):
    """Expand calls to new helpers in every function of the crate (in place). Returns the number
    of call sites expanded."""
    helpers = new_helpers(crate_json)
    closures = new_direct_closures(crate_json)
    if not helpers and not closures:
        return 0
    total = 0
    for f in crate_json["fns"]:
        body = f.get("body")
        if not body:
            continue
        total += _desugar_for_each(f, closures)
        total += _desugar_option_map(f, closures)
        total += _desugar_transpose(f)
        total += _expand_fn(f, helpers, 0, {f["path"]}, closures)
    if total:
        _drop_absorbed(crate_json, helpers, closures)
    return total


def _fn_refs(x, out):
    """paths of every function item mentioned (callee of a call, function passed as a value)"""
    if isinstance(x, dict):
        fn = x.get("fn")
        if isinstance(fn, dict) and "path" in fn:
            out.add(fn["path"])
            out.add(_strip(fn["path"]))
            r = fn.get("resolved")
            if isinstance(r, dict) and "path" in r:
                out.add(r["path"])
                out.add(_strip(r["path"]))
        for k, v in x.items():
            if k not in ("sp", "fn_sp"):
                _fn_refs(v, out)
    elif isinstance(x, list):
        for v in x:
            _fn_refs(v, out)


def _mentions(x, local):
    if isinstance(x, dict):
        if "l" in x and "p" in x and isinstance(x["l"], int):
            return x["l"] == local or any(isinstance(e, dict) and e.get("i") == local for e in x["p"])
        return any(_mentions(v, local) for k, v in x.items() if k not in ("sp", "fn_sp", "func"))
    if isinstance(x, list):
        return any(_mentions(v, local) for v in x)
    return False


def _only_feeds_inlined(body, local, depth=0):
    """every use of `local` (a closure value) is the callee operand of an expanded call"""
    if depth > 8:
        return False
    for bb in body["blocks"]:
        for s in bb["stmts"]:
            if "lhs" in s and s["lhs"]["l"] == local and not s["lhs"]["p"]:
                continue                                    # its definition
            if not _mentions(s, local):
                continue
            if s.get("inlparam"):
                # handed to an expanded helper / closure as a parameter: what happens to it there
                rvp = s.get("rv") or {}
                pl = _op_place(rvp.get("op")) if rvp.get("k") == "use" else None
                if pl is not None and pl == {"l": local, "p": []} and not s["lhs"]["p"] and \
                        _only_feeds_inlined(body, s["lhs"]["l"], depth + 1):
                    continue
                return False
            rv = s.get("rv") or {}
            if "lhs" in s and not s["lhs"]["p"] and rv.get("k") == "ref" and rv["place"] == {"l": local, "p": []}:
                if _only_feeds_inlined(body, s["lhs"]["l"], depth + 1):
                    continue
            return False
        if _mentions({k: v for k, v in bb["term"].items() if k != "func"}, local):
            return False
    return True


def _drop_absorbed(crate_json, helpers, closures):
    """A new helper or locally called closure whose every use was expanded is represented by its
    copies in the callers; the function itself is dropped so that whole-crate audits do not count
    its sites twice."""
    drop = set()
    # closures: every aggregate creating it feeds expanded calls only
    made = {}
    for f in crate_json["fns"]:
        body = f.get("body")
        if not body:
            continue
        for bb in body["blocks"]:
            for s in bb["stmts"]:
                rv = s.get("rv") or {}
                if rv.get("k") == "agg" and rv.get("agg") == "closure" and rv.get("closure") in closures \
                        and "lhs" in s and not s["lhs"]["p"]:
                    ok = _only_feeds_inlined(body, s["lhs"]["l"])
                    made[rv["closure"]] = made.get(rv["closure"], True) and ok
                elif rv.get("k") == "agg" and rv.get("agg") == "closure" and rv.get("closure") in closures:
                    made[rv["closure"]] = False
    drop |= {c for c, ok in made.items() if ok}
    # helpers: no call and no function value refers to them any more
    refs = set()
    for f in crate_json["fns"]:
        if f["path"] in helpers:
            continue                      # a helper's own body does not keep another helper alive
        if f.get("body"):
            _fn_refs(f["body"], refs)
    for hp in helpers:
        if hp not in refs and _strip(hp) not in refs:
            drop.add(hp)
    if drop:
        # an absorbed closure's copies were made from closures kept in the bodies of other
        # absorbed functions too; only exact paths are dropped (closures nested in them stay)
        crate_json["fns"] = [f for f in crate_json["fns"] if f["path"] not in drop]
        crate_json["absorbed"] = sorted(drop)


def new_direct_closures(crate_json):
    """closures that the pinned tree does not call by name (`let f = |..| ..; f(x)`)"""
    keep = baseline_direct_closures()
    return {f["path"]: f for f in crate_json["fns"]
            if f.get("kind") == "Closure" and f.get("body") and f["path"] not in keep}


CALL_TRAITS = ("std::ops::Fn::call", "std::ops::FnMut::call_mut", "std::ops::FnOnce::call_once")


def _single_defs(body):
    defs = {}
    for bi, bb in enumerate(body["blocks"]):
        for si, s in enumerate(bb["stmts"]):
            if "lhs" in s and not s["lhs"]["p"]:
                defs.setdefault(s["lhs"]["l"], []).append((bi, si, s))
        t = bb["term"]
        if t.get("k") == "call" and isinstance(t.get("dest"), dict) and not t["dest"]["p"]:
            defs.setdefault(t["dest"]["l"], []).append((bi, None, None))
    return defs


def _op_place(op):
    if isinstance(op, dict):
        for k in ("c", "m"):
            if k in op and isinstance(op[k], dict) and "l" in op[k]:
                return op[k]
    return None


def _find_closure_agg(body, op, cpath):
    """the statement `_x = [closure cpath](captures..)` that the callee operand of a direct call
    refers to (through copies, moves and re-borrows of a local), or None"""
    defs = _single_defs(body)
    pl = _op_place(op)
    for _ in range(8):
        if pl is None or any(e != "*" for e in pl["p"]):
            return None
        d = defs.get(pl["l"])
        if not d or len(d) != 1 or d[0][2] is None:
            return None
        bi, si, s = d[0]
        rv = s["rv"]
        if rv["k"] == "agg" and rv.get("agg") == "closure":
            return (bi, si, s) if cpath is None or rv.get("closure") == cpath else None
        if rv["k"] in ("use", "cast"):
            pl = _op_place(rv["op"])
        elif rv["k"] in ("ref", "rawptr"):
            pl = rv.get("place")
        else:
            return None
    return None


def _subst_captures(x, self_local, caps):
    """rewrite `(*_self).k ...` / `_self.k ...` (a captured variable) to the local that holds
    the capture in the enclosing function"""
    if isinstance(x, dict):
        if "l" in x and "p" in x and isinstance(x["l"], int):
            if x["l"] == self_local:
                p = x["p"]
                j = 1 if p and p[0] == "*" else 0
                if len(p) > j and isinstance(p[j], dict) and p[j].get("closure") and p[j].get("f") in caps:
                    k = p[j]["f"]
                    rest = p[j + 1:]
                    ref = caps.get(("ref", k))
                    if ref is not None and rest and rest[0] == "*":
                        # a variable captured by reference: `*(*_1).k` is that variable itself
                        x["l"] = ref["l"]
                        x["p"] = copy.deepcopy(ref["p"]) + rest[1:]
                    else:
                        x["l"] = caps[k]
                        x["p"] = rest
            return
        for k, v in x.items():
            if k in ("sp", "fn_sp", "func", "ty", "from_ty", "arg_tys", "dest_ty", "targs", "fields"):
                continue
            _subst_captures(v, self_local, caps)
    elif isinstance(x, list):
        for v in x:
            _subst_captures(v, self_local, caps)


def _capture_locals(body, agg, cbody, memo):
    bi, si, s = agg
    key = (id(body), s["lhs"]["l"])
    if key in memo:
        return memo[key]
    # type of capture k as the closure body sees it
    tys = {}

    def scan(x):
        if isinstance(x, dict):
            if x.get("closure") and "f" in x and "t" in x:
                tys.setdefault(x["f"], x["t"])
            for v in x.values():
                scan(v)
        elif isinstance(x, list):
            for v in x:
                scan(v)
    scan(cbody["blocks"])
    scan(cbody.get("debug", []))
    caps = {}
    ins = []
    defs = _single_defs(body)
    for k, op in enumerate(s["rv"]["ops"]):
        pl = _op_place(op)
        if pl is not None and not pl["p"]:
            d = defs.get(pl["l"])
            if d and len(d) == 1 and d[0][2] is not None and d[0][2]["rv"]["k"] == "ref" and \
                    not any(isinstance(e, dict) and "i" in e for e in d[0][2]["rv"]["place"]["p"]):
                caps[("ref", k)] = d[0][2]["rv"]["place"]
        ty = body["locals"][pl["l"]]["ty"] if pl is not None and not pl["p"] else tys.get(k, "?")
        body["locals"].append({"ty": ty})
        caps[k] = len(body["locals"]) - 1
        src = {"c": copy.deepcopy(pl)} if pl is not None else copy.deepcopy(op)
        ins.append({"lhs": {"l": caps[k], "p": []}, "rv": {"k": "use", "op": src}, "sp": s.get("sp")})
    stmts = body["blocks"][bi]["stmts"]
    # after the aggregate (the statement object, not its index: earlier insertions shift it)
    at = next(i for i, x in enumerate(stmts) if x is s) + 1
    stmts[at:at] = ins
    memo[key] = caps
    return caps


def _desugar_for_each(f, closures):
    """`iter.for_each(|x| body)` with a closure written on the spot is the loop
    `while let Some(x) = iter.next() { body }`: the call is replaced by that loop (a `next` call, a
    switch on the discriminant, a direct call of the closure that the expansion below then copies
    in), so that the loop rules read a `for_each` as they read a `for`. The pinned tree has no
    `for_each`."""
    body = f["body"]
    n = 0
    for bi in range(len(body["blocks"])):
        bb = body["blocks"][bi]
        term = bb["term"]
        if term.get("k") != "call" or len(term.get("args") or []) != 2:
            continue
        fn = ((term.get("func") or {}).get("k") or {}).get("fn") or {}
        if fn.get("path") != "std::iter::Iterator::for_each":
            continue
        agg = _find_closure_agg(body, term["args"][1], None)
        cpl = _op_place(term["args"][1])
        if agg is None or cpl is None or cpl["p"]:
            continue
        c = closures.get(agg[2]["rv"]["closure"])
        if c is None or c["body"]["arg_count"] != 2 or c["path"] == f["path"]:
            continue
        iter_ty = (term.get("arg_tys") or ["?"])[0]
        item_ty = c["body"]["locals"][2]["ty"]
        clos_ty = body["locals"][cpl["l"]]["ty"]
        sp = term.get("sp")
        L = body["locals"]

        def new(ty, mut=False):
            L.append({"ty": ty, "mut": True} if mut else {"ty": ty})
            return len(L) - 1
        it = new(iter_ty, True)
        r = new("&mut " + iter_ty)
        opt = new("std::option::Option<%s>" % item_ty, True)
        d = new("isize")
        tup = new("(%s,)" % item_ty)
        cref = new("&mut " + clos_ty)
        unit = new("()")
        B = body["blocks"]
        H, S, C, X, E = len(B), len(B) + 1, len(B) + 2, len(B) + 3, len(B) + 4
        cont = term.get("t")
        dest = term["dest"]
        bb["stmts"].append({"lhs": {"l": it, "p": []}, "rv": {"k": "use", "op": copy.deepcopy(term["args"][0])}, "sp": sp})
        bb["term"] = {"sp": sp, "k": "goto", "t": H, "desugared": "for_each"}
        B.append({"stmts": [{"lhs": {"l": r, "p": []}, "rv": {"k": "ref", "bk": "mut", "place": {"l": it, "p": []}}, "sp": sp}],
                  "term": {"sp": sp, "k": "call",
                           "func": {"k": {"ty": "fn(&mut %s) -> Option<%s> {<%s as std::iter::Iterator>::next}" % (iter_ty, item_ty, iter_ty),
                                          "fn": {"path": "std::iter::Iterator::next", "krate": "core", "args": [iter_ty],
                                                 "name": "next", "trait": "std::iter::Iterator", "self_ty": iter_ty}}},
                           "args": [{"m": {"l": r, "p": []}}], "arg_tys": ["&mut " + iter_ty],
                           "dest": {"l": opt, "p": []}, "dest_ty": "std::option::Option<%s>" % item_ty, "t": S, "fn_sp": sp}})
        B.append({"stmts": [{"lhs": {"l": d, "p": []}, "rv": {"k": "discr", "place": {"l": opt, "p": []},
                                                                "ty": "std::option::Option<%s>" % item_ty}, "sp": sp}],
                  "term": {"sp": sp, "k": "switch", "op": {"m": {"l": d, "p": []}}, "ty": "isize", "vals": [0, 1],
                           "targets": [E, C], "otherwise": X}})
        item = {"m": {"l": opt, "p": [{"dc": 1, "n": "Some"},
                                      {"f": 0, "o": "std::option::Option", "v": "Some", "n": "0", "t": item_ty}]}}
        B.append({"stmts": [{"lhs": {"l": tup, "p": []}, "rv": {"k": "agg", "agg": "tuple", "ops": [item]}, "sp": sp},
                            {"lhs": {"l": cref, "p": []}, "rv": {"k": "ref", "bk": "mut", "place": {"l": cpl["l"], "p": []}}, "sp": sp}],
                  "term": {"sp": sp, "k": "call",
                           "func": {"k": {"ty": "closure call", "fn": {"path": "std::ops::FnMut::call_mut", "krate": "core",
                                                                       "args": [clos_ty, "(%s,)" % item_ty], "name": "call_mut",
                                                                       "trait": "std::ops::FnMut", "self_ty": clos_ty,
                                                                       "resolved": {"path": c["path"], "krate": f.get("krate", ""), "args": [],
                                                                                    "kind": "", "def": "Closure"}}}},
                           "args": [{"m": {"l": cref, "p": []}}, {"m": {"l": tup, "p": []}}],
                           "arg_tys": ["&mut " + clos_ty, "(%s,)" % item_ty],
                           "dest": {"l": unit, "p": []}, "dest_ty": "()", "t": H, "fn_sp": sp}})
        B.append({"stmts": [], "term": {"sp": sp, "k": "unreachable"}})
        B.append({"stmts": [{"lhs": copy.deepcopy(dest), "rv": {"k": "use", "op": {"k": {"ty": "()", "zst": True, "dbg": "()"}}}, "sp": sp}],
                  "term": {"sp": sp, "k": "goto", "t": cont} if cont is not None else {"sp": sp, "k": "unreachable"}})
        n += 1
    return n


def _opt_ty(inner):
    return "std::option::Option<%s>" % inner


def _desugar_option_map(f, closures):
    """`opt.map(|x| body)` with a closure that the pinned tree does not have is the match
    `match opt { None => None, Some(x) => Some(body) }`: the call is replaced by that match (a
    switch on the discriminant, a direct call of the closure that the expansion below copies in,
    an Option aggregate on each arm). Only closures outside the baseline are touched, so nothing
    changes on the pinned tree; a refactoring that folds an `if let Some(x) = opt { .. } else { .. }`
    into a combinator is then read like the `if let` it came from."""
    body = f["body"]
    base = baseline()
    n = 0
    for bi in range(len(body["blocks"])):
        bb = body["blocks"][bi]
        term = bb["term"]
        if term.get("k") != "call" or len(term.get("args") or []) != 2:
            continue
        fn = ((term.get("func") or {}).get("k") or {}).get("fn") or {}
        if fn.get("path") != "std::option::Option::<T>::map":
            continue
        agg = _find_closure_agg(body, term["args"][1], None)
        cpl = _op_place(term["args"][1])
        opl = _op_place(term["args"][0])
        if agg is None or cpl is None or cpl["p"] or opl is None or opl["p"]:
            continue
        cpath = agg[2]["rv"]["closure"]
        c = closures.get(cpath)
        if c is None or cpath in base or c["body"]["arg_count"] != 2 or cpath == f["path"]:
            continue
        targs = fn.get("args") or []
        if len(targs) < 2:
            continue
        # only the idiom `opt.map(|x| fallible(x)).transpose()`: the rules read the other uses of a
        # new closure in place (SCORERCHK, MAPCOMPOSE, LATTICE ..), and writing those out as well
        # changed their readings for the worse
        dl = term["dest"]["l"] if not term["dest"]["p"] else None
        feeds_transpose = False
        for bb2 in body["blocks"]:
            t2 = bb2["term"]
            f2 = ((t2.get("func") or {}).get("k") or {}).get("fn") or {}
            if t2.get("k") == "call" and f2.get("name") == "transpose" and t2.get("args"):
                p2 = _op_place(t2["args"][0])
                if p2 is not None and not p2["p"] and p2["l"] == dl:
                    feeds_transpose = True
        if not feeds_transpose:
            continue
        item_ty, res_ty = c["body"]["locals"][2]["ty"], targs[1]
        clos_ty = body["locals"][cpl["l"]]["ty"]
        sp = term.get("sp")
        L = body["locals"]

        def new(ty, mut=False):
            L.append({"ty": ty, "mut": True} if mut else {"ty": ty})
            return len(L) - 1
        d = new("isize")
        tup = new("(%s,)" % item_ty)
        r = new(res_ty)
        B = body["blocks"]
        N, S, W, X = len(B), len(B) + 1, len(B) + 2, len(B) + 3
        cont = term.get("t")
        dest = term["dest"]
        oty = body["locals"][opl["l"]]["ty"]
        bb["stmts"].append({"lhs": {"l": d, "p": []}, "rv": {"k": "discr", "place": {"l": opl["l"], "p": []}, "ty": oty}, "sp": sp})
        bb["term"] = {"sp": sp, "k": "switch", "op": {"m": {"l": d, "p": []}}, "ty": "isize", "vals": [0, 1],
                      "targets": [N, S], "otherwise": X, "desugared": "Option::map"}
        jump = {"sp": sp, "k": "goto", "t": cont} if cont is not None else {"sp": sp, "k": "unreachable"}
        B.append({"stmts": [{"lhs": copy.deepcopy(dest), "rv": {"k": "agg", "agg": "adt", "adt": "std::option::Option",
                                                                "targs": [res_ty], "variant": "None", "vi": 0, "fields": [], "ops": []},
                             "sp": sp}], "term": copy.deepcopy(jump)})
        item = {"m": {"l": opl["l"], "p": [{"dc": 1, "n": "Some"},
                                           {"f": 0, "o": "std::option::Option", "v": "Some", "n": "0", "t": item_ty}]}}
        B.append({"stmts": [{"lhs": {"l": tup, "p": []}, "rv": {"k": "agg", "agg": "tuple", "ops": [item]}, "sp": sp}],
                  "term": {"sp": sp, "k": "call",
                           "func": {"k": {"ty": "closure call", "fn": {"path": "std::ops::FnOnce::call_once", "krate": "core",
                                                                       "args": [clos_ty, "(%s,)" % item_ty], "name": "call_once",
                                                                       "trait": "std::ops::FnOnce", "self_ty": clos_ty,
                                                                       "resolved": {"path": cpath, "krate": f.get("krate", ""), "args": [],
                                                                                    "kind": "", "def": "Closure"}}}},
                           "args": [{"m": {"l": cpl["l"], "p": []}}, {"m": {"l": tup, "p": []}}],
                           "arg_tys": [clos_ty, "(%s,)" % item_ty],
                           "dest": {"l": r, "p": []}, "dest_ty": res_ty, "t": W, "fn_sp": sp}})
        B.append({"stmts": [{"lhs": copy.deepcopy(dest), "rv": {"k": "agg", "agg": "adt", "adt": "std::option::Option",
                                                                "targs": [res_ty], "variant": "Some", "vi": 1, "fields": ["0"],
                                                                "ops": [{"m": {"l": r, "p": []}}]}, "sp": sp}],
                  "term": copy.deepcopy(jump)})
        B.append({"stmts": [], "term": {"sp": sp, "k": "unreachable"}})
        n += 1
    return n


def _desugar_transpose(f):
    """`opt.transpose()` on an `Option<Result<T, E>>` written out:
    None => Ok(None), Some(Ok(v)) => Ok(Some(v)), Some(Err(e)) => Err(e). (The pinned tree has no
    `transpose`.)"""
    body = f["body"]
    n = 0
    for bi in range(len(body["blocks"])):
        bb = body["blocks"][bi]
        term = bb["term"]
        if term.get("k") != "call" or len(term.get("args") or []) != 1:
            continue
        fn = ((term.get("func") or {}).get("k") or {}).get("fn") or {}
        if fn.get("path") != "std::option::Option::<std::result::Result<T, E>>::transpose":
            continue
        opl = _op_place(term["args"][0])
        targs = fn.get("args") or []
        if opl is None or opl["p"] or len(targs) != 2:
            continue
        T, Er = targs
        sp = term.get("sp")
        L = body["locals"]

        def new(ty):
            L.append({"ty": ty})
            return len(L) - 1
        oty = body["locals"][opl["l"]]["ty"]
        rty = "std::result::Result<%s, %s>" % (T, Er)
        d1, d2, in1, in2 = new("isize"), new("isize"), new(_opt_ty(T)), new(_opt_ty(T))
        B = body["blocks"]
        TN, TS, SO, SE, X = len(B), len(B) + 1, len(B) + 2, len(B) + 3, len(B) + 4
        cont = term.get("t")
        dest = term["dest"]
        jump = {"sp": sp, "k": "goto", "t": cont} if cont is not None else {"sp": sp, "k": "unreachable"}
        some0 = [{"dc": 1, "n": "Some"}, {"f": 0, "o": "std::option::Option", "v": "Some", "n": "0", "t": rty}]

        def res(variant, vi, op):
            return {"k": "agg", "agg": "adt", "adt": "std::result::Result", "targs": [_opt_ty(T), Er], "variant": variant,
                    "vi": vi, "fields": ["0"], "ops": [op]}
        bb["stmts"].append({"lhs": {"l": d1, "p": []}, "rv": {"k": "discr", "place": {"l": opl["l"], "p": []}, "ty": oty}, "sp": sp})
        bb["term"] = {"sp": sp, "k": "switch", "op": {"m": {"l": d1, "p": []}}, "ty": "isize", "vals": [0, 1],
                      "targets": [TN, TS], "otherwise": X, "desugared": "Option::transpose"}
        B.append({"stmts": [{"lhs": {"l": in1, "p": []}, "rv": {"k": "agg", "agg": "adt", "adt": "std::option::Option", "targs": [T],
                                                                "variant": "None", "vi": 0, "fields": [], "ops": []}, "sp": sp},
                            {"lhs": copy.deepcopy(dest), "rv": res("Ok", 0, {"m": {"l": in1, "p": []}}), "sp": sp}],
                  "term": copy.deepcopy(jump)})
        B.append({"stmts": [{"lhs": {"l": d2, "p": []}, "rv": {"k": "discr", "place": {"l": opl["l"], "p": copy.deepcopy(some0)}, "ty": rty},
                             "sp": sp}],
                  "term": {"sp": sp, "k": "switch", "op": {"m": {"l": d2, "p": []}}, "ty": "isize", "vals": [0, 1],
                           "targets": [SO, SE], "otherwise": X}})
        okp = copy.deepcopy(some0) + [{"dc": 0, "n": "Ok"}, {"f": 0, "o": "std::result::Result", "v": "Ok", "n": "0", "t": T}]
        erp = copy.deepcopy(some0) + [{"dc": 1, "n": "Err"}, {"f": 0, "o": "std::result::Result", "v": "Err", "n": "0", "t": Er}]
        B.append({"stmts": [{"lhs": {"l": in2, "p": []}, "rv": {"k": "agg", "agg": "adt", "adt": "std::option::Option", "targs": [T],
                                                                "variant": "Some", "vi": 1, "fields": ["0"],
                                                                "ops": [{"m": {"l": opl["l"], "p": okp}}]}, "sp": sp},
                            {"lhs": copy.deepcopy(dest), "rv": res("Ok", 0, {"m": {"l": in2, "p": []}}), "sp": sp}],
                  "term": copy.deepcopy(jump)})
        B.append({"stmts": [{"lhs": copy.deepcopy(dest), "rv": res("Err", 1, {"m": {"l": opl["l"], "p": erp}}), "sp": sp}],
                  "term": copy.deepcopy(jump)})
        B.append({"stmts": [], "term": {"sp": sp, "k": "unreachable"}})
        n += 1
    return n


def _expand_fn(f, helpers, depth, stack, closures=None):
    body = f["body"]
    n = 0
    bi = 0
    memo = {}
    caprefs = {}
    closures = closures or {}
    chains = {}          # block index -> helpers it was copied through (recursion / depth guard)
    while bi < len(body["blocks"]):
        bb = body["blocks"][bi]
        term = bb["term"]
        chain = chains.get(bi, frozenset(stack))
        bi += 1
        if term.get("k") != "call" or len(chain) > 3:
            continue
        cp = _callee_path(term)
        if cp is None:
            continue
        h = helpers.get(cp) or helpers.get(_strip(cp))
        caps = None
        params = term["args"]
        tpath = ((term.get("func") or {}).get("k") or {}).get("fn", {}).get("path")
        agg = None
        if h is None and tpath in CALL_TRAITS and len(term["args"]) == 2:
            if cp in closures:
                agg = _find_closure_agg(body, term["args"][0], cp)
            elif cp == tpath:
                # a call through a generic `F: Fn(..)` parameter of an expanded helper: after the
                # expansion the closure that was passed in is known
                agg = _find_closure_agg(body, term["args"][0], None)
                cp = agg[2]["rv"]["closure"] if agg is not None else cp
        if agg is not None and cp in closures and cp != f["path"] and cp not in chain:
            c = closures[cp]
            tup = None
            tl = _op_place(term["args"][1])
            if tl is not None and not tl["p"]:
                for s0 in bb["stmts"]:
                    if "lhs" in s0 and s0["lhs"] == tl and s0["rv"]["k"] == "agg" and s0["rv"].get("agg") == "tuple":
                        tup = s0["rv"]["ops"]
            elif isinstance(term["args"][1], dict) and "k" in term["args"][1] and c["body"]["arg_count"] == 1:
                tup = []          # `f()` : the unit tuple is a constant
            if agg is not None and tup is not None and len(tup) + 1 == c["body"]["arg_count"]:
                caps = _capture_locals(body, agg, c["body"], memo)
                h = c
                params = [term["args"][0]] + list(tup)
        if h is None or h["path"] in chain or not h.get("body"):
            continue
        hb = h["body"]
        if len(params) != hb["arg_count"]:
            continue
        dl = len(body["locals"])
        db = len(body["blocks"])
        body["locals"].extend(copy.deepcopy(hb["locals"]))
        for d in hb.get("debug", []):
            d2 = copy.deepcopy(d)
            if d2.get("place") is not None:
                _shift_place(d2["place"], dl)
                if caps is not None:
                    _subst_captures(d2, dl + 1, caps)
                d2.pop("arg", None)
                body["debug"].append(d2)
        cont = term.get("t")
        dest = term["dest"]
        sp = term.get("sp")
        for hbb in hb["blocks"]:
            nb = copy.deepcopy(hbb)
            for s in nb["stmts"]:
                if "lhs" in s:
                    _shift_place(s["lhs"], dl)
                    _walk_shift(s["rv"], dl)
                else:
                    _walk_shift(s, dl)
            t = nb["term"]
            if t["k"] == "return":
                nb["stmts"].append({"lhs": copy.deepcopy(dest), "rv": {"k": "use", "op": {"m": {"l": dl, "p": []}}},
                                    "sp": t.get("sp", sp)})
                nb["term"] = {"sp": t.get("sp", sp), "k": "goto", "t": cont} if cont is not None else \
                    {"sp": t.get("sp", sp), "k": "unreachable"}
            else:
                for k, v in list(t.items()):
                    if k in ("sp", "fn_sp", "func", "arg_tys", "dest_ty", "k", "t", "otherwise", "targets",
                             "unwind", "vals", "ty", "expected"):
                        continue
                    _walk_shift(v, dl)
                _retarget(t, db)
            if caps is not None:
                # `x = copy (*_1).k` of a variable captured by reference is `x = &variable`
                for s0 in nb["stmts"]:
                    rv0 = s0.get("rv") or {}
                    pl0 = _op_place(rv0.get("op")) if rv0.get("k") == "use" else None
                    if pl0 is None or pl0["l"] != dl + 1:
                        continue
                    p0 = pl0["p"][1:] if pl0["p"][:1] == ["*"] else pl0["p"]
                    if len(p0) == 1 and isinstance(p0[0], dict) and p0[0].get("closure") and \
                            ("ref", p0[0].get("f")) in caps:
                        s0["rv"] = {"k": "ref", "bk": "shared", "place": copy.deepcopy(caps[("ref", p0[0]["f"])])}
                        if not s0["lhs"]["p"]:
                            caprefs[s0["lhs"]["l"]] = caps[("ref", p0[0]["f"])]
                _subst_captures(nb, dl + 1, caps)
            nb.setdefault("inl", h["path"])
            chains[len(body["blocks"])] = chain | {h["path"]}
            body["blocks"].append(nb)
        # the call block: parameters := arguments, then enter the helper
        for i, a in enumerate(params):
            bb["stmts"].append({"lhs": {"l": dl + 1 + i, "p": []}, "rv": {"k": "use", "op": copy.deepcopy(a)},
                                "sp": sp, "inlparam": h["path"]})
        bb["term"] = {"sp": sp, "k": "goto", "t": db, "inlined": h["path"]}
        n += 1
    if caprefs:
        # `_x = &var` stands for a by-reference capture that the closure body copied out; a use
        # `(*_x)..` is then `var..` itself (only when `_x` has that one definition)
        defs = _single_defs(body)
        one = {x: pl for x, pl in caprefs.items() if len(defs.get(x, [])) == 1}

        def fwd(x):
            if isinstance(x, dict):
                if "l" in x and "p" in x and isinstance(x["l"], int):
                    if x["l"] in one and x["p"][:1] == ["*"]:
                        tgt = one[x["l"]]
                        x["p"] = copy.deepcopy(tgt["p"]) + x["p"][1:]
                        x["l"] = tgt["l"]
                    return
                for k, v in x.items():
                    if k in ("sp", "fn_sp", "func", "ty", "from_ty", "arg_tys", "dest_ty", "targs", "fields"):
                        continue
                    fwd(v)
            elif isinstance(x, list):
                for v in x:
                    fwd(v)
        for bb2 in body["blocks"]:
            if bb2.get("inl"):
                fwd(bb2["stmts"])
                fwd(bb2["term"])
    return n

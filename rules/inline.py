"""Helper inlining on the fact level.

Intraprocedural shape rules anchor on the functions of the pinned tree. The commonest
behaviour-preserving edit (and the commonest disguise of a slip) is to move a stretch of such a
function into a *new* named helper and call it, perhaps twice. So that every rule keeps seeing
the statements it judges, calls to functions that do not exist in the baseline of the pinned tree
(spec/fn_baseline.json: every function path of the workspace crates, all configurations) are
expanded in their callers when a crate's facts are loaded: the callee's blocks and locals are
copied in (locals and blocks renumbered), its parameters become assignments from the call's
arguments, its `return` becomes an assignment to the call's destination and a jump to the
continuation. The helper itself stays in the crate (whole-crate audits still see it). Only named,
non-recursive functions of the same crate with a body are expanded, at most three levels deep;
closures are left alone (rules that look into closures do so explicitly).

This changes no verdict on the pinned tree: it has no function outside its own baseline.
"""
import copy
import json
import os

HERE = os.path.dirname(os.path.abspath(__file__))
BASELINE = os.path.join(os.path.dirname(HERE), "spec", "fn_baseline.json")
_base = None


def baseline():
    global _base
    if _base is None:
        with open(BASELINE) as fh:
            _base = set(json.load(fh)["functions"])
    return _base


def _strip(path):
    # `a::b::<T>::c` -> `a::b::c`
    out, depth = [], 0
    i = 0
    while i < len(path):
        ch = path[i]
        if ch == "<" and path[i - 2:i] == "::":
            depth += 1
            # drop the preceding `::`
            del out[-2:]
        elif ch == ">" and depth:
            depth -= 1
            i += 1
            continue
        if not depth:
            out.append(ch)
        i += 1
    return "".join(out)


def _callee_path(term):
    f = (term.get("func") or {}).get("k") or {}
    fn = f.get("fn")
    if not fn:
        return None
    r = fn.get("resolved") or fn
    return r.get("path")


def _shift_place(pl, dl):
    pl["l"] += dl
    for e in pl["p"]:
        if isinstance(e, dict) and "i" in e and isinstance(e["i"], int):
            e["i"] += dl


def _shift_operand(op, dl):
    if not isinstance(op, dict):
        return
    for k in ("c", "m"):
        if k in op and isinstance(op[k], dict) and "l" in op[k]:
            _shift_place(op[k], dl)


def _walk_shift(x, dl):
    """shift every place/operand inside an rvalue / terminator payload"""
    if isinstance(x, dict):
        if "l" in x and "p" in x and isinstance(x["l"], int):
            _shift_place(x, dl)
            return
        for k, v in x.items():
            if k in ("sp", "fn_sp", "func", "ty", "from_ty", "arg_tys", "dest_ty", "targs", "fields"):
                continue
            _walk_shift(v, dl)
    elif isinstance(x, list):
        for v in x:
            _walk_shift(v, dl)


def _retarget(term, db):
    for k in ("t", "otherwise", "unwind"):
        if isinstance(term.get(k), int):
            term[k] += db
    if "targets" in term:
        term["targets"] = [t + db for t in term["targets"]]


def new_helpers(crate_json):
    base = baseline()
    out = {}
    for f in crate_json["fns"]:
        if not f.get("body") or f.get("kind") not in ("Fn", "AssocFn"):
            continue
        if f.get("impl_trait") or f.get("derive"):
            continue
        if f["path"] in base:
            continue
        out[f["path"]] = f
    return out


def expand(crate_json):
    """Expand calls to new helpers in every function of the crate (in place). Returns the number
    of call sites expanded."""
    helpers = new_helpers(crate_json)
    if not helpers:
        return 0
    total = 0
    for f in crate_json["fns"]:
        body = f.get("body")
        if not body:
            continue
        total += _expand_fn(f, helpers, 0, {f["path"]})
    return total


def _expand_fn(f, helpers, depth, stack):
    body = f["body"]
    n = 0
    bi = 0
    chains = {}          # block index -> helpers it was copied through (recursion / depth guard)
    while bi < len(body["blocks"]):
        bb = body["blocks"][bi]
        term = bb["term"]
        chain = chains.get(bi, frozenset(stack))
        bi += 1
        if term.get("k") != "call" or len(chain) > 3:
            continue
        cp = _callee_path(term)
        if cp is None:
            continue
        h = helpers.get(cp) or helpers.get(_strip(cp))
        if h is None or h["path"] in chain or not h.get("body"):
            continue
        hb = h["body"]
        if len(term["args"]) != hb["arg_count"]:
            continue
        dl = len(body["locals"])
        db = len(body["blocks"])
        body["locals"].extend(copy.deepcopy(hb["locals"]))
        for d in hb.get("debug", []):
            d2 = copy.deepcopy(d)
            if d2.get("place") is not None:
                _shift_place(d2["place"], dl)
                d2.pop("arg", None)
                body["debug"].append(d2)
        cont = term.get("t")
        dest = term["dest"]
        sp = term.get("sp")
        for hbb in hb["blocks"]:
            nb = copy.deepcopy(hbb)
            for s in nb["stmts"]:
                if "lhs" in s:
                    _shift_place(s["lhs"], dl)
                    _walk_shift(s["rv"], dl)
                else:
                    _walk_shift(s, dl)
            t = nb["term"]
            if t["k"] == "return":
                nb["stmts"].append({"lhs": copy.deepcopy(dest), "rv": {"k": "use", "op": {"m": {"l": dl, "p": []}}},
                                    "sp": t.get("sp", sp)})
                nb["term"] = {"sp": t.get("sp", sp), "k": "goto", "t": cont} if cont is not None else \
                    {"sp": t.get("sp", sp), "k": "unreachable"}
            else:
                for k, v in list(t.items()):
                    if k in ("sp", "fn_sp", "func", "arg_tys", "dest_ty", "k", "t", "otherwise", "targets",
                             "unwind", "vals", "ty", "expected"):
                        continue
                    _walk_shift(v, dl)
                _retarget(t, db)
            chains[len(body["blocks"])] = chain | {h["path"]}
            body["blocks"].append(nb)
        # the call block: parameters := arguments, then enter the helper
        for i, a in enumerate(term["args"]):
            bb["stmts"].append({"lhs": {"l": dl + 1 + i, "p": []}, "rv": {"k": "use", "op": copy.deepcopy(a)}, "sp": sp})
        bb["term"] = {"sp": sp, "k": "goto", "t": db, "inlined": h["path"]}
        n += 1
    return n

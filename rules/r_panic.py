"""PANIC: parser totality audit (C10; cross-referenced by C06, C07, C09).

Enumerates every potential panic / silent-wrap site in the workspace call graph below the
builder and read entry points and requires each to be discharged by a structural argument
(constant operands, dominating length guard, loop bound, guarded subtraction, small-magnitude
arithmetic) or by an entry of spec/panic_table.json that carries a reason and, where the safety
depends on a guard elsewhere, a machine-checked guard requirement.
"""
import json
import os
import re

from callgraph import CallGraph
from effects import Effects
from facts import EngineError, VERIF
import fmt
from flow import bool_switch_targets, result_exits
from mir import (AP, FnA, callee_of, callee_paths, op_place, op_const, strip_generics,
                 through_aggregates)
from sym import Sym, show, short, strip_casts

ENTRY = [
    "vibrato::dictionary::builder::SystemDictionaryBuilder::from_readers",
    "vibrato::dictionary::builder::SystemDictionaryBuilder::from_readers_with_bigram_info",
    "vibrato::dictionary::Dictionary::reset_user_lexicon_from_reader",
    "vibrato::dictionary::Dictionary::map_connection_ids_from_iter",
    "vibrato::dictionary::Dictionary::read",
]

PANIC_CALLS = {
    "unwrap", "expect", "unwrap_unchecked", "panic", "panic_fmt", "assert_failed", "panic_display",
    "unreachable_display", "panic_explicit", "index", "index_mut", "copy_from_slice", "chunks",
    "chunks_mut", "chunks_exact", "split_at", "split_at_mut", "drain", "remove", "swap_remove",
    "insert", "clamp", "step_by", "windows", "rotate_left", "rotate_right", "swap",
}
# `insert`/`remove` on maps and sets never panic
NOPANIC_OWNERS = ("HashMap", "HashSet", "BTreeMap", "BTreeSet")

INT_BITS = {"u8": 8, "u16": 16, "u32": 32, "u64": 64, "usize": 64, "u128": 128,
            "i8": 8, "i16": 16, "i32": 32, "i64": 64, "isize": 64, "i128": 128,
            "char": 32}


def is_signed(t):
    return t.startswith("i")


class Site:
    __slots__ = ("fn", "kind", "desc", "b", "i", "loc", "data", "ordinal")

    def __init__(self, fn, kind, desc, b, i, loc, data=None):
        self.fn, self.kind, self.desc, self.b, self.i, self.loc = fn, kind, desc, b, i, loc
        self.data = data or {}
        self.ordinal = 0

    @property
    def key(self):
        return "%s|%s|%s|%d" % (self.fn, self.kind, self.desc, self.ordinal)


_CAPDESC = {}


def capture_descriptions(crate, E, p, depth=0):
    """{capture index: description in the enclosing function} of closure p (memoised)"""
    if p in _CAPDESC or depth > 4:
        return _CAPDESC.get(p, {})
    _CAPDESC[p] = {}
    f = crate.fns.get(p)
    par = f.j.get("closure_of") if f is not None else None
    if not par or par not in crate.fns or not crate.fns[par].body:
        return _CAPDESC[p]
    if crate.fns[par].j.get("kind") == "Closure":
        capture_descriptions(crate, E, par, depth + 1)
    pfa = E.fa(par)
    PS = Sym(E, pfa)
    for b, i, s0 in pfa.stmts():
        rv = s0.get("rv") or {}
        if rv.get("k") == "agg" and rv.get("agg") == "closure" and rv.get("closure") == p:
            _CAPDESC[p] = {k: describe(pfa, PS, o) for k, o in enumerate(rv["ops"])}
    return _CAPDESC[p]


def describe(fa, S, op, depth=0):
    """Stable, line-free and rename-free description of an operand: constants, parameter
    numbers, field names, callee names and operator structure (never local variable names)."""
    k = op_const(op)
    if k is not None:
        if "int" in k:
            return str(k["int"])
        if "str" in k:
            if k["str"].startswith("assertion failed"):
                return "'assertion failed'"      # the asserted expression's text is not part of the key
            return repr(k["str"])[:30]
        return "const"
    pl = op_place(op)
    if pl is None:
        return "?"
    fields = [e.get("n") or "#%d" % e["f"] for e in pl["p"] if e != "*" and "f" in e
              and e.get("v") not in ("Some", "Ok", "Continue")]
    suffix = "".join("." + x for x in fields)
    l = pl["l"]
    if l == 1 and fields and fields[0].startswith("#") and fa.fn.j.get("kind") == "Closure":
        # a captured variable is described as the enclosing function describes it, so that a
        # statement keeps its description when it moves into (or out of) a closure
        cd = _CAPDESC.get(fa.fn.path, {}).get(int(fields[0][1:]))
        if cd is not None:
            return cd + "".join("." + x for x in fields[1:])
    if 1 <= l <= fa.arg_count:
        return "arg%d" % l + suffix
    if depth > 4:
        return "_" + suffix
    d = fa.single_def(l)
    if d is None:
        ty = fa.fn.locals[l]["ty"]
        return "var:%s" % (ty if len(ty) < 24 else ty.split("<")[0].rsplit("::", 1)[-1]) + suffix
    if d[2] == "call":
        c = callee_of(d[3])
        nm = short(strip_generics((c.get("resolved") or c)["path"])) if c else "?"
        inner = describe(fa, S, d[3]["args"][0], depth + 1) if d[3]["args"] else ""
        return "%s(%s)" % (nm, inner) + suffix
    rv = d[3]
    if rv["k"] in ("use", "cast"):
        return describe(fa, S, rv["op"], depth + 1) + suffix
    if rv["k"] == "ref":
        return describe(fa, S, {"c": rv["place"]}, depth + 1) + suffix
    if rv["k"] == "binop":
        return "%s(%s,%s)" % (rv["op"].replace("WithOverflow", ""), describe(fa, S, rv["a"], depth + 1),
                              describe(fa, S, rv["b"], depth + 1)) + suffix
    if rv["k"] == "agg":
        adt = str(rv.get("adt", ""))
        if adt.startswith(("std::ops::Range", "core::ops::Range")) and depth <= 3:
            # a range index is described by its bounds: `[n..]`, `[..n]`, `[a..b]`
            return "%s(%s)" % (adt.rsplit("::", 1)[-1], ",".join(describe(fa, S, o, depth + 1) for o in rv["ops"])) + suffix
        return "agg" + suffix
    return "_" + suffix


def enumerate_sites(crate, E, fns):
    sites = []
    _CAPDESC.clear()
    for p in sorted(fns):
        f = crate.fns[p]
        fa = E.fa(p)
        S = Sym(E, fa)
        if f.j.get("kind") == "Closure":
            capture_descriptions(crate, E, p)
        live = fa.live_blocks()
        per_desc = {}
        for b in sorted(live):
            bb = fa.blocks[b]
            if bb.get("inl") in crate.fns:
                # an expanded copy of a function that is still part of the crate (it has other
                # uses too): its sites are audited once, in its own body
                continue
            for i, s in enumerate(bb["stmts"]):
                if "rv" in s and s["rv"]["k"] == "cast" and s["rv"]["ck"] == "IntToInt":
                    ft, tt = s["rv"]["from_ty"], s["rv"]["ty"]
                    if ft in INT_BITS and tt in INT_BITS:
                        narrowing = INT_BITS[tt] < INT_BITS[ft] or \
                            (INT_BITS[tt] == INT_BITS[ft] and is_signed(ft) != is_signed(tt)) or \
                            (is_signed(ft) and not is_signed(tt))
                        if narrowing:
                            sites.append(Site(p, "cast", "%s->%s(%s)" % (ft, tt, describe(fa, S, s["rv"]["op"])),
                                              b, i, fa.loc(b, i), {"rv": s["rv"]}))
            t = bb["term"]
            if t["k"] == "assert":
                m = t["msg"]
                kind = m["kind"]
                if kind == "Overflow":
                    desc = "%s(%s,%s)" % (m["op"], describe(fa, S, m["a"]), describe(fa, S, m["b"]))
                elif kind == "BoundsCheck":
                    desc = "bounds(%s)" % describe(fa, S, m["index"])
                elif kind in ("DivisionByZero", "RemainderByZero", "OverflowNeg"):
                    desc = "%s(%s)" % (kind, describe(fa, S, m["a"]))
                else:
                    desc = m.get("dbg", "other")[:40]
                sites.append(Site(p, "assert:" + kind, desc, b, -1, fa.loc(b), {"msg": m, "term": t}))
            elif t["k"] == "call":
                c = callee_of(t)
                if c is None:
                    continue
                rp = strip_generics((c.get("resolved") or c)["path"])
                nm = short(rp)
                if nm not in PANIC_CALLS:
                    continue
                if nm in ("insert", "remove", "swap") and any(o in rp for o in NOPANIC_OWNERS):
                    continue
                if rp.startswith("vibrato::"):
                    continue      # workspace functions are audited through their own bodies
                if nm in ("index", "index_mut") and any(o in rp for o in ("HashMap", "BTreeMap")):
                    pass
                a = [describe(fa, S, x) for x in t["args"]]
                owner = rp.rsplit("::", 2)[-2] if rp.count("::") >= 2 else ""
                desc = "%s::%s(%s)" % (owner, nm, ",".join(a))[:120]
                sites.append(Site(p, "call", desc, b, -1, fa.loc(b), {"term": t, "path": rp}))
        # ordinals among equal descriptors
        cnt = {}
        for s in [x for x in sites if x.fn == p]:
            k = (s.kind, s.desc)
            s.ordinal = cnt.get(k, 0)
            cnt[k] = s.ordinal + 1
    return sites


# ---------------------------------------------------------------------------------------------
# value helpers

def const_eval(fa, op, depth=0):
    """Integer value of a const-derived operand (constants combined by + - * << >>), else None."""
    k = op_const(op)
    if k is not None:
        return k.get("int")
    pl = op_place(op)
    if pl is None or depth > 10:
        return None
    fields = [e for e in pl["p"] if e != "*"]
    d = fa.single_def(pl["l"])
    if d is not None and d[2] == "call" and not fields:
        c = callee_of(d[3])
        nm = short(strip_generics((c.get("resolved") or c)["path"])) if c else "?"
        if nm in ("from", "into", "from_u32") and len(d[3]["args"]) == 1:
            return const_eval(fa, d[3]["args"][0], depth + 1)
        return None
    if d is None or d[2] != "assign":
        return None
    rv = d[3]
    if fields:
        # (_t.0) of a checked-arithmetic tuple
        if len(fields) == 1 and fields[0].get("f") == 0 and rv["k"] == "binop":
            pass
        else:
            return None
    if rv["k"] in ("use", "cast"):
        return const_eval(fa, rv["op"], depth + 1)
    if rv["k"] == "unop" and rv.get("op") == "Neg":
        a = const_eval(fa, rv["a"], depth + 1)
        return None if a is None else -a
    if rv["k"] == "binop":
        a, b = const_eval(fa, rv["a"], depth + 1), const_eval(fa, rv["b"], depth + 1)
        if a is None or b is None:
            return None
        opn = rv["op"].replace("WithOverflow", "")
        try:
            return {"Add": a + b, "Sub": a - b, "Mul": a * b, "Shl": a << b, "Shr": a >> b,
                    "BitAnd": a & b, "BitOr": a | b}.get(opn)
        except (ValueError, OverflowError):
            return None
    return None


def root_of(fa, op, limit=14):
    """Follow copies, casts, widening conversions and `?`/unwrap back to a root:
    ('local', l) | ('call', block, term) | ('const', v) | ('place', place)"""
    for _ in range(limit):
        k = op_const(op)
        if k is not None:
            return ("const", k.get("int"))
        pl = op_place(op)
        if pl is None:
            return ("?",)
        if [e for e in pl["p"] if e != "*" and not ("f" in e and e.get("v") in ("Some", "Ok", "Continue"))
            and "dc" not in e]:
            o2 = through_aggregates(fa, pl)
            p2 = op_place(o2)
            if p2 is None:
                op = o2
                continue
            if p2["l"] == pl["l"] and p2["p"] == pl["p"]:
                return ("place", pl)
            op = o2
            continue
        d = fa.single_def(pl["l"])
        if d is None:
            return ("local", pl["l"])
        if d[2] == "call":
            t = d[3]
            c = callee_of(t)
            nm = short(strip_generics((c.get("resolved") or c)["path"])) if c else "?"
            if nm in ("from", "into", "try_from", "try_into", "unwrap", "branch", "from_u32", "clone",
                      "unwrap_unchecked", "expect", "get", "deref") and t["args"] and \
                    not strip_generics((c.get("resolved") or c)["path"]).startswith("vibrato::dictionary"):
                op = t["args"][0]
                continue
            return ("call", d[0], t)
        rv = d[3]
        if rv["k"] in ("use", "cast"):
            op = rv["op"]
            continue
        if rv["k"] == "ref":
            op = {"c": rv["place"]}
            continue
        return ("rv", rv, d[0])
    return ("?",)


def is_mem_bounded(fa, op, depth=0):
    """Value bounded by the size of something held in memory (a length, an enumerate index, a
    loop counter incremented by constants, a position inside a buffer) or by a narrow type."""
    if depth > 6:
        return False
    r = root_of(fa, op)
    if r[0] == "const":
        return r[1] is not None and 0 <= r[1] < (1 << 32)
    if r[0] == "call":
        t = r[2]
        c = callee_of(t)
        nm = short(strip_generics((c.get("resolved") or c)["path"])) if c else "?"
        if nm in ("len", "count", "position", "next", "min", "num_left", "num_right", "len_char",
                  "num_categories", "size_of_val"):
            if nm == "min":
                return any(is_mem_bounded(fa, a, depth + 1) for a in t["args"])
            return True
        return False
    if r[0] == "local":
        l = r[1]
        ty = fa.fn.locals[l]["ty"]
        if ty in ("u8", "u16", "u32", "i8", "i16", "bool"):
            return True
        defs = [x for x in fa.defs().get(l, []) if x[2] != "partial"]
        if not defs:
            return ty in ("u8", "u16", "u32")
        ok = True
        for (b, i, kind, payload) in defs:
            if kind == "assign":
                rv = payload
                if rv["k"] == "use":
                    k = op_const(rv["op"])
                    if k is not None:
                        continue
                    # x = move (tmp.0) with tmp = Add(x, const)
                    rr = root_of(fa, rv["op"])
                    if rr[0] == "place" and len(rr[1]["p"]) == 1 and isinstance(rr[1]["p"][0], dict) and \
                            rr[1]["p"][0].get("o") == "(tuple)" and rr[1]["p"][0].get("f") == 0:
                        # field 0 of the (value, overflowed) pair of a checked addition
                        dd = fa.single_def(rr[1]["l"])
                        if dd is not None and dd[2] == "assign" and dd[3]["k"] == "binop" and \
                                dd[3]["op"].endswith("WithOverflow"):
                            rr = ("rv", dd[3])
                    if rr[0] == "rv" and rr[1]["k"] == "binop" and rr[1]["op"].startswith("Add"):
                        sides = [root_of(fa, rr[1]["a"]), root_of(fa, rr[1]["b"])]
                        if any(s == ("local", l) for s in sides) and \
                                any(s[0] == "const" or is_mem_bounded_root(fa, s, depth + 1) for s in sides
                                    if s != ("local", l)):
                            continue
                    if is_mem_bounded(fa, rv["op"], depth + 1):
                        continue
                ok = False
            elif kind == "call":
                c = callee_of(payload)
                nm = short(strip_generics((c.get("resolved") or c)["path"])) if c else "?"
                if nm not in ("len", "count", "next", "min", "max"):
                    ok = False
        return ok
    if r[0] == "place":
        pl = r[1]
        last = [e for e in pl["p"] if e != "*" and "f" in e]
        if last and last[-1].get("t") in ("u8", "u16", "u32", "i16", "i8"):
            return True
        # enumerate index: tuple field 0 of an Enumerate item
        if last and last[-1].get("o") == "(tuple)" and last[-1]["f"] == 0:
            base = {"c": {"l": pl["l"], "p": []}}
            rr = root_of(fa, base)
            if rr[0] == "call":
                c = callee_of(rr[2])
                rp = (c.get("resolved") or c)["path"] if c else ""
                if "Enumerate" in rp:
                    return True
        return False
    if r[0] == "rv":
        rv = r[1]
        if rv["k"] == "binop" and rv["op"].replace("WithOverflow", "") in ("Add", "Sub", "Div", "BitAnd", "Shr"):
            return is_mem_bounded(fa, rv["a"], depth + 1) and \
                (is_mem_bounded(fa, rv["b"], depth + 1) or op_const(rv["b"]) is not None)
    return False


def is_mem_bounded_root(fa, r, depth):
    if r[0] == "const":
        return True
    if r[0] == "call":
        c = callee_of(r[2])
        nm = short(strip_generics((c.get("resolved") or c)["path"])) if c else "?"
        return nm in ("len", "count", "next")
    return False


def len_of_collection(fa, op):
    """If operand is X.len() return a key identifying X (root local + fields)."""
    r = root_of(fa, op)
    if r[0] == "call":
        c = callee_of(r[2])
        nm = short(strip_generics((c.get("resolved") or c)["path"])) if c else "?"
        if nm == "len" and r[2]["args"]:
            return coll_key(fa, r[2]["args"][0])
    return None


def coll_key(fa, op):
    """Identify a collection operand: ('local', l) after following refs/derefs/copies, or a place."""
    for _ in range(12):
        pl = op_place(op)
        if pl is None:
            return None
        fields = [e.get("n") or e.get("f") for e in pl["p"] if e != "*" and "f" in e]
        if fields:
            return ("place", pl["l"], tuple(fields))
        d = fa.single_def(pl["l"])
        if d is None:
            return ("local", pl["l"])
        if d[2] == "call":
            c = callee_of(d[3])
            nm = short(strip_generics((c.get("resolved") or c)["path"])) if c else "?"
            if nm in ("deref", "deref_mut", "as_slice", "as_ref", "as_mut_slice", "borrow") and d[3]["args"]:
                op = d[3]["args"][0]
                continue
            return ("local", pl["l"])
        rv = d[3]
        if rv["k"] in ("use", "cast"):
            op = rv["op"]
            continue
        if rv["k"] == "ref":
            op = {"c": rv["place"]}
            continue
        return ("local", pl["l"])
    return None


def edge_truth_to(fa, sw_block, site_block):
    """Which outcome (True/False) of the bool switch at sw_block leads to site_block exclusively?"""
    t = fa.term(sw_block)
    f_t, t_t = bool_switch_targets(t)
    if f_t is None:
        return None
    rt = site_block in fa.reachable(t_t, avoid={sw_block}) or site_block == t_t
    rf = site_block in fa.reachable(f_t, avoid={sw_block}) or site_block == f_t
    if rt and not rf:
        return True
    if rf and not rt:
        return False
    return None


def lower_bound_on_len(fa, S, site_block, key):
    """Largest c such that a dominating branch establishes len(X) >= c on the way to site_block."""
    best = 0
    dom = fa.dominators()
    for b in dom.get(site_block, ()):
        t = fa.term(b)
        if t["k"] != "switch" or t.get("ty") != "bool":
            continue
        r = root_of(fa, t["op"])
        neg = False
        if r[0] == "rv" and r[1]["k"] == "unop" and r[1]["op"] == "Not":
            r = root_of(fa, r[1]["a"])
            neg = True
        if r[0] == "call":
            # `x.is_empty()`: the not-empty edge guarantees one element
            c0 = callee_of(r[2])
            nm0 = short(strip_generics((c0.get("resolved") or c0)["path"])) if c0 else ""
            if nm0 == "is_empty" and r[2]["args"] and coll_key(fa, r[2]["args"][0]) == key:
                truth = edge_truth_to(fa, b, site_block)
                if truth is not None:
                    if neg:
                        truth = not truth
                    if truth is False:
                        best = max(best, 1)
            continue
        if r[0] != "rv" or r[1]["k"] != "binop":
            continue
        opn = r[1]["op"]
        a, bb = r[1]["a"], r[1]["b"]
        la, lb = len_of_collection(fa, a), len_of_collection(fa, bb)
        ca, cb = const_eval(fa, a), const_eval(fa, bb)
        truth = edge_truth_to(fa, b, site_block)
        if truth is None:
            continue
        if neg:
            truth = not truth
        c = None
        if la == key and cb is not None:
            # len OP c
            if opn == "Lt" and not truth:
                c = cb            # !(len < c) => len >= c
            elif opn == "Ge" and truth:
                c = cb
            elif opn == "Gt" and truth:
                c = cb + 1
            elif opn == "Le" and not truth:
                c = cb + 1
            elif opn == "Eq" and truth:
                c = cb
            elif opn == "Ne" and not truth:
                c = cb
        elif lb == key and ca is not None:
            if opn == "Gt" and not truth:
                c = ca            # !(c > len) => len >= c
            elif opn == "Le" and truth:
                c = ca
            elif opn == "Lt" and truth:
                c = ca + 1
            elif opn == "Ge" and not truth:
                c = ca + 1
            elif opn == "Eq" and truth:
                c = ca
            elif opn == "Ne" and not truth:
                c = ca
        if c is not None:
            best = max(best, c)
    return best


def produced_nonempty(fa, key):
    """Collections that always hold at least one element: collect() of str::split(..)."""
    if key is None or key[0] != "local":
        return False
    d = fa.single_def(key[1])
    seen = 0
    while d is not None and seen < 8:
        seen += 1
        if d[2] == "call":
            c = callee_of(d[3])
            nm = short(strip_generics((c.get("resolved") or c)["path"])) if c else "?"
            if nm == "split":
                return True
            if nm in ("box_assume_init_into_vec_unsafe", "into_vec") and d[2] == "call":
                # `vec![a, ..]` with at least one element (an empty `vec![]` is Vec::new()), and
                # the vector is never shortened afterwards
                shrink = ("clear", "truncate", "pop", "remove", "swap_remove", "drain", "retain", "split_off",
                          "take", "replace", "swap", "set_len", "dedup", "dedup_by_key", "resize")
                for b2, t2 in fa.calls():
                    c2 = callee_of(t2)
                    n2 = short(strip_generics((c2.get("resolved") or c2)["path"])) if c2 else "?"
                    if n2 in shrink and t2["args"] and coll_key(fa, t2["args"][0]) == key:
                        return False
                return len(fa.defs().get(key[1], [])) == 1
            if nm in ("collect", "into_iter") and d[3]["args"]:
                pl = op_place(d[3]["args"][0])
                d = fa.single_def(pl["l"]) if pl else None
                continue
            return False
        rv = d[3]
        pl = op_place(rv["op"]) if rv["k"] == "use" else None
        d = fa.single_def(pl["l"]) if pl else None
    return False


# ---------------------------------------------------------------------------------------------
# automatic dischargers

STD_MACROS = ("Bang:vec", "Bang:format", "Bang:write", "Bang:writeln", "Bang:eprintln", "Bang:println")


def closure_parent(crate, E, fa):
    p = fa.fn.j.get("closure_of")
    return p


_FIELD_INV = None
_FIELD_INV_OK = {}


def field_nonzero(crate, E, fa, op):
    """(reason) when the operand is a read of a struct field listed as non-zero in
    spec/field_invariants.json and the guard establishing that still holds; else None."""
    global _FIELD_INV
    if _FIELD_INV is None:
        with open(os.path.join(VERIF, "spec", "field_invariants.json")) as fh:
            _FIELD_INV = json.load(fh)
    pl = op_place(op)
    for _ in range(10):
        if pl is None:
            return None
        fields = [e for e in pl["p"] if isinstance(e, dict) and "f" in e]
        if fields:
            last = pl["p"][-1]
            if not (isinstance(last, dict) and "f" in last):
                return None
            for inv in _FIELD_INV["nonzero"]:
                if last.get("o") == inv["adt"] and last.get("n") == inv["field"]:
                    gk = (id(crate), json.dumps(inv["guard"], sort_keys=True))
                    if gk not in _FIELD_INV_OK:
                        _FIELD_INV_OK[gk] = check_guard(None, crate, E, inv["guard"])
                    ok, gtxt = _FIELD_INV_OK[gk]
                    return "%s [guard: %s]" % (inv["reason"], gtxt) if ok else None
            return None
        ds = [d for d in fa.defs().get(pl["l"], []) if d[2] != "partial"]
        if len(ds) != 1 or ds[0][2] != "assign" or ds[0][3]["k"] not in ("use", "cast"):
            return None
        pl = op_place(ds[0][3]["op"])
    return None


def discharge(crate, E, site):
    """Return (tag, explanation) or None."""
    fa = E.fa(site.fn)
    S = Sym(E, fa)
    kind = site.kind
    if kind.startswith("assert:"):
        t = site.data["term"]
        m = site.data["msg"]
        sp = t["sp"]
        if m["kind"] == "Other":
            if sp.get("exp") and sp.get("macro") in STD_MACROS:
                return "STD-MACRO", "pointer check inside the expansion of %s" % sp.get("macro")
            return None
        if m["kind"] == "Overflow":
            opn = m["op"]
            a, b = m["a"], m["b"]
            ca, cb = const_eval(fa, a), const_eval(fa, b)
            aty = fa.fn.locals[op_place(a)["l"]]["ty"] if op_place(a) else (op_const(a) or {}).get("ty", "usize")
            bits = INT_BITS.get(aty, 64)
            if opn in ("Shl", "Shr"):
                if cb is not None and 0 <= cb < bits:
                    return "SHIFT-CONST", "shift by the constant %d (< %d bits)" % (cb, bits)
                return None
            if ca is not None and cb is not None:
                v = {"Add": ca + cb, "Sub": ca - cb, "Mul": ca * cb}.get(opn)
                lo, hi = (-(1 << (bits - 1)), (1 << (bits - 1)) - 1) if is_signed(aty) else (0, (1 << bits) - 1)
                if v is not None and lo <= v <= hi:
                    return "CONST", "constant operands (%d %s %d)" % (ca, opn, cb)
                return None
            if opn == "Add" and bits >= 64:
                ma, mb = is_mem_bounded(fa, a), is_mem_bounded(fa, b)
                if ma and mb:
                    return "LEN-ARITH", "sum of two memory-bounded quantities (each < 2^63) cannot wrap 64 bits"
            if opn == "Sub":
                # a - c under a dominating a != 0 / a >= c / a > c-1
                if cb is not None:
                    key = root_of(fa, a)
                    for gb in fa.dominators().get(site.b, ()):
                        gt = fa.term(gb)
                        if gt["k"] != "switch":
                            continue
                        r = root_of(fa, gt["op"])
                        if r[0] == "rv" and r[1]["k"] == "binop":
                            ra, rb = root_of(fa, r[1]["a"]), const_eval(fa, r[1]["b"])
                            if ra == key and rb is not None:
                                truth = edge_truth_to(fa, gb, site.b)
                                opx = r[1]["op"]
                                lb = None
                                if opx == "Ne" and rb == 0 and truth:
                                    lb = 1
                                elif opx == "Eq" and rb == 0 and truth is False:
                                    lb = 1
                                elif opx == "Ge" and truth:
                                    lb = rb
                                elif opx == "Gt" and truth:
                                    lb = rb + 1
                                elif opx == "Lt" and truth is False:
                                    lb = rb
                                elif opx == "Le" and truth is False:
                                    lb = rb + 1
                                if lb is not None and lb >= cb:
                                    return "SUB-GUARD", "dominated by a branch establishing operand >= %d" % lb
                    return None
                # a - b under b <= a
                ka, kb = root_of(fa, a), root_of(fa, b)
                for gb in fa.dominators().get(site.b, ()):
                    gt = fa.term(gb)
                    if gt["k"] != "switch":
                        continue
                    r = root_of(fa, gt["op"])
                    if r[0] == "rv" and r[1]["k"] == "binop":
                        x, y = root_of(fa, r[1]["a"]), root_of(fa, r[1]["b"])
                        truth = edge_truth_to(fa, gb, site.b)
                        opx = r[1]["op"]
                        if truth is None:
                            continue
                        # b <= a  expressed as  Le(b,a)=T, Ge(a,b)=T, Gt(b,a)=F, Lt(a,b)=F
                        if (x, y) == (kb, ka) and ((opx == "Le" and truth) or (opx == "Lt" and truth)
                                                   or (opx == "Gt" and not truth)):
                            return "SUB-GUARD", "dominated by a branch establishing subtrahend <= minuend"
                        if (x, y) == (ka, kb) and ((opx == "Ge" and truth) or (opx == "Gt" and truth)
                                                   or (opx == "Lt" and not truth)):
                            return "SUB-GUARD", "dominated by a branch establishing subtrahend <= minuend"
                return None
            return None
        if m["kind"] in ("DivisionByZero", "RemainderByZero"):
            # divisor = left operand of the `== 0` test feeding the assert
            r = root_of(fa, t["cond"])
            if r[0] == "rv" and r[1]["k"] == "binop" and r[1]["op"] == "Eq":
                dv = const_eval(fa, r[1]["a"])
                if dv is not None and dv != 0:
                    return "DIV-CONST", "division by the non-zero constant %d" % dv
                site.data["divisor"] = r[1]["a"]
                why = field_nonzero(crate, E, fa, r[1]["a"])
                if why:
                    return "FIELD-NONZERO", "the divisor is a field that is never zero: " + why
            return None
        if m["kind"] == "BoundsCheck":
            ci = const_eval(fa, m["index"])
            cl = const_eval(fa, m["len"])
            if ci is not None and cl is not None and ci < cl:
                return "CONST", "constant index %d into an array of %d" % (ci, cl)
            # constant index into a slice whose length a dominating branch bounds from below
            # (`if xs.is_empty() { return Err }` ... `xs[0]`)
            if ci is not None:
                rl = root_of(fa, m["len"])
                if rl[0] == "rv" and rl[1]["k"] == "unop" and rl[1]["op"] == "PtrMetadata":
                    key = coll_key(fa, rl[1]["a"])
                    if key is not None:
                        lb = lower_bound_on_len(fa, S, site.b, key)
                        if produced_nonempty(fa, key):
                            lb = max(lb, 1)
                        if lb > ci:
                            return "LEN-GUARD", "index %d below the length established by a dominating check (>= %d)" % (ci, lb)
            return None
        return None
    if kind == "cast":
        rv = site.data["rv"]
        ft, tt = rv["from_ty"], rv["ty"]
        c = const_eval(fa, rv["op"])
        tb = INT_BITS[tt]
        lo, hi = (-(1 << (tb - 1)), (1 << (tb - 1)) - 1) if is_signed(tt) else (0, (1 << tb) - 1)
        if c is not None and lo <= c <= hi:
            return "CONST", "constant %d fits %s" % (c, tt)
        r = root_of(fa, rv["op"])
        if r[0] == "call":
            cc = callee_of(r[2])
            nm = short(strip_generics((cc.get("resolved") or cc)["path"])) if cc else "?"
            if nm == "clamp" and len(r[2]["args"]) == 3:
                mn, mx = const_eval(fa, r[2]["args"][1]), const_eval(fa, r[2]["args"][2])
                if mn is not None and mx is not None and lo <= mn <= mx <= hi:
                    return "CLAMPED", "value clamped to [%d, %d] before the cast" % (mn, mx)
        return None
    if kind == "call":
        t = site.data["term"]
        rp = site.data["path"]
        nm = short(rp)
        sp = t["sp"]
        if nm in ("unwrap", "expect"):
            # result of a call whose arguments are all constants (Regex::new(lit))
            r = root_of_producer(fa, t["args"][0])
            if r is not None:
                pt = r
                if pt["args"] and all(fmt.const_of(fa, a) is not None for a in pt["args"]):
                    c = callee_of(pt)
                    return "CONST", "unwrap of %s on constant arguments" % short(strip_generics(
                        (c.get("resolved") or c)["path"]))
            return None
        if nm in ("index", "index_mut"):
            if len(t["args"]) != 2:
                return None
            key = coll_key(fa, t["args"][0])
            idx = t["args"][1]
            ci = const_eval(fa, idx)
            lbnd = None
            if ci is not None and key is not None:
                lbnd = lower_bound_on_len(fa, S, site.b, key)
                if produced_nonempty(fa, key):
                    lbnd = max(lbnd, 1)
                if lbnd > ci:
                    return "LEN-GUARD", "constant index %d under a dominating guard len >= %d" % (ci, lbnd)
                # closure: guard in the parent dominating the closure's creation
                par = fa.fn.j.get("closure_of")
                if par and key[0] == "place" and key[1] == 1:
                    r2 = parent_len_guard(crate, E, fa, par, key)
                    if r2 is not None and r2 > ci:
                        return "LEN-GUARD", "constant index %d; the closure is created under a guard len >= %d" % (ci, r2)
                return None
            # range index with constant start: cols[k..]
            r = root_of(fa, idx)
            if r[0] == "rv" and r[1]["k"] == "agg" and str(r[1].get("adt", "")).endswith("RangeFrom") and key:
                st = const_eval(fa, r[1]["ops"][0])
                if st is not None:
                    lbnd = lower_bound_on_len(fa, S, site.b, key)
                    if lbnd >= st:
                        return "LEN-GUARD", "range %d.. under a dominating guard len >= %d" % (st, lbnd)
            if r[0] == "rv" and r[1]["k"] == "agg" and str(r[1].get("adt", "")).endswith("RangeFull"):
                return "CONST", "full range"
            return None
        if nm in ("split_at", "split_at_mut") and len(t["args"]) == 2:
            key = coll_key(fa, t["args"][0])
            ci = const_eval(fa, t["args"][1])
            if ci is not None and key is not None:
                lbnd = lower_bound_on_len(fa, S, site.b, key)
                if produced_nonempty(fa, key):
                    lbnd = max(lbnd, 1)
                if lbnd >= ci:
                    return "LEN-GUARD", "split at the constant %d of a collection with len >= %d" % (ci, lbnd)
            # `vec![x; (n + 1) * w].split_at_mut(w)`: the first row of a table of n + 1 rows
            if key is not None and key[0] == "local":
                d0 = fa.single_def(key[1])
                c0 = callee_of(d0[3]) if d0 is not None and d0[2] == "call" else None
                n0 = short(strip_generics((c0.get("resolved") or c0)["path"])) if c0 else "?"
                if n0 == "from_elem" and len(d0[3]["args"]) == 2:
                    def arith_root(op):
                        r = root_of(fa, op)
                        # `.0` of a checked operation is the operation
                        if r[0] == "place" and len(r[1]["p"]) == 1 and isinstance(r[1]["p"][0], dict) and r[1]["p"][0].get("f") == 0:
                            dd = fa.single_def(r[1]["l"])
                            if dd is not None and dd[2] == "assign" and dd[3]["k"] == "binop" and dd[3]["op"].endswith("WithOverflow"):
                                return ("rv", dd[3], dd[0])
                        return r
                    ln = arith_root(d0[3]["args"][1])
                    if ln[0] == "rv" and ln[1]["k"] == "binop" and ln[1]["op"] in ("Mul", "MulWithOverflow"):
                        mid = root_of(fa, t["args"][1])
                        for f1, f2 in ((ln[1]["a"], ln[1]["b"]), (ln[1]["b"], ln[1]["a"])):
                            r1, r2 = root_of(fa, f1), arith_root(f2)
                            if r1 == mid and mid[0] in ("local", "place") and r2[0] == "rv" and r2[1]["k"] == "binop" and \
                                    r2[1]["op"] in ("Add", "AddWithOverflow") and \
                                    any((const_eval(fa, x) or 0) >= 1 for x in (r2[1]["a"], r2[1]["b"])):
                                # ... and the width is not changed between the allocation and the split
                                wl = mid[1] if mid[0] == "local" else None
                                stable = wl is None or not any(
                                    fa.dominates(d0[0], db) and fa.dominates(db, site.b)
                                    for (db, di, dk, dp) in fa.defs().get(wl, []))
                                if stable:
                                    return "ROW-SPLIT", "the table has (n + 1) * w elements and is split at w"
            return None
        if nm in ("chunks", "chunks_mut", "chunks_exact"):
            c = const_eval(fa, t["args"][1])
            if c is not None and c > 0:
                return "CONST", "chunk size is the non-zero constant %d" % c
            why = field_nonzero(crate, E, fa, t["args"][1])
            if why:
                return "FIELD-NONZERO", "the chunk size is a field that is never zero: " + why
            return None
        if nm == "clamp":
            mn, mx = const_eval(fa, t["args"][1]), const_eval(fa, t["args"][2])
            if mn is not None and mx is not None and mn <= mx:
                return "CONST", "clamp bounds are constants with min <= max"
            return None
        return None
    return None


def root_of_producer(fa, op):
    """The call term that produced an Option/Result operand (through moves)."""
    pl = op_place(op)
    for _ in range(8):
        if pl is None:
            return None
        d = fa.single_def(pl["l"])
        if d is None:
            return None
        if d[2] == "call":
            return d[3]
        rv = d[3]
        pl = op_place(rv["op"]) if rv["k"] == "use" else None
    return None


def parent_len_guard(crate, E, cfa, parent, key):
    """For a closure capturing `&cols`: lower bound on cols.len() established in the parent at
    the point where the closure is created."""
    try:
        pfa = E.fa(parent)
    except EngineError:
        return None
    PS = Sym(E, pfa)
    cpath = cfa.fn.path
    for b, i, s in pfa.stmts():
        if "rv" in s and s["rv"]["k"] == "agg" and s["rv"].get("closure") == cpath:
            fld = key[2][0] if key[2] else None
            if not isinstance(fld, int):
                try:
                    fld = int(str(fld).lstrip("#"))
                except ValueError:
                    return None
            if fld >= len(s["rv"]["ops"]):
                return None
            ck = coll_key(pfa, s["rv"]["ops"][fld])
            if ck is None:
                return None
            lb = lower_bound_on_len(pfa, PS, b, ck)
            if produced_nonempty(pfa, ck):
                lb = max(lb, 1)
            return lb
    return None


# ---------------------------------------------------------------------------------------------
# table-driven discharges

def load_table():
    with open(os.path.join(VERIF, "spec", "panic_table.json")) as fh:
        return json.load(fh)


def copies_of(fa, op):
    """locals an operand is a plain copy of (the operand's own local included)"""
    out = set()
    pl = op_place(op)
    for _ in range(8):
        if pl is None or pl["p"]:
            break
        out.add(pl["l"])
        d = fa.single_def(pl["l"])
        if d is None or d[2] != "assign" or d[3]["k"] != "use":
            break
        pl = op_place(d[3]["op"])
    return out


def guarded_locals(fa, g):
    """Locals a guard speaks about, identified without their source names: by where the value
    ends up ("sink": an argument position of a named callee, or a field of a constructed
    struct). Falls back to the debug name only when no sink is given."""
    sink = g.get("sink")
    names = fa.fn.local_names()
    if sink is None:
        return {l for l, n in names.items() if n == g["local"]}
    out = set()

    def var_of(op):
        """the user variable (a local that has a debug name, whatever it is) an operand copies"""
        pl = op_place(op)
        for _ in range(8):
            if pl is None or pl["p"]:
                return None
            if pl["l"] in names or 1 <= pl["l"] <= fa.arg_count:
                return pl["l"]
            d = fa.single_def(pl["l"])
            if d is None or d[2] != "assign" or d[3]["k"] != "use":
                return None
            pl = op_place(d[3]["op"])
        return None

    if "callee" in sink:
        for b, t in fa.calls():
            c = callee_of(t)
            if c is None or not strip_generics((c.get("resolved") or c)["path"]).endswith(sink["callee"]):
                continue
            v = var_of(t["args"][sink["arg"]])
            if v is not None:
                out.add(v)
    else:
        for b in fa.live_blocks():
            for s in fa.blocks[b]["stmts"]:
                rv = s.get("rv")
                if rv and rv["k"] == "agg" and str(rv.get("adt", "")).endswith(sink["adt"]) \
                        and sink["field"] in (rv.get("fields") or []):
                    v = var_of(rv["ops"][rv["fields"].index(sink["field"])])
                    if v is not None:
                        out.add(v)
    if not out:
        raise EngineError("panic table guard: sink %s not found in %s" % (sink, fa.fn.path))
    return out


def check_guard(ctx, crate, E, g):
    """Machine-checked guard requirements of table entries. Returns (ok, text)."""
    kind = g["kind"]
    if kind == "rule":
        # all obligations of another rule family must hold on this tree
        import engine
        sub = engine.Ctx(ctx.prop, ctx.tier)
        sub._facts = ctx._facts
        if g["rule"] == "MAPLEN":
            import r_map
            Em = Effects(crate)
            fa, ok_b, err_b, map_calls, stores = r_map.mapall(sub, Em, crate)
            sub.obs = []
            r_map.maplen(sub, Em, crate, fa, ok_b, map_calls)
        elif g["rule"] == "LATTICE":
            import r_misc
            sub.obs = []
            r_misc.lattice_shape(sub)
        elif g["rule"] == "UNKFALL":
            import r_cand
            sub.obs = []
            r_cand.unkfall(sub)
        elif g["rule"] == "FEATSPAN":
            import r_feat
            sub.obs = []
            r_feat.run(sub)
        elif g["rule"] == "VERIFYMAP":
            ok1 = verify_ids_guard(crate, E)
            ok2, txt, _ = verify_before_map(crate, E)
            if not ok1:
                return False, "build() no longer rejects lexicon/unknown ids outside the connector"
            if not ok2:
                return False, txt
            ok3, txt3 = check_guard(ctx, crate, E, {"kind": "rule", "rule": "MAPLEN"})
            return ok3, txt + "; " + txt3
        elif g["rule"] == "VERIFY-IDS":
            ok = verify_ids_guard(crate, E)
            return ok, "build() rejects lexicon/unknown ids outside the connector before returning a dictionary"
        else:
            raise EngineError("panic table: unknown guard rule %s" % g["rule"])
        ok = bool(sub.obs) and all(o.ok for o in sub.obs)
        return ok, ("rule %s holds (%d obligations)" % (g["rule"], len(sub.obs)) if ok else
                    "rule %s is violated on this tree (%s)" % (
                        g["rule"], "; ".join(o.msg[:80] for o in sub.obs if not o.ok)[:200]))
    if kind == "bound":
        fa = E.fa(g["fn"])
        S = Sym(E, fa)
        for b, t in fa.calls():
            c = callee_of(t)
            if c is None or not strip_generics((c.get("resolved") or c)["path"]).endswith(g["callee"]):
                continue
            v = root_of(fa, t["args"][g["arg"]])
            best = None
            for gb in fa.dominators().get(b, ()):
                gt = fa.term(gb)
                if gt["k"] != "switch":
                    continue
                r = root_of(fa, gt["op"])
                if r[0] != "rv" or r[1]["k"] != "binop":
                    continue
                x, cst = root_of(fa, r[1]["a"]), const_eval(fa, r[1]["b"])
                if x != v or cst is None:
                    continue
                truth = edge_truth_to(fa, gb, b)
                opx = r[1]["op"]
                ub = None          # exclusive upper bound
                if opx == "Ge" and truth is False:
                    ub = cst
                elif opx == "Lt" and truth:
                    ub = cst
                elif opx == "Gt" and truth is False:
                    ub = cst + 1
                elif opx == "Le" and truth:
                    ub = cst + 1
                if ub is not None:
                    # the rejected edge must lead to Err only
                    ok_b, err_b, _ = result_exits(fa)
                    f_t, t_t = bool_switch_targets(gt)
                    bad = f_t if truth else t_t
                    if not (fa.reachable(bad) & ok_b):
                        best = ub if best is None else min(best, ub)
            if best is not None and best <= g["lt"]:
                return True, "argument %d of %s is bounded by a dominating check (< %d) whose failing edge returns Err" % (
                    g["arg"], g["callee"], best)
            return False, "no dominating check bounds argument %d of %s below %d (found %s)" % (
                g["arg"], g["callee"], g["lt"], best)
        return False, "call to %s not found in %s" % (g["callee"], g["fn"])
    if kind == "all":
        txts = []
        for g2 in g["of"]:
            ok2, t2 = check_guard(ctx, crate, E, g2)
            if not ok2:
                return False, t2
            txts.append(t2)
        return True, "; ".join(txts)
    if kind == "sized_by":
        # the vector that ends up in the sink has <count>() + plus elements: it receives one
        # push per element of a collection created with <count>() elements, plus `plus` pushes
        # after that loop on every path; or it is resized / created with that length
        fa = E.fa(g["fn"])
        ls = guarded_locals(fa, g)
        S = Sym(E, fa)

        def is_count(op, plus):
            e = strip_casts(S.operand(op))
            c = 0
            if e[0] == "binop" and e[1].startswith("Add") and strip_casts(e[3])[0] == "const":
                c = strip_casts(e[3])[1]
                e = strip_casts(e[2])
            return e[0] == "call" and short(e[1]) == g["count"] and c == plus

        def vec_of(op):
            pl = op_place(op)
            for _ in range(8):
                if pl is None:
                    return None
                if pl["l"] in ls and all(x == "*" for x in pl["p"]):
                    return pl["l"]
                d = fa.single_def(pl["l"])
                if d is None or d[2] != "assign" or d[3]["k"] not in ("use", "ref"):
                    return None
                pl = op_place(d[3]["op"]) if d[3]["k"] == "use" else d[3]["place"]
            return None
        pushes = [(b, t) for b, t in fa.calls()
                  if (callee_of(t) or {}).get("name") == "push" and t["args"] and vec_of(t["args"][0]) is not None]
        ok_b, err_b, _ = result_exits(fa)
        # created / resized with the length
        for b, t in fa.calls():
            nm = (callee_of(t) or {}).get("name")
            if nm == "resize" and len(t["args"]) >= 2 and vec_of(t["args"][0]) is not None and \
                    is_count(t["args"][1], g["plus"]) and \
                    not any(pb in fa.reachable(b) and pb != b for pb, _ in pushes) and \
                    all(fa.dominates(b, o) for o in ok_b):
                return True, "%s is resized to %s() + %d" % (g["local"], g["count"], g["plus"])
            if nm == "from_elem" and len(t["args"]) == 2 and t["dest"]["l"] in ls and not pushes and \
                    is_count(t["args"][1], g["plus"]):
                return True, "%s is created with %s() + %d elements" % (g["local"], g["count"], g["plus"])
        # collected from `plus` single elements chained with a length-preserving pass over a list of
        # <count>() elements: `once(0).chain(lists.iter().scan(0, ..)).collect()`
        def never_none(cl_op):
            """the closure handed to scan / map_while always answers Some(..)"""
            cl = E.closure_of_operand(fa, cl_op)
            if cl is None:
                return False
            cfa = E.fa(cl[0])
            vs = [s0["rv"].get("variant") for b0, i0, s0 in cfa.stmts()
                  if "lhs" in s0 and s0["lhs"]["l"] == 0 and not s0["lhs"]["p"] and s0["rv"]["k"] == "agg"]
            others = [1 for b0, i0, s0 in cfa.stmts()
                      if "lhs" in s0 and s0["lhs"]["l"] == 0 and not s0["lhs"]["p"] and s0["rv"]["k"] != "agg"]
            return bool(vs) and all(v == "Some" for v in vs) and not others and \
                not any(t0["dest"]["l"] == 0 and not t0["dest"]["p"] for b0, t0 in cfa.calls())

        def elems(op, depth=0):
            """(number of single elements, passes once over a list of <count>() elements) or None"""
            if depth > 10:
                return None
            pl = op_place(op)
            if pl is None or [x for x in pl["p"] if x != "*"]:
                return None
            ds = [d for d in fa.defs().get(pl["l"], []) if d[2] != "partial"]
            if len(ds) != 1:
                return None
            d = ds[0]
            if d[2] != "call":
                if d[3]["k"] in ("use", "cast"):
                    return elems(d[3]["op"], depth + 1)
                if d[3]["k"] == "ref":
                    return elems({"c": d[3]["place"]}, depth + 1)
                return None
            t = d[3]
            nm = (callee_of(t) or {}).get("name")
            if nm in ("once", "once_with"):
                return (1, 0)
            if nm == "from_elem" and len(t["args"]) == 2:
                return (0, 1) if is_count(t["args"][1], 0) else None
            if nm == "chain" and len(t["args"]) == 2:
                a, b_ = elems(t["args"][0], depth + 1), elems(t["args"][1], depth + 1)
                return (a[0] + b_[0], a[1] + b_[1]) if a is not None and b_ is not None else None
            if nm in ("into_iter", "iter", "iter_mut", "deref", "deref_mut", "as_slice", "enumerate", "map", "copied",
                      "cloned", "by_ref", "rev", "inspect") and t["args"]:
                return elems(t["args"][0], depth + 1)
            if nm == "scan" and len(t["args"]) == 3 and never_none(t["args"][2]):
                return elems(t["args"][0], depth + 1)
            return None
        for b, t in fa.calls():
            if (callee_of(t) or {}).get("name") == "collect" and t["args"] and t["dest"]["l"] in ls and not pushes:
                got = elems(t["args"][0])
                if got == (g["plus"], 1):
                    return True, "%s is collected from %d single element(s) chained with one pass over a list of %s() elements" % (
                        g["local"], g["plus"], g["count"])
        # one push per element of a collection of <count>() elements
        for nb, nt in fa.calls():
            if not any(strip_generics(x).endswith("::next") for x in callee_paths(nt)):
                continue
            cur, sized = nt["args"][0], False
            for _ in range(12):
                pl = op_place(cur)
                if pl is None:
                    break
                ds = [d for d in fa.defs().get(pl["l"], []) if d[2] != "partial"]
                if len(ds) != 1:
                    break
                d = ds[0]
                if d[2] == "call":
                    nm = (callee_of(d[3]) or {}).get("name")
                    if nm == "from_elem" and len(d[3]["args"]) == 2:
                        sized = is_count(d[3]["args"][1], 0)
                        break
                    if nm not in ("into_iter", "iter", "iter_mut", "deref", "deref_mut", "as_slice", "enumerate"):
                        break
                    cur = d[3]["args"][0] if d[3]["args"] else None
                elif d[3]["k"] in ("use", "cast"):
                    cur = d[3]["op"]
                elif d[3]["k"] == "ref":
                    cur = {"c": d[3]["place"]}
                else:
                    break
                if cur is None:
                    break
            if not sized:
                continue
            sw = fa.term(nb).get("t")
            st = fa.term(sw) if sw is not None else None
            if st is None or st["k"] != "switch":
                continue
            some_t = [tg for v, tg in zip(st["vals"], st["targets"]) if v == 1]
            none_t = [tg for v, tg in zip(st["vals"], st["targets"]) if v == 0] or [st["otherwise"]]
            if not some_t:
                continue
            body = fa.reachable(some_t[0], avoid={nb})
            after = fa.reachable(none_t[0], avoid={nb})
            inloop = [pb for pb, _ in pushes if pb in body and pb not in after]
            tail = [pb for pb, _ in pushes if pb in after]
            before = [pb for pb, _ in pushes if pb not in body and pb not in after]
            one_per_trip = len(inloop) == 1 and nb not in fa.reachable(some_t[0], avoid={inloop[0]})
            tail_ok = len(tail) == g["plus"] and all(
                o not in fa.reachable(none_t[0], avoid={pb}) for pb in tail for o in ok_b)
            if one_per_trip and tail_ok and not before:
                return True, "%s gets one element per entry of a list of %s() elements and %d after it" % (
                    g["local"], g["count"], g["plus"])
        return False, "%s of %s is no longer visibly sized by %s() + %d (one push per category plus the " \
                      "end, a resize, or a creation with that length)" % (
                          g["local"], g["fn"].split("::")[-2], g["count"], g["plus"])
    if kind == "arg_is_sum":
        # every call of <callee> made in <fn> (or a closure written in it) passes, as argument
        # <arg>, the sum of argument <of> and something: `f(.., pos, pos + len, ..)`
        region = [p for p in crate.fns if (p == g["fn"] or p.startswith(g["fn"] + "::{closure")) and crate.fns[p].body]
        if not region:
            raise EngineError("panic table guard: function %s not found" % g["fn"])
        n_calls, bad_ = 0, []
        for p in region:
            qa = E.fa(p)
            QS = Sym(E, qa)
            for b, t in qa.calls():
                c = callee_of(t)
                if c is None or not strip_generics((c.get("resolved") or c)["path"]).endswith(g["callee"]):
                    continue
                n_calls += 1
                e_sum = strip_casts(QS.operand(t["args"][g["arg"]]))
                e_base = strip_casts(QS.operand(t["args"][g["of"]]))
                okc = e_sum[0] == "binop" and e_sum[1].startswith("Add") and \
                    e_base in (strip_casts(e_sum[2]), strip_casts(e_sum[3]))
                if not okc:
                    bad_.append(show(e_sum)[:60])
        if n_calls and not bad_:
            return True, "%s is called with argument %d = argument %d + length (%d call site(s))" % (
                g["callee"], g["arg"], g["of"], n_calls)
        return False, "%s is called with %s as argument %d, which is not argument %d plus a length" % (
            g["callee"], bad_ or "nothing", g["arg"], g["of"])
    if kind == "len_le":
        # fn returns Err when len(<local>) exceeds a constant <= bound
        fa = E.fa(g["fn"])
        ls = guarded_locals(fa, g)
        ok_b, err_b, _ = result_exits(fa)
        for b in sorted(fa.live_blocks()):
            t = fa.term(b)
            if t["k"] != "switch":
                continue
            r = root_of(fa, t["op"])
            if r[0] != "rv" or r[1]["k"] != "binop":
                continue
            key = len_of_collection(fa, r[1]["a"])
            c = const_eval(fa, r[1]["b"])
            if key is None or c is None or key[0] != "local" or key[1] not in ls:
                continue
            f_t, t_t = bool_switch_targets(t)
            opx = r[1]["op"]
            ub, bad = None, None
            if opx == "Gt":
                ub, bad = c, t_t          # len > c => Err  : len <= c
            elif opx == "Ge":
                ub, bad = c - 1, t_t
            elif opx == "Le":
                ub, bad = c, f_t
            elif opx == "Lt":
                ub, bad = c - 1, f_t
            if ub is None or ub > g["le"]:
                continue
            if not (fa.reachable(bad) & ok_b) and all(fa.dominates(b, o) for o in ok_b):
                return True, "%s rejects more than %d %s" % (g["fn"].split("::")[-1], ub, g["local"])
        return False, "%s no longer bounds the number of %s by %d" % (g["fn"].split("::")[-1], g["local"], g["le"])
    if kind == "assign_in_arm":
        fa = E.fa(g["fn"])
        names = fa.fn.local_names()
        sw_local = [l for l, n in names.items() if n == g["switch_local"]]
        tgt_local = [l for l, n in names.items() if n == g["local"]]
        for b in sorted(fa.live_blocks()):
            t = fa.term(b)
            if t["k"] != "switch" or len(t["vals"]) < 2:
                continue
            r = root_of(fa, t["op"])
            if r[0] == "local" and r[1] in sw_local:
                arms = dict(zip(t["vals"], t["targets"]))
                if g["arm"] not in arms:
                    continue
                tg = arms[g["arm"]]
                others = {x for v, x in arms.items() if v != g["arm"]} | {t["otherwise"]}
                region = fa.reachable(tg, avoid=others - {tg})
                # restrict to the straight region before rejoining
                for bb in sorted(region):
                    for s in fa.blocks[bb]["stmts"]:
                        if "lhs" in s and not s["lhs"]["p"] and s["lhs"]["l"] in tgt_local and \
                                s["rv"]["k"] == "use" and (op_const(s["rv"]["op"]) or {}).get("int") == g["value"]:
                            if fa.dominates(tg, bb):
                                return True, "`%s = %d` in arm %d of the match on %s" % (
                                    g["local"], g["value"], g["arm"], g["switch_local"])
        return False, "`%s = %d` is no longer assigned in arm %d of the match on %s" % (
            g["local"], g["value"], g["arm"], g["switch_local"])
    if kind == "err_before":
        # a check in fn returning Err when `local` is zero dominates the function's Ok exit
        fa = E.fa(g["fn"])
        ls = guarded_locals(fa, g)
        ok_b, err_b, _ = result_exits(fa)
        for b in sorted(fa.live_blocks()):
            t = fa.term(b)
            if t["k"] != "switch":
                continue
            r = root_of(fa, t["op"])
            if r[0] == "rv" and r[1]["k"] == "binop" and r[1]["op"] in ("Eq", "Ne"):
                x, c = root_of(fa, r[1]["a"]), const_eval(fa, r[1]["b"])
                if ((x[0] == "local" and x[1] in ls) or copies_of(fa, r[1]["a"]) & ls) and c == 0:
                    f_t, t_t = bool_switch_targets(t)
                    zero = t_t if r[1]["op"] == "Eq" else f_t
                    if not (fa.reachable(zero) & ok_b) and all(fa.dominates(b, o) for o in ok_b):
                        return True, "%s returns Err when %s == 0" % (g["fn"].split("::")[-1], g["local"])
        return False, "%s no longer rejects %s == 0" % (g["fn"].split("::")[-1], g["local"])
    raise EngineError("panic table: unknown guard kind %s" % kind)


def verify_ids_guard(crate, E):
    """SystemDictionaryBuilder::build: both verify() calls gate the Ok result."""
    p = "vibrato::dictionary::builder::SystemDictionaryBuilder::build"
    fa = E.fa(p)
    ok_b, err_b, _ = result_exits(fa)
    n = 0
    for b, t in fa.calls():
        c = callee_of(t)
        if c and short(strip_generics((c.get("resolved") or c)["path"])) == "verify":
            sw = t.get("t")
            st = fa.term(sw) if sw is not None else None
            if st is None or st["k"] != "switch":
                return False
            r = root_of(fa, st["op"])
            neg = r[0] == "rv" and r[1]["k"] == "unop" and r[1]["op"] == "Not"
            f_t, t_t = bool_switch_targets(st)
            bad = t_t if neg else f_t
            if fa.reachable(bad) & ok_b:
                return False
            if not all(fa.dominates(b, o) for o in ok_b):
                return False
            n += 1
    return n == 2


def verify_before_map(crate, E):
    """VERIFYMAP: ConnIdMapper::left/right index the mapping table with ids taken from a lexicon
    or unknown-word component. Each call of Lexicon/UnkHandler::map_connection_ids must act on
    (a) a component of an already constructed Dictionary (ids verified by build(), rule
    VERIFY-IDS), or (b) a component created in the same function that has passed verify() on
    every path to the call, the failing edge of verify() leading to Err only.
    Returns (ok, text, instances)."""
    inst = []
    bad = []
    for p, f in sorted(crate.fns.items()):
        if not f.body or f.krate != "vibrato":
            continue
        fa = E.fa(p)
        for b, t in fa.calls():
            c = callee_of(t)
            if c is None:
                continue
            rp = strip_generics((c.get("resolved") or c)["path"])
            if not rp.endswith(("lexicon::Lexicon::map_connection_ids",
                                "unknown::UnkHandler::map_connection_ids")):
                continue
            ap = E.ap_operand(fa, t["args"][0])
            where = "%s -> %s" % (p.split("::")[-1], "::".join(rp.split("::")[-2:]))
            if ap is None:
                bad.append("%s: receiver not resolved" % where)
                continue
            if ap.root[0] == "arg":
                inst.append("%s on %r (component of a constructed dictionary)" % (where, ap))
                continue
            # freshly created component: a dominating verify() on the same root
            ok_b, err_b, _ = result_exits(fa)
            found = False
            for vb, vt in fa.calls():
                vc = callee_of(vt)
                if vc is None or short(strip_generics((vc.get("resolved") or vc)["path"])) != "verify":
                    continue
                vap = E.ap_operand(fa, vt["args"][0])
                if vap is None or vap.root != ap.root:
                    continue
                if not fa.dominates(vb, b):
                    continue
                sw = vt.get("t")
                st = fa.term(sw) if sw is not None else None
                if st is None or st["k"] != "switch":
                    continue
                r = root_of(fa, st["op"])
                neg = r[0] == "rv" and r[1]["k"] == "unop" and r[1]["op"] == "Not"
                f_t, t_t = bool_switch_targets(st)
                failing = t_t if neg else f_t
                from flow import reach_const as _rc
                reach_fail = _rc(fa, failing)       # follows the Err that is built there through `?`
                if (reach_fail & ok_b) or b in reach_fail:
                    continue
                found = True
            if found:
                inst.append("%s on a new component after verify()" % where)
            else:
                bad.append("%s maps the ids of a component created in this function before "
                           "verify() has accepted them" % where)
    if bad:
        return False, "; ".join(bad), inst
    if len(inst) < 3:
        return False, "only %d map_connection_ids call sites found (expected >= 3)" % len(inst), inst
    return True, "every mapped component is verified first (%s)" % "; ".join(inst), inst


def run(ctx):
    crate = ctx.facts("A").lib
    E = Effects(crate)
    cg = CallGraph(crate)
    roots = list(ENTRY)
    # decoders are entered through bincode (opaque): add every Decode impl of the workspace
    for p, f in crate.fns.items():
        if f.body and f.krate == "vibrato" and f.j.get("impl_trait") in (
                "bincode::Decode", "bincode::de::Decode", "bincode::BorrowDecode", "bincode::de::BorrowDecode"):
            roots.append(p)
    reach = cg.reachable(roots)
    ctx.floor("PANIC", "functions below the entry points", len(reach), 100)
    sites = enumerate_sites(crate, E, reach)
    ctx.floor("PANIC", "potential panic / wrap sites", len(sites), 150)
    table = load_table()
    entries = {e["key"]: e for e in table["entries"]}
    used = set()
    guard_cache = {}
    tags = {}
    # Re-spelled sites. The table is keyed by function, kind and a description of the operands, so
    # a behaviour-preserving edit that names an intermediate value or moves a statement into a
    # closure changes the key of a site that is already justified. A site without an exact entry
    # is therefore matched to a *stale* entry (one whose exact key no longer occurs) of the same
    # function (closures count as their parent), the same kind and the same operation, as long as
    # there are at least as many stale entries as unmatched sites of that shape; the entry's reason
    # and machine-checked guard carry over. More sites than stale entries of a shape = a new site.
    def coarse(key):
        fn_, kind_, desc_ = key.split("|")[0], key.split("|")[1], "|".join(key.split("|")[2:-1])
        fn_ = re.sub(r"(::\{closure#\d+\})+$", "", fn_)
        head = desc_.split("(", 1)[0]
        # indexing is one operation whether it is spelled as an Index impl call (Vec, HashMap)
        # or compiled to a bounds check (slice, array)
        if kind_ == "assert:BoundsCheck" or (kind_ == "call" and head.rsplit("::", 1)[-1] in ("index", "index_mut")):
            return fn_, "index", "index"
        if kind_ == "call":
            head = head.rsplit("::", 1)[-1]
        return fn_, kind_, head
    live_keys = {x.key for x in sites}
    stale_by = {}
    for k_ in sorted(entries):
        if k_ not in live_keys and not k_.startswith(("NARROW|", "TOK|", "TRAIN|")):
            stale_by.setdefault(coarse(k_), []).append(k_)
    # A statement that a restructuring duplicated (a shared tail moved into both branches) shows
    # up as one more site with the same function, kind and operand description, one ordinal
    # higher. When the description names its operands (no anonymous variable in it) the entry of
    # ordinal 0 speaks about exactly this expression and carries over.
    def sibling(key):
        head, _ord = key.rsplit("|", 1)
        desc_ = "|".join(head.split("|")[2:])
        if _ord == "0" or "var:" in desc_ or re.search(r"\bagg\b", desc_):
            return None
        return entries.get(head + "|0")
    for s in sites:
        if s.key not in entries and sibling(s.key) is not None:
            entries[s.key] = sibling(s.key)
            ctx.listed("PANIC", "duplicated sites covered by the entry of their first occurrence", s.key)
    need_by = {}
    undis = {}
    for s in sites:
        if s.key not in entries:
            r0 = discharge(crate, E, s)
            undis[s.key] = r0
            if r0 is None:
                need_by.setdefault(coarse(s.key), []).append(s.key)
    respelled = {}
    for ck, ks in need_by.items():
        cands = stale_by.get(ck, [])
        if len(ks) <= len(cands):
            for a_, b_ in zip(sorted(ks), cands):
                respelled[a_] = b_
    for s in sites:
        r = undis[s.key] if s.key in undis else discharge(crate, E, s)
        chain = " <- ".join(x.split("::")[-1] for x in reach.get(s.fn, (s.fn,))[-3:])
        if r is not None:
            tags[r[0]] = tags.get(r[0], 0) + 1
            ctx.ob("PANIC", s.key, True, s.loc, "%s in %s: discharged by %s (%s)" % (
                s.desc, s.fn.split("::")[-1], r[0], r[1]), {"reach": chain})
            continue
        e = entries.get(s.key)
        if e is None and s.key in respelled:
            e = entries[respelled[s.key]]
            used.add(respelled[s.key])
            ctx.listed("PANIC", "re-spelled sites matched to their table entry",
                       "%s  <-  %s" % (s.key, respelled[s.key]))
        if e is not None:
            used.add(s.key)
            ok = True
            gtxt = ""
            if e.get("guard"):
                gk = json.dumps(e["guard"], sort_keys=True)
                if gk not in guard_cache:
                    guard_cache[gk] = check_guard(ctx, crate, E, e["guard"])
                ok, gtxt = guard_cache[gk]
            tags["TABLE"] = tags.get("TABLE", 0) + 1
            ctx.ob("PANIC", s.key, ok, s.loc,
                   "%s in %s: %s%s" % (s.desc, s.fn.split("::")[-1], e["reason"],
                                       (" [guard: %s]" % gtxt) if gtxt else "")
                   if ok else
                   "%s in %s is only safe because of a guard that no longer holds: %s (%s)"
                   % (s.desc, s.fn.split("::")[-1], gtxt, e["reason"]), {"reach": chain})
            continue
        ctx.ob("PANIC", s.key, False, s.loc,
               "potential panic/wrap `%s` (%s) in %s, reachable from %s, is not discharged by any "
               "structural argument (constant operands, dominating length guard, guarded "
               "subtraction, memory-bounded arithmetic) nor justified in spec/panic_table.json"
               % (s.desc, s.kind, s.fn, chain), {"reach": chain})
    vok, vtxt, vinst = verify_before_map(crate, E)
    ctx.ob("VERIFYMAP", "ids-verified-before-translation", vok,
           "vibrato/src/dictionary.rs (callers of map_connection_ids)",
           vtxt if vok else "the id mapping table is indexed with unverified ids: " + vtxt)
    ctx.count("VERIFYMAP", "map_connection_ids call sites", len(vinst))
    for k, v in sorted(tags.items()):
        ctx.count("PANIC", "discharged by " + k, v)
    stale = sorted(set(entries) - used)
    ctx.count("PANIC", "stale table entries", len(stale))
    for k in stale[:20]:
        ctx.listed("PANIC", "stale_table_entries", k)
    ctx.assume("dependency calls (csv-core, crawdad, regex, bincode, hashbrown, std) are opaque: "
               "their documented contracts are trusted")
    ctx.assume("the tokenization path is audited separately (TOKPANIC): its indexings are safe "
               "by value invariants established in the builder, named per site in the table")


def run_narrow(ctx, only=None, casts=True):
    """NARROW: narrowing `as` casts on the tokenization path (below Worker::tokenize and the
    token accessors) must be provably range-preserving; a wrapped index or id silently selects
    another node / dictionary entry."""
    crate = ctx.facts("A").lib
    E = Effects(crate)
    cg = CallGraph(crate)
    roots = [p for p, f in crate.fns.items()
             if f.body and f.j.get("impl_self_adt") in ("vibrato::tokenizer::worker::Worker",
                                                        "vibrato::token::Token")]
    reach = cg.reachable(roots)
    ctx.floor("NARROW", "functions on the tokenization path", len(reach), 40)
    all_sites = enumerate_sites(crate, E, reach)
    sites = [s for s in all_sites if s.kind == "cast"]
    ctx.floor("NARROW", "narrowing casts found", len(sites), 3)
    arith = [s for s in all_sites if s.kind == "assert:Overflow"]
    ctx.floor("NARROW", "overflow-checked arithmetic sites on the tokenization path", len(arith), 20)
    if only:
        sites = [s for s in sites if only(s.fn)]
        arith = [s for s in arith if only(s.fn)]
    ctx.count("NARROW", "narrowing casts on the tokenization path", len(sites))
    # NARROW-ARITH: arithmetic carried out in an 8/16-bit type (ids, category numbers, lengths)
    # overflows for values that are legal members of that type: the builder accepts every id up
    # to the type's maximum, so `id + 1` in u16 panics (or wraps with checks off) for id 65535.
    narrow_n = 0
    for s in arith:
        fa = E.fa(s.fn)
        ty = overflow_type(fa, s.data["term"])
        if ty is None:
            raise EngineError("NARROW: cannot type the overflow check at %s" % s.loc)
        if INT_BITS.get(ty, 64) > 16:
            continue
        narrow_n += 1
        r = discharge(crate, E, s)
        ok = r is not None
        why = r[1] if r else ""
        if not ok:
            e = {x["key"]: x for x in load_table()["entries"]}.get("NARROW|" + s.key)
            if e is not None:
                gok, gtxt = check_guard(ctx, crate, E, e["guard"]) if e.get("guard") else (True, "")
                ok, why = gok, e["reason"] + (" [guard: %s]" % gtxt if gtxt else "")
        ctx.ob("NARROW", s.key, ok, s.loc,
               "%s-bit arithmetic %s in %s cannot overflow (%s)" % (ty, s.desc, s.fn.split("::")[-1], why)
               if ok else
               "arithmetic %s is carried out in %s in %s on the tokenization path: a value that "
               "the builder accepts (up to %s::MAX) overflows here, so an accepted dictionary "
               "panics (or, with overflow checks off, selects another row) during tokenization"
               % (s.desc, ty, s.fn, ty))
    ctx.count("NARROW", "8/16-bit arithmetic sites on the tokenization path", narrow_n)
    for s in (sites if casts else []):
        r = discharge(crate, E, s)
        fa = E.fa(s.fn)
        ok = r is not None
        why = r[1] if r else ""
        if not ok:
            # masked values: (x >> k) as uN with enough bits shifted out, or x & mask
            rv = s.data["rv"]
            rr = root_of(fa, rv["op"])
            if rr[0] == "rv" and rr[1]["k"] == "binop":
                opn = rr[1]["op"]
                c = const_eval(fa, rr[1]["b"])
                fb = INT_BITS.get(rv["from_ty"], 64)
                tb = INT_BITS.get(rv["ty"], 64)
                if opn == "Shr" and c is not None and fb - c <= tb:
                    ok, why = True, "only %d bits remain after the shift" % (fb - c)
                if opn == "BitAnd" and c is not None and c < (1 << tb):
                    ok, why = True, "masked to %d bits" % tb
        if not ok:
            e = {x["key"]: x for x in load_table()["entries"]}.get("NARROW|" + s.key)
            if e is not None:
                gok, gtxt = check_guard(ctx, crate, E, e["guard"]) if e.get("guard") else (True, "")
                ok, why = gok, e["reason"] + (" [guard: %s]" % gtxt if gtxt else "")
        ctx.ob("NARROW", s.key, ok, s.loc,
               "cast %s in %s keeps the value (%s)" % (s.desc, s.fn.split("::")[-1], why) if ok else
               "narrowing cast %s in %s can wrap: nothing bounds the value to the target type, so "
               "a large count silently selects another node / entry" % (s.desc, s.fn))


def overflow_type(fa, term):
    """Integer type an overflow-checked operation is carried out in (from its (T, bool) result)."""
    if term["msg"].get("op") in ("Shl", "Shr"):
        return "shift"      # the check is on the shift amount, not on the value's width
    pl = term["cond"].get("m") or term["cond"].get("c")
    if pl is None:
        return None
    ty = fa.fn.locals[pl["l"]]["ty"]
    m = re.match(r"\((\w+), bool\)$", ty)
    if m:
        return m.group(1)
    # OverflowNeg and shifts compare directly: use the operand's type
    return None


def run_narrow_lattice(ctx):
    run_narrow(ctx, lambda fn: "tokenizer::" in fn or "token::" in fn)


def run_narrow_dict(ctx):
    run_narrow(ctx, lambda fn: "tokenizer::" not in fn and "token::" not in fn)


def _tok_scan(ctx):
    crate = ctx.facts("A").lib
    E = Effects(crate)
    cg = CallGraph(crate)
    roots = [p for p, f in crate.fns.items()
             if f.body and f.j.get("impl_self_adt") in ("vibrato::tokenizer::worker::Worker",
                                                        "vibrato::token::Token")]
    reach = cg.reachable(roots)
    builder = set(cg.reachable(ENTRY))
    fns = {p: c for p, c in reach.items() if p not in builder}
    out = []
    for s in enumerate_sites(crate, E, fns):
        r = discharge(crate, E, s)
        if r is None and s.kind == "cast":
            fa = E.fa(s.fn)
            rv = s.data["rv"]
            rr = root_of(fa, rv["op"])
            if rr[0] == "rv" and rr[1]["k"] == "binop":
                c = const_eval(fa, rr[1]["b"])
                fb, tb = INT_BITS.get(rv["from_ty"], 64), INT_BITS.get(rv["ty"], 64)
                if rr[1]["op"] == "Shr" and c is not None and fb - c <= tb:
                    r = ("SHIFT", "only %d bits remain after the shift" % (fb - c))
                if rr[1]["op"] == "BitAnd" and c is not None and c < (1 << tb):
                    r = ("MASK", "masked to %d bits" % tb)
        out.append((s, r))
    return crate, E, reach, fns, out


def tok_sites(ctx):
    """Keys of the undischarged sites of the tokenization path (for spec/gen_panic_table.py)."""
    return [s.key for s, r in _tok_scan(ctx)[4] if r is None]


def run_tok(ctx):
    """TOKPANIC (C10 second clause, C01): the PANIC audit applied to the functions below the
    Worker / Token API that the builders do not reach. A returned dictionary must tokenize every
    string without panicking or reading out of range; the sites rest on value invariants of the
    dictionary and the lattice, each named in the table and tied to the structural rule that
    establishes it (ids verified before use, lattice shape, at-least-one-candidate, unk.def
    size). A site that is neither discharged nor tabled is reported."""
    crate, E, reach, fns, scanned = _tok_scan(ctx)
    ctx.floor("TOKPANIC", "functions on the tokenization path outside the builders", len(fns), 30)
    ctx.floor("TOKPANIC", "potential panic / wrap sites", len(scanned), 90)
    patterns = [p for p in load_table().get("patterns", []) if p.get("scope") == "TOK"]
    ctx.floor("TOKPANIC", "table rules for the tokenization path", len(patterns), 40)
    open_keys = set()
    from engine import load_known
    for prop_keys in load_known()[0].values():
        open_keys |= {k.split("|", 1)[1] for k in prop_keys if k.startswith("TOKPANIC|")}
    guard_cache = {}
    tags = {}
    # re-spelled sites (see PANIC): a site no table rule matches is given to a *stale* rule - one
    # that matches nothing on this tree - of the same function (closures count as their parent)
    # and the same operation; at most two sites per stale rule
    def _match(sk, fn_):
        for p_ in patterns:
            if _fn_match(p_["fn"], fn_) and re.search(p_["rx"], sk):
                return p_
        return None
    live = [id(_match(s_.key, s_.fn)) for s_, r_ in scanned if r_ is None]
    stale = [p_ for p_ in patterns if id(p_) not in live]
    absorbed = {}

    import inline as _inl
    moved = {}

    def _moved_to(base):
        """functions that took over the body of a function of the confirmed tree that matched
        `base` and no longer exists (a private helper merged into its only caller)"""
        if base not in moved:
            out = set()
            for path in _inl.baseline():
                if base in path and not dict.__contains__(crate.fns, path):
                    g, seen_ = _inl.sole_caller(path), set()
                    while g is not None and g not in seen_:
                        seen_.add(g)
                        if dict.__contains__(crate.fns, g):
                            out.add(g)
                            break
                        g = _inl.sole_caller(g)
            moved[base] = out
        return moved[base]

    def _respelled(s_):
        parent = re.sub(r"(::\{closure#\d+\})+$", "", s_.fn)
        head = s_.desc.split("(", 1)[0]
        for p_ in stale:
            base = p_["fn"].split("::{closure")[0]
            if base not in parent and parent not in _moved_to(base):
                continue
            rx_head = re.match(r"[A-Za-z_:<>]*", re.sub(r"\\(.)", r"\1", p_["rx"])).group(0)
            if rx_head and rx_head.split("::")[-1] not in head and head.split("::")[-1] not in rx_head:
                continue
            if absorbed.get(id(p_), 0) >= 2:
                continue
            absorbed[id(p_)] = absorbed.get(id(p_), 0) + 1
            return p_
        return None
    for s, r in scanned:
        chain = " <- ".join(x.split("::")[-1] for x in reach.get(s.fn, (s.fn,))[-3:])
        if r is not None:
            tags[r[0]] = tags.get(r[0], 0) + 1
            ctx.ob("TOKPANIC", s.key, True, s.loc, "%s in %s: discharged by %s (%s)" % (
                s.desc, s.fn.split("::")[-1], r[0], r[1]), {"reach": chain})
            continue
        e = None
        if s.key not in open_keys:       # recorded findings are never covered by a table rule
            e = _match(s.key, s.fn)
            if e is None:
                e = _respelled(s)
                if e is not None:
                    ctx.listed("TOKPANIC", "re-spelled sites matched to a stale table rule",
                               "%s  <-  %s / %s" % (s.key, e["fn"], e["rx"]))
        if e is not None:
            ok, gtxt = True, ""
            if e.get("guard"):
                gk = json.dumps(e["guard"], sort_keys=True)
                if gk not in guard_cache:
                    guard_cache[gk] = check_guard(ctx, crate, E, e["guard"])
                ok, gtxt = guard_cache[gk]
            tags["TABLE"] = tags.get("TABLE", 0) + 1
            ctx.ob("TOKPANIC", s.key, ok, s.loc,
                   "%s in %s: %s%s" % (s.desc, s.fn.split("::")[-1], e["reason"],
                                       (" [guard: %s]" % gtxt[:160]) if gtxt else "") if ok else
                   "%s in %s is only safe because of a guard that no longer holds: %s (%s)"
                   % (s.desc, s.fn.split("::")[-1], gtxt, e["reason"]), {"reach": chain})
            continue
        ctx.ob("TOKPANIC", s.key, False, s.loc,
               "potential panic/wrap `%s` (%s) in %s on the tokenization path (%s) is neither "
               "discharged structurally nor justified in spec/panic_table.json: an accepted "
               "dictionary or an input string may panic or read out of range here"
               % (s.desc, s.kind, s.fn, chain), {"reach": chain})
    for k, v in sorted(tags.items()):
        ctx.count("TOKPANIC", "discharged by " + k, v)
    ctx.assume("TOKPANIC: the table reasons name value invariants (lattice connectivity, trie "
               "postings, table sizes) that are argued, not proved; the guards attached to them "
               "are re-verified on every run")


def _fn_match(pat, fn):
    """a table rule names a function, possibly one of its closures by number; the number is an
    accident of how many closures precede it, and a statement may move between f and a closure of
    f: a rule for `f::{closure#2}` covers f and its closures (operands are described as f sees
    them, and the operand pattern tells the sites apart)"""
    if pat in fn:
        return True
    base = re.sub(r"(::\{closure(#\d+\})?)+$", "", pat)
    return base != pat and base in re.sub(r"(::\{closure#\d+\})+$", "", fn)


TRAIN_FNS = ("UnkHandler::compatible_unk_index", "trainer::Trainer::build_lattice")


def _train_scan(ctx):
    crate = ctx.facts("A").lib
    E = Effects(crate)
    fns = {p: (p,) for p, f in crate.fns.items() if f.body and any(x in p for x in TRAIN_FNS)}
    return crate, E, fns, [(s, discharge(crate, E, s)) for s in enumerate_sites(crate, E, fns)]


def train_sites(ctx):
    return [s.key for s, r in _train_scan(ctx)[3] if r is None]


def run_train(ctx):
    """TRAINPANIC (C19): the panic-site audit applied to the functions that turn a parsed corpus
    into a training lattice (Trainer::build_lattice and its closures, compatible_unk_index). The
    table reasons assume the corpus is tokenizer output (non-empty surfaces that concatenate to
    the sentence); a new index / unwrap / arithmetic site on this path is reported."""
    crate, E, fns, scanned = _train_scan(ctx)
    # (named functions only: how many closures a function is written with is a matter of style)
    ctx.floor("TRAINPANIC", "named functions between the corpus and the training lattice",
              len([p for p in fns if "{closure" not in p]), 2)
    ctx.floor("TRAINPANIC", "potential panic / wrap sites", len(scanned), 20)
    patterns = [p for p in load_table().get("patterns", []) if p.get("scope") == "TRAIN"]
    ctx.floor("TRAINPANIC", "table rules", len(patterns), 10)
    guard_cache = {}
    for s, r in scanned:
        if r is not None:
            ctx.ob("TRAINPANIC", s.key, True, s.loc, "%s in %s: discharged by %s (%s)" % (
                s.desc, s.fn.split("::")[-1], r[0], r[1]))
            continue
        e = None
        for p in patterns:
            if _fn_match(p["fn"], s.fn) and re.search(p["rx"], s.key):
                e = p
                break
        if e is None:
            ctx.ob("TRAINPANIC", s.key, False, s.loc,
                   "potential panic `%s` (%s) in %s between the corpus and the training lattice is "
                   "neither discharged structurally nor justified in spec/panic_table.json: feeding "
                   "tokenizer output to train may panic here" % (s.desc, s.kind, s.fn))
            continue
        ok, gtxt = True, ""
        if e.get("guard"):
            gk = json.dumps(e["guard"], sort_keys=True)
            if gk not in guard_cache:
                guard_cache[gk] = check_guard(ctx, crate, E, e["guard"])
            ok, gtxt = guard_cache[gk]
        ctx.ob("TRAINPANIC", s.key, ok, s.loc,
               "%s in %s: %s%s" % (s.desc, s.fn.split("::")[-1], e["reason"],
                                   (" [guard: %s]" % gtxt[:120]) if gtxt else "") if ok else
               "%s in %s is only safe because of a guard that no longer holds: %s" % (
                   s.desc, s.fn.split("::")[-1], gtxt))
    ctx.assume("TRAINPANIC assumes the corpus is tokenizer output: every token has a non-empty "
               "surface and the surfaces concatenate to the sentence (a hand-written corpus with an "
               "empty surface can still make build_lattice index past the sentence)")


def run_costsum(ctx):
    """COSTSUM (C02): every overflow-checked i32 addition of path / connection / word costs on
    the tokenization path. total_cost is the accumulated cost only while these sums stay inside
    32 bits; each site is listed (none is discharged structurally: the operands are sums over
    the sentence)."""
    crate, E, reach, fns, scanned = _tok_scan(ctx)
    n = 0
    for s, r in scanned:
        if s.kind != "assert:Overflow" or r is not None:
            continue
        fa = E.fa(s.fn)
        if overflow_type(fa, s.data["term"]) != "i32":
            continue
        n += 1
        ctx.ob("COSTSUM", s.key, False, s.loc,
               "i32 sum of costs %s in %s can overflow: the accumulated cost of a long or "
               "expensive path leaves the 32-bit range, total_cost wraps (release) or the "
               "addition panics (overflow checks on)" % (s.desc, s.fn))
    ctx.floor("COSTSUM", "i32 cost sums on the tokenization path", n, 3)


def run_narrow_connector(ctx):
    run_narrow(ctx, lambda fn: "::connector::" in fn)


def run_narrow_arith(ctx):
    """8/16-bit arithmetic anywhere below Worker::tokenize / Token (C10: an accepted dictionary
    tokenizes every string without panicking)."""
    run_narrow(ctx, None, casts=False)


def run_errprop(ctx):
    """ERRPROP on the builder paths: no parser error is dropped, `.ok()`-ed or defaulted (a
    swallowed parse error would silently mis-assign ids, costs or character categories)."""
    import r_codec
    crate = ctx.facts("A").lib
    cg = CallGraph(crate)
    reach = set(cg.reachable(ENTRY))
    r_codec.errprop_rule(ctx, lambda f: f.path in reach and f.krate == "vibrato", "builder",
                         cfgs=("A",), floor=40)


def fieldwidth(ctx):
    """FIELDWIDTH (C01, C02, C04, C12, C13, C10): a field of vibrato's own types that carries a
    position, a length, a count or a cost does not become *narrower* than in the confirmed tree
    (spec/field_types.json) when the new width is 16 bits or less. Positions in a sentence and
    run lengths are bounded only by the input (a sentence of 70000 characters is ordinary
    input), so a `usize` -> `u16` field silently wraps or saturates: the stored back-pointer,
    start position or run length then names another place. (Fields that are 16 bits wide in the
    confirmed tree - connection ids, category ids, costs - are the dictionary format's own
    limits and are checked by the builders.) Removing or renaming a field is not judged."""
    import json as _json
    import re as _re
    with open(os.path.join(VERIF, "spec", "field_types.json")) as fh:
        base = _json.load(fh)["fields"]
    INT = r"\b(u8|u16|u32|u64|usize|i8|i16|i32|i64|isize)\b"
    n = 0
    for cfg in ("A", "B"):
        crate = ctx.facts(cfg).lib
        for key, oldty in sorted(base.items()):
            adt, fld = key.rsplit(".", 1)
            a = crate.adts.get(adt)
            if a is None:
                continue
            cur = [f for v in a["variants"] for f in v["fields"] if f["name"] == fld]
            if not cur:
                continue
            newty = cur[0]["ty"]
            o, m = _re.findall(INT, oldty), _re.findall(INT, newty)
            if not o or not m:
                continue
            ob_, nb_ = INT_BITS[o[0]], INT_BITS[m[0]]
            if cfg == "A":
                n += 1
            ok = not (nb_ < ob_ and nb_ <= 16)
            if cfg == "B" and ok:
                continue
            ctx.ob("FIELDWIDTH", "%s|%s" % (cfg, key), ok, "%s:%s" % (a["sp"]["file"], a["sp"]["line"]),
                   "%s keeps its width (%s)" % (key.split("::")[-1], newty) if ok else
                   "field %s was narrowed from %s to %s: positions, lengths and counts are bounded only "
                   "by the input, values above %d wrap or saturate and then name another position, "
                   "node or run" % (key.split("::", 1)[-1], oldty, newty, (1 << nb_) - 1))
    ctx.floor("FIELDWIDTH", "integer-carrying fields compared", n, 40)

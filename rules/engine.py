"""Verdict protocol: obligations, violations, evidence files, known findings."""
import json
import os
import re
import sys
import time

from facts import VERIF, EngineError

KNOWN = os.path.join(VERIF, "known_findings.txt")
EVID = os.environ.get("VERIF_EVIDENCE_DIR") or os.path.join(VERIF, "evidence")


class Ob:
    """One obligation (rule instance) with its outcome."""
    __slots__ = ("rule", "key", "ok", "loc", "msg", "facts")

    def __init__(self, rule, key, ok, loc, msg, facts=None):
        self.rule = rule
        self.key = key
        self.ok = ok
        self.loc = loc
        self.msg = msg
        self.facts = facts or {}

    def to_json(self):
        return {"rule": self.rule, "key": self.key, "ok": self.ok, "at": self.loc,
                "what": self.msg, "facts": self.facts}


class Ctx:
    """Collects obligations for one property run."""

    def __init__(self, prop, tier):
        self.prop = prop
        self.tier = tier
        self.obs = []
        self.analysed = {}     # rule -> dict of counters / lists
        self.assumptions = []
        self.notes = []
        self.floors = []
        self._facts = {}

    def facts(self, cfg="A"):
        import facts as F
        if cfg not in self._facts:
            self._facts[cfg] = F.load(cfg)
        return self._facts[cfg]

    def ob(self, rule, key, ok, loc, msg, facts=None):
        """Record an obligation. key identifies the instance (no line numbers)."""
        self.obs.append(Ob(rule, "%s|%s" % (rule, key), bool(ok), loc, msg, facts))
        return bool(ok)

    def count(self, rule, what, n=1):
        d = self.analysed.setdefault(rule, {})
        d[what] = d.get(what, 0) + n

    def listed(self, rule, what, item):
        d = self.analysed.setdefault(rule, {})
        d.setdefault(what, [])
        if item not in d[what]:
            d[what].append(item)

    def floor(self, rule, what, got, minimum):
        """Fail closed when a rule matched fewer instances than were confirmed by hand."""
        self.floors.append((rule, what, got, minimum))
        if got < minimum:
            raise EngineError("rule %s: %s = %d below the confirmed floor %d (anchor lost?)"
                              % (rule, what, got, minimum))

    def assume(self, text):
        if text not in self.assumptions:
            self.assumptions.append(text)


def load_known():
    """Returns (open: {prop: {key: what}}, fixed: [(prop, commit, what)])."""
    opened = {}
    fixed = []
    if not os.path.exists(KNOWN):
        return opened, fixed
    for line in open(KNOWN):
        line = line.rstrip("\n")
        if not line.strip() or line.lstrip().startswith("#"):
            continue
        m = re.match(r"^open: property=(\S+) key=(.*?) :: (.*)$", line)
        if m:
            opened.setdefault(m.group(1), {})[m.group(2)] = m.group(3)
            continue
        m = re.match(r"^fixed: property=(\S+) (\S+) (.*)$", line)
        if m:
            fixed.append((m.group(1), m.group(2), m.group(3)))
            continue
        raise EngineError("known_findings.txt: cannot parse line: %r" % line)
    return opened, fixed


def finish(ctx, t0, explanation, seed=0, replay_only=None):
    """Write evidence, print verdict lines, return exit code."""
    opened, _fixed = load_known()
    my_open = opened.get(ctx.prop, {})
    viols = [o for o in ctx.obs if not o.ok]
    def base_key(k):
        # the thorough tier repeats the rules on the no-default-features build and tags those
        # obligations `cfgC`; a recorded finding is the same site in either build
        return k.replace("|cfgC|", "|", 1)
    new = [o for o in viols if base_key(o.key) not in my_open]
    known = [o for o in viols if base_key(o.key) in my_open]
    # A recorded finding of the conservative audits names its site by function and expression.
    # When that exact site is gone and the same operation (same audit, same function - closures
    # count as their parent -, same kind, same operator / cast) shows up unbounded under another
    # spelling, it is the recorded finding re-spelled (loop -> fold, renamed temporaries), not a
    # new one: one such site per recorded entry whose own key no longer occurs.
    AUDITS = ("NARROW", "COSTSUM", "TOKPANIC", "PANIC", "TRAINPANIC")

    def loose(k):
        parts = base_key(k).split("|")
        if len(parts) < 4 or parts[0] not in AUDITS:
            return None
        return (parts[0], re.sub(r"::\{closure#\d+\}", "", parts[1]), parts[2], parts[3].split("(")[0])
    present = {base_key(o.key) for o in viols}
    stale = {}
    for k in my_open:
        if k not in present and loose(k):
            stale.setdefault(loose(k), []).append(k)
    respelled = {}
    for o in list(new):
        lk = loose(o.key)
        if base_key(o.key) in respelled:
            new.remove(o)
            known.append(o)
        elif lk and stale.get(lk):
            respelled[base_key(o.key)] = stale[lk].pop(0)
            new.remove(o)
            known.append(o)
    os.makedirs(os.path.join(EVID, "replay"), exist_ok=True)
    printed = set()
    for o in known:
        if base_key(o.key) in printed:
            continue
        printed.add(base_key(o.key))
        if base_key(o.key) in respelled:
            rk = respelled[base_key(o.key)]
            print("KNOWN-FINDING: property=%s %s (%s) [re-spelled as %s]" % (ctx.prop, rk, my_open[rk], o.key))
            continue
        print("KNOWN-FINDING: property=%s %s (%s)" % (ctx.prop, base_key(o.key), my_open[base_key(o.key)]))
    # one KNOWN-FINDING line per distinct key
    rc = 0
    seen = set()
    n = 0
    for o in new:
        if o.key in seen:
            continue
        seen.add(o.key)
        n += 1
        rp = os.path.join(EVID, "replay", "%s-%d.json" % (ctx.prop, n))
        with open(rp, "w") as fh:
            json.dump({"property": ctx.prop, "rule": o.rule, "key": o.key, "at": o.loc,
                       "what": o.msg, "facts": o.facts, "tier": ctx.tier}, fh, indent=1)
        print("  %s: %s\n    at %s\n    key %s" % (o.rule, o.msg, o.loc, o.key))
        print("VIOLATION property=%s replay=%s" % (ctx.prop, rp))
        rc = 1
    distinct_sites = len({o.key for o in ctx.obs})
    samples = []
    by_rule = {}
    for o in ctx.obs:
        by_rule.setdefault(o.rule, []).append(o)
    for r, lst in sorted(by_rule.items()):
        for o in lst[:3]:
            samples.append(o.to_json())
    for o in viols[:10]:
        j = o.to_json()
        if j not in samples:
            samples.append(j)
    ev = {
        "property_id": ctx.prop,
        "tier": ctx.tier,
        "seed": seed,
        "level": "other",
        "coverage": {
            "explanation": explanation,
            "rule": "each obligation is one instance of a static rule (function/call site/field/"
                    "path) evaluated over the type-checked program and MIR of /repo's current "
                    "tree; distinct = distinct rule-instance keys; every instance is non-trivial "
                    "(it names a concrete construct that had to satisfy the rule)",
            "evaluations": len(ctx.obs),
            "distinct_nontrivial": distinct_sites,
            "obligations": len(ctx.obs),
            "discharged": len(ctx.obs) - len(viols),
            "samples": samples,
            "analysed": ctx.analysed,
            "rules": {r: {"instances": len(l), "violations": sum(1 for o in l if not o.ok)}
                      for r, l in sorted(by_rule.items())},
            "floors": [{"rule": r, "what": w, "got": g, "min": m} for r, w, g, m in ctx.floors],
            "known_findings_matched": sorted({o.key for o in known}),
            "exhaustive": True,
        },
        "assumptions": ctx.assumptions,
        "wall_s": round(time.time() - t0, 2),
        "violations": len({o.key for o in new}),
    }
    with open(os.path.join(EVID, "%s.json" % ctx.prop), "w") as fh:
        json.dump(ev, fh, indent=1, ensure_ascii=False)
    print("%s: %d obligations, %d discharged, %d new violation(s), %d known finding(s) [%s, %.1fs]"
          % (ctx.prop, len(ctx.obs), len(ctx.obs) - len(viols), len({o.key for o in new}),
             len({o.key for o in known}), ctx.tier, time.time() - t0))
    return rc

"""Path predicates over a function's CFG: Ok/Err exits, must-pass-through, guards."""
from mir import callee_paths, callee_of, op_place, op_const, strip_generics


def result_exits(fa):
    """Classify the blocks that define the return place _0 of a Result-returning function.
    Returns (ok_blocks, err_blocks, other_blocks)."""
    ok, err, other = set(), set(), set()
    live = fa.live_blocks()
    for b in live:
        bb = fa.blocks[b]
        for s in bb["stmts"]:
            if "lhs" in s and s["lhs"]["l"] == 0 and not s["lhs"]["p"]:
                rv = s["rv"]
                if rv["k"] == "agg" and rv.get("agg") == "adt" and \
                        rv["adt"] in ("core::result::Result", "std::result::Result"):
                    (ok if rv["variant"] == "Ok" else err).add(b)
                else:
                    other.add(b)
        t = bb["term"]
        if t["k"] == "call" and t["dest"]["l"] == 0 and not t["dest"]["p"]:
            ps = callee_paths(t)
            if any("from_residual" in p for p in ps):
                err.add(b)
            else:
                other.add(b)
    return ok, err, other


def must_pass(fa, target, through):
    """True iff every path from entry to `target` visits a block of `through`."""
    through = set(through)
    if target in through:
        return True
    return target not in fa.reachable(0, avoid=through)


def can_reach(fa, start, targets, avoid=()):
    r = fa.reachable(start, avoid=avoid)
    return bool(r & set(targets))


def calls_named(fa, name):
    """[(block, term)] of calls whose callee item name is `name`."""
    out = []
    for b, t in fa.calls():
        c = callee_of(t)
        if c is None:
            continue
        n = c.get("name")
        if n is None:
            n = c["path"].rsplit("::", 1)[-1]
        if n == name:
            out.append((b, t))
    return out


def switch_on_discriminant_of(E, fa, ap):
    """Blocks ending in a switch on discriminant(X) where X aliases access path `ap`.
    Returns [(block, some_target, none_targets)]."""
    out = []
    for b in sorted(fa.live_blocks()):
        t = fa.term(b)
        if t["k"] != "switch":
            continue
        o = fa.origin(t["op"])
        if o[0] != "rv" or o[1]["k"] != "discr":
            continue
        x = E.ap_place(fa, o[1]["place"])
        if x != ap:
            continue
        some_t = None
        none_ts = []
        for v, tg in zip(t["vals"], t["targets"]):
            if v == 1:
                some_t = tg
            else:
                none_ts.append(tg)
        # `otherwise` is None when Some is listed explicitly, and vice versa
        if some_t is None:
            some_t = t["otherwise"]
        else:
            none_ts.append(t["otherwise"])
        # drop unreachable blocks
        none_ts = [x for x in none_ts if fa.term(x)["k"] != "unreachable"]
        out.append((b, some_t, none_ts))
    return out


def bool_switch_targets(t):
    """(false_target, true_target) of a switch on a bool."""
    f = None
    for v, tg in zip(t["vals"], t["targets"]):
        if v == 0:
            f = tg
    return f, t["otherwise"]


def stores_to(E, fa, pred):
    """[(block, idx, stmt)] assignments whose lhs access path satisfies pred(ap)."""
    out = []
    for b, i, s in fa.stmts():
        if "lhs" not in s or not s["lhs"]["p"]:
            continue
        ap = E.ap_place(fa, s["lhs"])
        if pred(ap):
            out.append((b, i, s))
    return out


def control_conditions(fa, def_blocks):
    """Operands of the switches that decide which of several defining blocks of one value runs
    (the value is then control-dependent on them: `match col { "1" => true, "0" => false }`)."""
    def_blocks = set(def_blocks)
    if len(def_blocks) < 2:
        return []
    out = []
    for b in sorted(fa.live_blocks()):
        t = fa.term(b)
        if t["k"] != "switch":
            continue
        succ = list(t["targets"]) + [t["otherwise"]]
        sets = [frozenset(fa.reachable(x, avoid={b}) & def_blocks) for x in succ if x is not None]
        # the switch chooses *between* definitions (an edge that reaches none of them - an early
        # error return - decides whether the value exists, not which one it is)
        if len({x for x in sets if x}) > 1:
            out.append(t["op"])
    return out


def bool_table(fa, atom_of, natoms):
    """Truth table of a bool-returning function over `natoms` named conditions. `atom_of(stmt)`
    names the condition a statement computes: (index, negated) or None. The body is run once per
    assignment of the conditions: constants, copies, `!`, `&`, `|`, `==`/`!=` on known bools
    and switches on known locals are evaluated; anything else is unknown, and a switch on an
    unknown forks. Returns {assignment tuple: set of returned values (0, 1, None = unknown)}."""
    import itertools
    table = {}
    for asg in itertools.product((0, 1), repeat=natoms):
        results = set()
        seen = set()
        work = [(0, ())]
        while work and len(seen) < 4000:
            b, env = work.pop()
            if (b, env) in seen:
                continue
            seen.add((b, env))
            envd = dict(env)

            def val(op):
                k = op_const(op)
                if k is not None:
                    return k.get("int") if k.get("ty") == "bool" else None
                pl = op_place(op)
                return envd.get(pl["l"]) if pl is not None and not pl["p"] else None
            for s in fa.blocks[b]["stmts"]:
                if "lhs" not in s or s["lhs"]["p"]:
                    continue
                rv = s["rv"]
                v = None
                a = atom_of(s)
                if a is not None:
                    v = asg[a[0]] ^ (1 if a[1] else 0)
                elif rv["k"] == "use":
                    v = val(rv["op"])
                elif rv["k"] == "unop" and rv.get("op") == "Not":
                    x = val(rv["a"])
                    v = None if x is None else 1 - x
                elif rv["k"] == "binop" and rv.get("op") in ("BitAnd", "BitOr", "Eq", "Ne", "BitXor"):
                    x, y = val(rv["a"]), val(rv["b"])
                    if x is not None and y is not None:
                        v = {"BitAnd": x & y, "BitOr": x | y, "Eq": int(x == y), "Ne": int(x != y),
                             "BitXor": x ^ y}[rv["op"]]
                if v is None:
                    envd.pop(s["lhs"]["l"], None)
                else:
                    envd[s["lhs"]["l"]] = v
            t = fa.blocks[b]["term"]
            nenv = tuple(sorted(envd.items()))
            if t["k"] == "return":
                results.add(envd.get(0))
                continue
            if t["k"] == "switch":
                pl = op_place(t["op"])
                if pl is not None and not pl["p"] and pl["l"] in envd:
                    tg = t["otherwise"]
                    for vv, x in zip(t["vals"], t["targets"]):
                        if vv == envd[pl["l"]]:
                            tg = x
                    work.append((tg, nenv))
                    continue
            if t["k"] == "call" and isinstance(t.get("dest"), dict) and not t["dest"]["p"]:
                envd.pop(t["dest"]["l"], None)
                nenv = tuple(sorted(envd.items()))
            for x in fa.succs(b):
                if not fa.blocks[x].get("cleanup"):
                    work.append((x, nenv))
        table[asg] = results
    return table


def bool_states(fa, stops, marks=None, start=0, limit=30000, env0=None, atom=None):
    """Path-sensitive run over the bool locals of a function. Known values are propagated through
    constants, copies, `!`, `&`, `|` (one known operand suffices where it decides the result),
    `==`/`!=`; a switch on a known local follows its edge, any other branch forks. `marks` maps a
    block to a label that is remembered once the block was passed. Returns, for each stop block,
    the list of (env after the block's statements, labels) over all explored paths; the run
    does not continue past a stop block. `env0` gives initial values; `atom(stmt)` may supply the
    value of a statement the run cannot evaluate itself (a condition assumed true or false)."""
    marks = marks or {}
    out = {b: [] for b in stops}
    seen = set()
    work = [(start, tuple(sorted((env0 or {}).items())), frozenset())]
    while work and len(seen) < limit:
        b, env, ms = work.pop()
        if b in marks:
            ms = ms | {marks[b]}
        if (b, env, ms) in seen:
            continue
        seen.add((b, env, ms))
        envd = dict(env)

        def val(op):
            k = op_const(op)
            if k is not None:
                return k.get("int") if k.get("ty") == "bool" else None
            pl = op_place(op)
            return envd.get(pl["l"]) if pl is not None and not pl["p"] else None
        for s in fa.blocks[b]["stmts"]:
            if "lhs" not in s:
                continue
            if s["lhs"]["p"]:
                continue
            rv = s["rv"]
            v = atom(s) if atom is not None else None
            if v is not None:
                pass
            elif rv["k"] == "use":
                v = val(rv["op"])
            elif rv["k"] == "unop" and rv.get("op") == "Not":
                x = val(rv["a"])
                v = None if x is None else 1 - x
            elif rv["k"] == "binop" and rv.get("op") in ("BitAnd", "BitOr", "Eq", "Ne", "BitXor") and \
                    rv.get("ty") == "bool":
                x, y = val(rv["a"]), val(rv["b"])
                if rv["op"] == "BitOr" and 1 in (x, y):
                    v = 1
                elif rv["op"] == "BitAnd" and 0 in (x, y):
                    v = 0
                elif x is not None and y is not None:
                    v = {"BitAnd": x & y, "BitOr": x | y, "Eq": int(x == y), "Ne": int(x != y),
                         "BitXor": x ^ y}[rv["op"]]
            if v is None:
                envd.pop(s["lhs"]["l"], None)
            else:
                envd[s["lhs"]["l"]] = v
        if b in out:
            out[b].append((dict(envd), ms))
            continue
        t = fa.blocks[b]["term"]
        nenv = tuple(sorted(envd.items()))
        if t["k"] == "switch":
            pl = op_place(t["op"])
            if pl is not None and not pl["p"] and pl["l"] in envd:
                tg = t["otherwise"]
                for vv, x in zip(t["vals"], t["targets"]):
                    if vv == envd[pl["l"]]:
                        tg = x
                work.append((tg, nenv, ms))
                continue
        if t["k"] == "call" and isinstance(t.get("dest"), dict) and not t["dest"]["p"]:
            envd.pop(t["dest"]["l"], None)
            nenv = tuple(sorted(envd.items()))
        for x in fa.succs(b):
            if not fa.blocks[x].get("cleanup"):
                work.append((x, nenv, ms))
    if len(seen) >= limit:
        return None
    return out


def back_slice(fa, op, terminal, seen_out=None):
    """Backward data slice of an operand over every definition (moves, casts, references,
    aggregates, binary operations, call arguments). `terminal(block, call_term)` may return a
    hashable value for a call: that value is collected and the slice does not continue into the
    call's arguments. Parameters end the slice as ('arg', n); constants as nothing."""
    out, seen, work = set(), set(), [op]
    while work:
        o = work.pop()
        pl = op_place(o)
        if pl is None:
            continue
        for e in pl["p"]:
            if isinstance(e, dict) and isinstance(e.get("i"), int):
                work.append({"c": {"l": e["i"], "p": []}})
        l = pl["l"]
        if l in seen:
            continue
        seen.add(l)
        ds = [d for d in fa.defs().get(l, []) if d[2] != "partial"]
        if 1 <= l <= fa.arg_count and not ds:
            out.add(("arg", l))
            continue
        for (b, i, kind, payload) in ds:
            if kind == "call":
                v = terminal(b, payload)
                if v is not None:
                    out.add(v)
                else:
                    work.extend(payload["args"])
            else:
                rv = payload
                for key in ("op", "a", "b"):
                    if key in rv and isinstance(rv[key], dict):
                        work.append(rv[key])
                if rv["k"] in ("ref", "rawptr", "discr", "len"):
                    work.append({"c": rv["place"]})
                if rv["k"] == "agg":
                    work.extend(rv["ops"])
    if seen_out is not None:
        seen_out.update(seen)
    return out


def ctor_fields(fa, adt):
    """For a constructor-like function (`fn new(a, b) -> T { T { x: f(a), y: g(b) } }`): the
    parameter each field of the returned `adt` value is computed from, {field: parameter number},
    or None when the function is not of that shape (a field fed by no or several parameters)."""
    aggs = [s for b, i, s in fa.stmts() if "rv" in s and s["rv"]["k"] == "agg" and s["rv"].get("adt") == adt]
    if len(aggs) != 1:
        return None
    out = {}
    for fld, op in zip(aggs[0]["rv"]["fields"], aggs[0]["rv"]["ops"]):
        src = {x[1] for x in back_slice(fa, op, lambda b, t: None) if x[0] == "arg"}
        if len(src) != 1:
            return None
        out[fld] = src.pop()
    return out


def value_defs(fa, local, depth=0, seen=None):
    """All defining rvalues/calls of a (possibly multiply-defined) local, following plain moves.
    Returns list of (bb, kind, payload)."""
    if seen is None:
        seen = set()
    if local in seen or depth > 20:
        return []
    seen.add(local)
    out = []
    for (b, i, kind, payload) in fa.defs().get(local, []):
        if kind == "partial":
            continue
        if kind == "assign" and payload["k"] == "use":
            pl = op_place(payload["op"])
            if pl is not None and not pl["p"] and pl["l"] > fa.arg_count:
                out.extend(value_defs(fa, pl["l"], depth + 1, seen))
                continue
            # the value that `?` lets through: `(branch(r) as Continue).0` is the payload of the
            # Ok(..) / Some(..) values `r` is built from (an Err / None does not get here)
            if pl is not None and len(pl["p"]) == 2 and isinstance(pl["p"][1], dict) and pl["p"][1].get("v") == "Continue":
                d0 = fa.single_def(pl["l"])
                if d0 is not None and d0[2] == "call" and d0[3]["args"] and \
                        any("Try>::branch" in x or x.endswith("Try::branch") for x in callee_paths(d0[3])):
                    rp = op_place(d0[3]["args"][0])
                    if rp is not None and not rp["p"]:
                        inner = value_defs(fa, rp["l"], depth + 1, seen)
                        if inner and all(k2 == "assign" and p2["k"] == "agg" and p2.get("variant") in ("Ok", "Some", "Err", "None")
                                         for (b2, k2, p2) in inner):
                            for (b2, k2, p2) in inner:
                                if p2.get("variant") in ("Ok", "Some") and len(p2["ops"]) == 1:
                                    ip = op_place(p2["ops"][0])
                                    if ip is not None and not ip["p"]:
                                        out.extend(value_defs(fa, ip["l"], depth + 1, seen))
                                    else:
                                        out.append((b2, "assign", {"k": "use", "op": p2["ops"][0]}))
                            continue
        out.append((b, kind, payload))
    return out


def reach_const(fa, start, limit=6000, env0=None, after_stmt=None, avoid=()):
    """Blocks reachable from `start` when the values of bool locals that were assigned constants
    on the way (`ok = false`, `x = !ok`, copies) are taken into account at later switches on
    those locals (path-sensitive for flags such as `let fits = a == b && c == d; if !fits {..}`)."""
    seen = set()
    out = set()
    work = [(start, tuple(sorted((env0 or {}).items(), key=repr)))]
    first = True
    while work:
        b, env = work.pop()
        key = (b, env)
        if key in seen or len(seen) > limit or b in avoid:
            continue
        seen.add(key)
        out.add(b)
        envd = dict(env)
        stmts = fa.blocks[b]["stmts"]
        if first and after_stmt is not None:
            stmts = stmts[after_stmt + 1:]     # start in the middle of the first block
        first = False
        for s in stmts:
            if "lhs" not in s or s["lhs"]["p"]:
                continue
            l = s["lhs"]["l"]
            rv = s["rv"]
            v = None
            if rv["k"] == "use":
                k = op_const(rv["op"])
                if k is not None and k.get("ty") == "bool" and "int" in k:
                    v = k["int"]
                else:
                    pl = op_place(rv["op"])
                    if pl is not None and not pl["p"] and pl["l"] in envd:
                        v = envd[pl["l"]]
            elif rv["k"] == "agg" and rv.get("agg") == "adt" and "vi" in rv and \
                    strip_generics(str(rv.get("adt"))) in ("std::result::Result", "std::option::Option",
                                                           "core::result::Result", "core::option::Option"):
                # which variant a Result / Option value is (`Err(..)` built on this path), and - one
                # level deep - which variant the value it wraps is (`Some(Err(..))`)
                inner = None
                if len(rv.get("ops") or []) == 1:
                    ipl = op_place(rv["ops"][0])
                    if ipl is not None and not ipl["p"] and isinstance(envd.get(ipl["l"]), tuple):
                        inner = envd[ipl["l"]][:3]
                v = ("variant", strip_generics(str(rv["adt"])).rsplit("::", 1)[-1], rv["vi"], inner)
            elif rv["k"] == "discr":
                pl = rv["place"]
                x = envd.get(pl["l"]) if not pl["p"] else None
                if isinstance(x, tuple) and x[0] == "variant":
                    v = x[2]
                elif len(pl["p"]) == 2 and isinstance(pl["p"][0], dict) and "dc" in pl["p"][0]:
                    # the discriminant of the payload: `match opt { Some(Ok(..)) => .. }`
                    x = envd.get(pl["l"])
                    if isinstance(x, tuple) and x[0] == "variant" and len(x) > 3 and x[3] is not None and \
                            x[2] == pl["p"][0]["dc"]:
                        v = x[3][2]
            elif rv["k"] == "unop" and rv.get("op") == "Not":
                k = op_const(rv["a"])
                if k is not None and "int" in k:
                    v = 1 - k["int"]
                else:
                    pl = op_place(rv["a"])
                    if pl is not None and not pl["p"] and isinstance(envd.get(pl["l"]), int):
                        v = 1 - envd[pl["l"]]
            if v is None:
                envd.pop(l, None)
            else:
                envd[l] = v
        t = fa.blocks[b]["term"]
        nenv = tuple(sorted(envd.items(), key=repr))
        if t["k"] == "switch":
            pl = op_place(t["op"])
            if pl is not None and not pl["p"] and isinstance(envd.get(pl["l"]), int):
                val = envd[pl["l"]]
                tg = t["otherwise"]
                for vv, x in zip(t["vals"], t["targets"]):
                    if vv == val:
                        tg = x
                work.append((tg, nenv))
                continue
        if t["k"] == "call" and not t["dest"]["p"]:
            envd.pop(t["dest"]["l"], None)
            # `?` on a value whose variant is known: Ok/Some continue (0), Err/None break (1)
            if any("Try>::branch" in x or x.endswith("Try::branch") for x in callee_paths(t)) and t["args"]:
                pl = op_place(t["args"][0])
                x = envd.get(pl["l"]) if pl is not None and not pl["p"] else None
                if isinstance(x, tuple) and x[0] == "variant":
                    cont = (x[1] == "Result" and x[2] == 0) or (x[1] == "Option" and x[2] == 1)
                    envd[t["dest"]["l"]] = ("variant", "ControlFlow", 0 if cont else 1)
            # `cond.then_some(v)` / `cond.then(f)` with a known condition; `opt.ok_or(..)` / `ok_or_else`
            # with a known variant
            cn = {strip_generics(x).rsplit("::", 1)[-1] for x in callee_paths(t)}
            if cn & {"then_some", "then"} and t["args"] and any("bool" in x for x in callee_paths(t)):
                k = op_const(t["args"][0])
                pl = op_place(t["args"][0])
                c = k["int"] if k is not None and "int" in k else \
                    envd.get(pl["l"]) if pl is not None and not pl["p"] else None
                if isinstance(c, int):
                    envd[t["dest"]["l"]] = ("variant", "Option", 1 if c else 0)
            if cn & {"ok_or", "ok_or_else"} and t["args"]:
                pl = op_place(t["args"][0])
                x = envd.get(pl["l"]) if pl is not None and not pl["p"] else None
                if isinstance(x, tuple) and x[0] == "variant" and x[1] == "Option":
                    envd[t["dest"]["l"]] = ("variant", "Result", 0 if x[2] == 1 else 1)
            # the error value `?` returns: from_residual always yields Err / None
            if any("from_residual" in x for x in callee_paths(t)):
                dty = t.get("dest_ty") or ""
                if dty.startswith(("std::result::Result<", "core::result::Result<")):
                    envd[t["dest"]["l"]] = ("variant", "Result", 1)
                elif dty.startswith(("std::option::Option<", "core::option::Option<")):
                    envd[t["dest"]["l"]] = ("variant", "Option", 0)
            nenv = tuple(sorted(envd.items(), key=repr))
        for x in fa.succs(b):
            work.append((x, nenv))
    return out

"""Property -> rules table."""
import r_reset

PROPS = {
    "C04": {
        "rules": [r_reset.run],
        "explanation": "RESET typestate dataflow over the MIR of every Worker entry point and "
                       "observer (persistent buffers killed before use on every path; no stale "
                       "state observable) and SHARE (deep immutability / Send+Sync of Tokenizer).",
    },
}

"""Property -> rules table (single source of truth for vcheck and MANIFEST.json)."""
import r_reset
import r_share
import r_map
import r_codec
import r_kind
import r_viterbi
import r_cand
import r_token
import r_scorer
import r_misc
import r_fmt
import r_cost
import r_panic
import r_feat
import r_rewrite
import r_writedict
import r_char

NA = {}

def kind_scope(*mods):
    """KIND restricted to functions whose path contains one of the given fragments."""
    def run(ctx):
        r_kind.run(ctx, lambda f: any(m in f.path for m in mods))
    return run


PROPS = {
    "C10": {
        "rules": [r_panic.run, r_panic.run_errprop, r_panic.run_narrow_arith,
                  kind_scope("dictionary::connector", "dictionary::mapper", "dictionary::unknown", "dictionary::lexicon"), r_cand.unkcover,
                  r_panic.run_tok, r_map.verifystrict, r_scorer.rawbuild, r_char.packguard, r_panic.fieldwidth, r_map.run_compose],
        "explanation": "PANIC: every potential panic or silent-wrap site (assert terminators for "
                       "bounds/overflow/division/shift, calls to unwrap/expect/panic!/assert!/"
                       "indexing/copy_from_slice/chunks/..., narrowing `as` casts) in the "
                       "workspace call graph below from_readers, from_readers_with_bigram_info, "
                       "reset_user_lexicon_from_reader, map_connection_ids_from_iter, "
                       "Dictionary::read and every workspace decoder is enumerated and must be "
                       "discharged structurally (constant operands, dominating length guard, "
                       "guarded subtraction, memory-bounded arithmetic, clamp before cast) or by "
                       "an audited table entry whose guard requirement is re-verified (MAPLEN "
                       "holds, category id bounded before CharInfo::new, empty model rejected, "
                       "feature-span reset present). "
                       "ERRPROP: every fallible call on the builder paths is consumed by `?`, "
                       "returned, converted or unwrapped (then audited) - never dropped or "
                       "defaulted.",
        "level_text": "Static enumeration and discharge of panic sites: totality of the parsers "
                      "for every input, up to the audited table and opaque dependencies. The "
                      "clause `accepted => tokenizes safely` rests on value invariants of the "
                      "lattice: its sites are enumerated too (TOKPANIC) and each is tied to the "
                      "structural rule that establishes the invariant, but the invariants "
                      "themselves are argued in the table, not proved.",
        "level_note": "Trusted: csv-core/crawdad/regex/bincode/std contracts; the reasons in "
                      "spec/panic_table.json (each names the invariant relied on).",
        "technique": "MIR panic-site enumeration over the call graph with guard-dominance "
                     "dischargers and a guard-checked justification table",
    },
    "C11": {
        "rules": [r_fmt.lexicon_rows_reader, r_feat.run, r_feat.rawinput, r_feat.csvdefault, r_misc.lexmap_shape, r_misc.homograph_accumulate, r_token.dispatch,
                  r_misc.parallel, r_char.packguard,
                  kind_scope("dictionary::lexicon", "dictionary::unknown", "dictionary::builder"), r_map.run_user, r_misc.optkeep_dictionary, r_map.run],
        "explanation": "FMT(reader side): parse_csv stores CSV column 1, 2, 3 into left_id, "
                       "right_id, word_cost (column -> WordParam::new parameter -> field, KIND "
                       "checked); PARALLEL: Lexicon::from_entries builds map, params and features "
                       "from the same slice with order-preserving adaptors, word id = row index, "
                       "homographs are appended to the surface's id list.",
        "level_text": "Static structural rules: column k lands in the right WordParam field, "
                      "rows stay aligned across map/params/features, homographs are kept; the "
                      "feature span starts and is measured at the reader's own positions and the "
                      "end of the input at a row start is not taken for a row (FEATSPAN). Quoting "
                      "and the terminator arithmetic (len - 1, CRLF) are value-level behaviour of "
                      "the csv-core state machine and are NOT decided.",
        "level_note": "Trusted: rustc MIR; csv-core; spec/kinds.json.",
        "technique": "column-to-field dataflow rule, iterator-chain shape rules, kind propagation",
    },
    "C14": {
        "rules": [r_fmt.run_c14, r_cost.run_c14, kind_scope("trainer::model", "::verify", "dictionary::connector::ConnectorWrapper"), r_kind.bins("dictgen-bin"), r_misc.cache, r_misc.idxbase,
                  r_codec.run_c18, r_feat.csvdefault, r_writedict.run, r_writedict.chartype, r_writedict.userrows],
        "explanation": "FMT: each generated file's row template (delimiters, column count and "
                       "order, quoted surface first, feature last) matches what the compiler's "
                       "reader does with each column (parse_csv column->field mapping, "
                       "parse_header/parse_body split char, column count and tuple order); SIGN: "
                       "every cost is -(weight x factor); SCALE: one factor = 32767/max|w| with "
                       "abs() over feature-set weights and matrix values; COSTTYPE: the cast "
                       "width equals the reader's parsed type; KIND: left/right ids not crossed; "
                       "user rows copied from `param` in the else-branch.",
        "level_text": "Static writer/reader agreement and sign/scale shape rules. The truncation "
                      "value, the 16-bit fit as numbers and 'always compiles' are not decided.",
        "level_note": "Trusted: rustc MIR incl. the format_args! template encoding documented in "
                      "core::fmt (decoder fails closed); csv-core defaults (comma).",
        "technique": "format-template decoding from MIR + reader dataflow (sibling cross-check), "
                     "sign-parity and scale-source rules",
    },
    "C16": {
        "rules": [r_fmt.run_c16, r_cost.run_c16, kind_scope("trainer::model", "raw_connector", "dual_connector", "dictionary::connector::ConnectorWrapper", "::verify"), r_scorer.scorer_build, r_kind.bins("dictgen-bin", "compile-bin"), r_fmt.csvrow,
                  r_scorer.reserved0, r_scorer.padval, r_scorer.rowrange, r_scorer.pruneset,
                  r_misc.bigram_details_shape, r_scorer.rawbuild, r_scorer.templatesize, r_misc.rawcost, r_misc.cache],
        "explanation": "FMT: bigram.left/right lines are `id TAB csv` with 1-based ids (what "
                       "parse_features and the id == line+1 check require); bigram.cost lines are "
                       "`left-word feature / right-word feature TAB cost`, matching the order in "
                       "which parse_cost interns them; SCALE: write_bigram_details derives its "
                       "factor from the same sources as write_dictionary; SIGN; COSTTYPE: "
                       "bigram.cost is written as i32, the type parse_cost reads.",
        "level_text": "Static writer/reader agreement, same-scale and sign rules. The K+1 rounding "
                      "bound itself is not decided.",
        "level_note": "Trusted: as for C14.",
        "technique": "format-template decoding + reader dataflow, scale-source comparison",
    },
    "C18": {
        "rules": [kind_scope("trainer", "mecab"), r_fmt.bigram_files, r_codec.run_c18,
                  r_misc.template_cover, r_misc.regex_trainer, r_misc.csvsplit, r_fmt.csvrow, r_misc.bigram_details_shape,
                  r_writedict.chartype, r_rewrite.run, r_writedict.run, r_writedict.userrows, r_misc.trimconfig, r_char.run_key, r_misc.next_id_rule],
        "explanation": "KIND over the trainer: unigram/left/right templates, id tables and "
                       "next-id counters are never mixed (same-family rule on "
                       "extract_feature_ids), extract_left/right results reach the matching "
                       "FeatureSet::new parameter of rucrf, left/right rewriters are applied to "
                       "their own side, and per-id feature lists reach the file of their side "
                       "(KIND-WRITE); FMT(bigram lists).",
        "level_text": "Static role-kind propagation: left/right/unigram template, table and "
                      "counter are never mixed and feature lists reach the right file. `%F?` "
                      "semantics and interning arithmetic are not decided.",
        "level_note": "Trusted: spec/kinds.json incl. the declared roles of rucrf::FeatureSet::new "
                      "and MergedModel fields.",
        "technique": "kind propagation with family-polymorphic helper rule",
    },
    "C19": {
        "rules": [r_fmt.run_c19, r_feat.csvdefault, r_fmt.split_all],
        "explanation": "FMT: Example::write emits `surface TAB feature` lines and an `EOS` line on "
                       "every path using complete writes; the tokenizer CLI's MeCab mode emits "
                       "the same shape; Corpus::from_reader splits at the same TAB into exactly "
                       "(surface, feature), takes surface from the first part, and recognises the "
                       "same terminator literal.",
        "level_text": "Static agreement of delimiter, terminator and column order between the two "
                      "writers and the reader. Round-trip equality of contents is not decided.",
        "level_note": "Trusted: rustc MIR; format template decoding.",
        "technique": "format-template decoding + reader dataflow (sibling cross-check)",
    },
    "C20": {
        "rules": [kind_scope("mecab", "dictionary::connector"), r_fmt.csvrow, r_cost.run_c20, r_fmt.bigram_files, r_misc.template_cover,
                  r_scorer.scorer_build, r_misc.regex_mecab, r_scorer.padval, r_scorer.reserved0, r_misc.mecab_ids,
                  r_misc.trimconfig, r_misc.rawcost],
        "explanation": "KIND: the documented left/right inversion of right-id.def/left-id.def is "
                       "applied consistently (readers, extractors, maps, writers, loop bounds vs "
                       "looked-up map); SIGN: cost = -(weight x factor); COSTTYPE: i32 as the "
                       "connector reads; FMT: output shape (1-based dense ids, `a/b TAB cost`) "
                       "matches the connector's readers.",
        "level_text": "Static role and format rules. The sum over templates, cost-factor "
                      "truncation and id-density error cases are not decided.",
        "level_note": "Trusted: spec/kinds.json.",
        "technique": "kind propagation, format-template decoding, sign-parity rule",
    },
    "C07": {
        "rules": [r_scorer.run, kind_scope("connector", "scorer", "builder"), r_kind.bins("compile-bin"), r_fmt.csvrow, r_panic.run_narrow_connector,
                  r_codec.derived_caches, r_codec.lanes_rule, r_codec.simd_build_rule, r_misc.rawcost],
        "explanation": "SCORERCHK: in the portable build costs[pos] is read only on the true edge "
                       "of checks[pos] == key1 at pos = bases[key1] ^ key2; in the AVX2 build the "
                       "cost gather is masked by cmpeq(check, key1) AND the position-validity "
                       "mask, at the same pos as the check gather. PADVAL: every padding or missing "
                       "template position carries the invalid feature id, never id 0. RESERVED0: "
                       "the empty feature is id 0 in both maps before parsing and fills row 0. "
                       "KIND: right/left feature tables, key1/key2 and readers are never crossed.",
        "level_text": "Static structural rules in both build configurations: the collision check "
                      "cannot be bypassed, padding cannot contribute costs, key roles are "
                      "consistent. The equality of the sums, portable/AVX2 numeric agreement and "
                      "the 16-bit split are not decided.",
        "level_note": "Trusted: rustc MIR for both cfgs; semantics of the AVX2 intrinsics named in "
                      "rules/r_scorer.py (mask gather, cmpeq, and).",
        "technique": "guard-dominance and symbolic-expression rules over MIR (cfg twins), kind "
                     "propagation, constant checks",
    },
    "C12": {
        "rules": [r_misc.lattice_shape, r_misc.spaceopt, r_viterbi.traceback,
                  kind_scope("tokenizer", "unknown"), r_cand.cand, r_cand.charrange,
                  r_misc.optkeep_tokenizer, r_reset.run_tokens, r_char.run, r_cand.unkspans, r_cand.grouprun, r_panic.fieldwidth],
        "explanation": "LATTICE: build_lattice_inner resets first, tests reachability, SPACE "
                       "membership and the skipped run at start_node, adds candidates with "
                       "(start_node, start_word), connects EOS from start_node on every path; "
                       "KIND: words are inserted at start_word but linked at start_node "
                       "everywhere; TRACEBACK: an EOS hanging directly off BOS yields no token; "
                       "SPACEOPT: an undefined SPACE category is an error.",
        "level_text": "Static shape rules for the start_node/start_word split. The invariance "
                      "relation over re-spaced inputs itself is not decided.",
        "level_note": "Trusted: rustc MIR; spec/kinds.json.",
        "technique": "kind propagation (NODE/WORD/END), must-pass-through and loop-guard rules",
    },
    "C13": {
        "rules": [r_reset.run_counts, r_viterbi.pred, r_misc.enumall, r_misc.sortcmp, r_fmt.mapping_files,
                  kind_scope("mapper", "worker", "lattice", "dictionary::connector", "dictionary::Dictionary"), r_kind.bins("map-bin"),
                  r_map.run, r_scorer.rowrange, r_misc.counter_init],
        "explanation": "RESET(W2, counts scope): update_connid_counts reads only a lattice that "
                       "the current reset_sentence/tokenize refreshed (or returns for an empty "
                       "sentence); PRED: each counted (right word, left word) pair takes the left "
                       "nodes from ends[r.start_node], the list its connections were evaluated "
                       "on, EOS included; KIND: left/right counters and sizes are not crossed; "
                       "ENUMALL: each result list enumerates the whole counter, removes exactly "
                       "id 0 and is only sorted afterwards; FMT: reorder writes "
                       "`id TAB prob` lines, lmap from the left list and rmap from the right "
                       "list, and map parses column 0 of a TAB separated line.",
        "level_text": "Static dataflow/shape rules: counts come from the current sentence only, "
                      "counted pairs are the evaluated pairs, the output is a complete "
                      "enumeration minus id 0. The comparator shape (frequency descending, id ascending) is decided by SORTCMP; the frequencies themselves are not.",
        "level_note": "Trusted: rustc MIR; spec/api_model.json; spec/kinds.json.",
        "technique": "typestate dataflow, access-path pairing rule, iterator-chain shape rule, "
                     "kind propagation",
    },
    "C01": {
        "rules": [r_token.access, r_token.tokiter, r_token.dispatch, r_cand.cand, r_cand.unkfall, r_viterbi.traceback,
                  r_reset.run_tokens, r_panic.run_narrow_dict, r_cand.unkcover, r_panic.run_tok,
                  r_misc.spaceopt, r_char.run_key, r_cand.unkscan, r_panic.fieldwidth, kind_scope("dictionary::unknown", "token::", "dictionary::lexicon", "dictionary::builder"),
                  r_map.verifystrict, r_map.run_user, r_misc.optkeep_dictionary],
        "explanation": "ACCESS: every Token accessor is a projection of the one stored (end, node) "
                       "pair and the sentence's offset table (ranges, surface, ids, costs, "
                       "feature); DISPATCH: each lexicon type is looked up in its own component "
                       "and components are tagged with their type; PAIR: word index and "
                       "parameters of an inserted node come from one match; UNKFALL: "
                       "path-sensitive pass showing the single-character fallback cannot be "
                       "skipped when nothing matched; TRACEBACK: the back-walk follows "
                       "start_node, never reports BOS; RESET(W0): empty input leaves an empty "
                       "result.",
        "level_text": "Static structural rules over MIR expressions and paths: decide that a "
                      "token's fields are mutually consistent projections and that the lattice "
                      "always receives a candidate. Termination and panic-freedom for every "
                      "dictionary/string and the exact coverage clause are value invariants "
                      "that are NOT decided (DESIGN.md section 3).",
        "level_note": "Trusted: rustc MIR; spec/api_model.json; decides necessary structural "
                      "conditions of C01 only.",
        "technique": "symbolic-expression matching over MIR, path-sensitive flag analysis, "
                     "typestate dataflow",
    },
    "C02": {
        "rules": [r_viterbi.viterbi, r_viterbi.traceback, r_panic.run_narrow_lattice,
                  kind_scope("tokenizer", "connector", "lexicon::param", "unknown"),
                  r_reset.run_tokens, r_panic.run_costsum, r_map.run_compose, r_codec.derived_caches, r_panic.fieldwidth, r_scorer.pruneset, r_scorer.rowrange,
                  r_scorer.padval, r_scorer.reserved0],
        "explanation": "VITERBI: insert_node/insert_eos take (argmin, min) from one search over "
                       "the complete predecessor list of the very start_node they store, with "
                       "cost(pred.right_id, own left_id), min_cost = best + word_cost, EOS "
                       "connects with id 0, no predecessor is skipped, the minimum is replaced "
                       "exactly when the new cost is not larger; TRACEBACK follows the stored "
                       "back-pointers; KIND: left/right ids and NODE/WORD positions are never "
                       "crossed; total_cost exposes the stored prefix minimum (ACCESS in C01).",
        "level_text": "Static shape check of the recurrence: the code implements one shared "
                      "Viterbi recurrence over complete predecessor lists with correctly "
                      "oriented lookups. Optimality as a numeric fact and 32-bit range are not "
                      "decided.",
        "level_note": "Trusted: rustc MIR; spec/kinds.json declarations (re-verified anchors).",
        "technique": "symbolic-expression and loop-shape rules over MIR, kind propagation",
    },
    "C03": {
        "rules": [r_cand.cand, r_cand.unkfall, r_cand.unkgroup, r_cand.unkspans, r_cand.unkscan, r_cand.grouprun, r_cand.charrange,
                  r_reset.run_tokens, r_misc.optkeep_tokenizer, r_char.run, r_map.run_user, r_char.packguard, r_misc.homograph_accumulate,
                  kind_scope("dictionary::unknown", "tokenizer")],
        "explanation": "CAND: at every processed position both lexicons are searched over the "
                       "same remaining text, every match is inserted and sets has_matched, and "
                       "gen_unk_words is called exactly once with that flag, the word start and "
                       "the tokenizer's max_grouping_len; UNKFALL: the fallback candidate cannot "
                       "be skipped.",
        "level_text": "Static path rules (must-pass-through, loop shape, path-sensitive flag): "
                      "decide that all three candidate sources are consulted with a correctly "
                      "accumulated flag. The arithmetic of invoke/group/length/max-grouping and "
                      "char.def range semantics is not decided.",
        "level_note": "Trusted: rustc MIR; crawdad's common_prefix_search.",
        "technique": "MIR must-pass-through and loop-shape rules, path-sensitive boolean analysis",
    },
    "C08": {
        "rules": [r_map.run_user, r_map.run_compose, r_map.verifystrict, r_cand.cand, r_token.dispatch,
                  kind_scope("dictionary::lexicon", "dictionary::Dictionary", "dictionary::connector"),
                  r_misc.optkeep_dictionary, r_feat.rawinput, r_panic.run_errprop, r_feat.run],
        "explanation": "MAPKEEP: a user lexicon is translated by the stored mapper, then verified "
                       "against the dictionary's connector (failure returns Err), then installed; "
                       "None clears; replace not merge; only verified installation points write "
                       "the field. CAND: user words are offered at every position and set "
                       "has_matched. DISPATCH: user words are tagged and looked up as User. KIND: "
                       "verify compares each id with its own side's count.",
        "level_text": "Static path/dataflow rules for replace/clear semantics, verification "
                      "before use, and consultation of the user lexicon. Cost equivalence with an "
                      "extended system lexicon is not decided.",
        "level_note": "Trusted: rustc MIR; spec/kinds.json.",
        "technique": "MIR dominance / must-pass-through, who-may-write, kind propagation",
    },
    "XKIND": {"rules": [r_kind.run_all], "explanation": "debug: KIND only", "level_text": "", "level_note": "", "technique": ""},
    "C05": {
        "rules": [r_codec.run_c05, r_codec.derived_caches, r_codec.lanes_rule, r_codec.simd_build_rule],
        "explanation": "CODEC: for every hand-written bincode codec reachable from the dictionary "
                       "image the ordered (wire type, field) sequence of the encoder equals that "
                       "of the decoder, in the portable and the AVX2 build, and BorrowDecode "
                       "agrees with Decode; every type in the image has both impls; CONFIG: all "
                       "bincode entry calls take the one fixed-int little-endian configuration; "
                       "NOHASH: no hash container in the image (canonical bytes); MAGIC/WRITELEN: "
                       "the writer emits the constant the reader checks and returns "
                       "len(magic)+encoded bytes.",
        "level_text": "Static comparison of writer and reader code (MIR call sequences, wire "
                      "types, field provenance) in both build configurations. Round-trip "
                      "equality then follows from the symmetry plus bincode's own correctness, "
                      "which is trusted.",
        "level_note": "Trusted: bincode 2.0.1 / bincode_derive (derived impls are symmetric), "
                      "the wire-type normalisation table in rules/r_codec.py, crawdad's "
                      "serialize_to_vec/deserialize_from_slice being inverse.",
        "technique": "sibling cross-check of encoder/decoder MIR (ordered wire-type and field "
                     "sequences), cfg-twin comparison, type-closure walk",
    },
    "C09": {
        "rules": [r_codec.run_c09, r_codec.derived_caches],
        "explanation": "MAGIC: in Dictionary::read_common the decode call is dominated by the "
                       "equal-branch of a comparison between the read_exact buffer and the magic "
                       "constant the writer emits; mismatch reaches only Err. ERRPROP: every "
                       "fallible call on the read path and in every hand-written decoder is "
                       "consumed by `?` or returned (no swallowed decode/io error). CODEC: the "
                       "reader consumes exactly what the writer emits; Scorer::decode rejects "
                       "inconsistent parallel arrays.",
        "level_text": "Static dominance and error-propagation rules over the read path: a "
                      "necessary structural condition for rejecting truncated/foreign images, "
                      "for every stream at once. bincode's and read_exact's behaviour on a short "
                      "stream is the trusted base.",
        "level_note": "Trusted: bincode returns an error (never default data) when the input "
                      "ends early; std::io::Read::read_exact semantics.",
        "technique": "MIR dominance (guard-before-decode), error-discipline rule over all "
                     "fallible call sites, encoder/decoder sibling cross-check",
    },
    "C15": {
        "rules": [r_codec.run_c15, r_misc.cache, r_misc.orderdet, r_cost.run_c14],
        "explanation": "CACHE: every Model method that mutates the model data resets the cached merged model; "
                       "ORDERDET: no hash-iteration order leaks into the generated files; "
                       "CODEC over the model image (ModelData: TrainerConfig, FeatureExtractor, "
                       "FeatureRewriter, rucrf RawModel fetched from crate metadata): ordered wire "
                       "types and fields of each hand-written encoder equal those of its decoder; "
                       "CONFIG as for C05.",
        "level_text": "Static encoder/decoder symmetry for the model file.",
        "level_note": "Trusted: bincode/bincode_derive; rucrf's derived impls.",
        "technique": "sibling cross-check of encoder/decoder MIR",
    },    "C06": {
        "rules": [r_map.run, r_scorer.rowrange, kind_scope("dictionary::connector", "dictionary::mapper", "dictionary::unknown", "dictionary::lexicon", "dictionary::Dictionary"), r_kind.bins("map-bin"),
                  r_misc.optkeep_dictionary],
        "explanation": "MAP rules over the MIR of Dictionary::map_connection_ids_from_iter, "
                       "reset_user_lexicon_from_reader and every map_connection_ids method: the "
                       "one mapper reaches every id-carrying component on all successful paths "
                       "(components enumerated from the struct definition), the mapper is stored "
                       "and composed previous-then-new, wrong lengths take an error path before "
                       "any component is touched, later user lexicons are translated then "
                       "verified, and every id-indexed field of each connector is rebuilt.",
        "level_text": "Static path and dataflow rules (must-pass-through, dominance, access "
                      "paths) decide the structural clauses of C06 for every mapping and "
                      "dictionary; the numeric correctness of each permutation loop is not "
                      "decided (DESIGN.md section 3).",
        "level_note": "Trusted: rustc MIR; spec/mapfields.json classification of connector "
                      "fields (checked for completeness against the struct definitions); "
                      "spec/api_model.json.",
        "technique": "MIR must-pass-through / dominance rules over access paths, who-may-write",
    },
    "C17": {
        "rules": [r_rewrite.run, kind_scope("trainer::config", "trainer::Trainer::extract_feature_set"), kind_scope("trainer::model"),
                  r_codec.run_c18, r_misc.regex_trainer, r_misc.csvsplit, r_fmt.csvrow, r_misc.trimconfig],
        "explanation": "FIRSTMATCH-BUILD: FeatureRewriterBuilder::add_rule moves along an existing "
                       "trie edge only when that edge is the newest action of its node (or never), "
                       "and appends new actions: the rules below every edge are then a contiguous "
                       "run of rule numbers, so depth-first order is rewrite.def order. "
                       "FIRSTMATCH-SCAN: FeatureRewriter::rewrite walks a node's actions front to "
                       "back (iter/enumerate/skip only) and returns at the first Rewrite action. "
                       "REFSUBST: `$n` is stored as index n-1 and expanded to features.get(idx) or "
                       "\"*\". FALLBACK: extract_feature_set hands the rewritten list (Some) or the "
                       "original list (None) to the same extractor. SECTIONS: each `[... rewrite]` "
                       "header fills the builder returned in its own position of (unigram, left, "
                       "right); KIND ties those positions to the TrainerConfig fields.",
        "level_text": "Static shape rules. With a depth-first, first-match matcher, `the earliest "
                      "matching rule applies` is equivalent to `trie order = registration order`, "
                      "which is the structural invariant FIRSTMATCH-BUILD decides for every rule "
                      "list. The matcher's backtracking bookkeeping (depth from the stack length) "
                      "and the per-pattern tests are not decided.",
        "level_note": "Trusted: rustc MIR; the argument in rules/r_rewrite.py that contiguous rule "
                      "ranges per edge make depth-first order the registration order.",
        "technique": "MIR provenance rule (where a reused edge comes from), iterator-chain shape "
                     "rule, branch-correlation rules, kind propagation",
    },
    "C04": {
        "rules": [r_reset.run_tokens, r_share.run, r_misc.optkeep_tokenizer, r_panic.fieldwidth],
        "thorough": [r_share.run_thorough],
        "explanation": "RESET: typestate dataflow (Dirty/Clean per persistent Worker buffer) over "
                       "the MIR of every Worker entry point and token observer, for every "
                       "valuation of the emptiness predicate the entry points branch on: buffers "
                       "are killed before use on every path (history independence, idempotent "
                       "tokenize), observers read only refreshed state. SHARE: type closure of "
                       "Tokenizer free of interior mutability/raw pointers in both build "
                       "configurations, no mutable statics, no raw-pointer stores, and type-level "
                       "witnesses (Send/Sync; compile_fail + compiling twins) that nothing a "
                       "worker reads can change while it exists.",
        "level_text": "Static structural analysis over the compiler's MIR and type information: "
                      "every obligation holds for all sentences, histories and schedules at once. "
                      "C04 is a structural property; the argument is complete up to the API model "
                      "of std containers and rustc's own Send/Sync and borrow guarantees.",
        "level_note": "Trusted: rustc type/borrow checker and MIR construction; spec/api_model.json "
                      "(effects of std/hashbrown container methods); dependencies (crawdad, "
                      "bincode) contain no hidden shared state beyond what their field types show.",
        "technique": "MIR typestate dataflow (must-kill / exposed-use summaries over access paths) "
                     "+ type-closure walk + compile_fail witnesses",
    },
}


# Rules added after the first full pass: text appended to the entries above.
_ADDED = {
    "C03": ("CHARINFO: CharInfo::new and its accessors agree on the bit position of every field; "
            "INVOKE/GROUP/LENGTH come from columns 1/2/3 and reach CharInfo::new in their own "
            "positions; the primary category is the first listed and the id set ORs one bit per "
            "listed category. OPTKEEP: the Tokenizer option setters return their receiver with one field assigned "
            "(max_grouping_len survives ignore_space and vice versa). CHARRANGE: parse_char_range stores (lower, upper + 1) and from_reader overwrites "
            "exactly [start, end) per range line, in file order. RESET (token scope): the "
            "per-sentence category and run-length tables are rebuilt before candidates are "
            "generated. UNKSPAN: candidate spans as linear relations - the grouped candidate is start..start+run "
            "and is emitted iff run - limit <= 1 (limit unbounded without max_grouping_len), prefix "
            "lengths are 1..=min(length, run), the fallback is one character. UNKGROUP: path-sensitive pass over (outcome of CharInfo::group(), value of the flag "
            "the prefix loop tests): the prefix of run length is skipped on every path with "
            "group()=true - also when the over-long run was omitted - and on no path with "
            "group()=false.", "path-sensitive flag/branch correlation"),
    "C05": ("CODEC-DERIVED: a recomputed cache field (`bases_len`, `checks_len` of the AVX2 "
            "scorer) is derived from the length of its own table in the decoder, the builder and "
            "Default.", "cfg-twin provenance rule"),
    "C09": ("CODEC-DERIVED as for C05.", "cfg-twin provenance rule"),
    "C06": ("MAPPARSE: ConnIdMapper::parse sends id 0, an already assigned slot and an "
            "out-of-range id to Err. ROWRANGE: every slice a RawConnector method takes from a U31x8 feature table is "
            "aligned to rows of feat_template_size vectors ([k*w..(k+1)*w], k*w.., chunks of w).",
            "symbolic index-range shape rule"),
    "C07": ("RAWBUILD: the row width handed to RawConnector::new is the chunk width / 8 (vectors), "
            "each table is filled from the builder field of its own side, and the width is the "
            "maximum row length over both files. ROWRANGE as for C06 (the accessors used by cost()). NARROW over the connector "
            "functions: no narrowing cast and no 8/16-bit arithmetic on an id is left "
            "undischarged (id 65535 is a legal id).", "symbolic index-range shape rule"),
    "C02": ("COSTSUM: the i32 additions of path, connection and word costs on the tokenization "
            "path are enumerated; none can be bounded statically and each is a recorded finding "
            "(total_cost = accumulated cost holds only inside the 32-bit range). "
            "RESET (token scope): the lattice and result buffers are cleared over their whole "
            "used width before each tokenization, so the recurrence never sees a node of an "
            "earlier sentence (a partial clear such as iter_mut().take(n) counts only when n is "
            "the length the buffer is grown to).", "MIR typestate dataflow"),
    "C01": ("TOKPANIC: the panic-site audit applied to the functions below Worker/Token that the "
            "builders do not reach (about 100 sites: discharged structurally, or tabled with the "
            "invariant relied on and a re-verified guard: ids verified before use, lattice "
            "shape, unk.def size). UNKCOVER: the builder must reject a char.def category that has no unk.def entry "
            "(otherwise a character of that category that no lexicon entry covers cannot start "
            "any candidate and tokenization panics).", "absence-of-guard rule"),
    "C10": ("VERIFYSTRICT: verify() rejects exactly the ids with count - id <= 0. TOKPANIC as for C01 (second clause of C10: a returned dictionary tokenizes every "
            "string without panicking or reading out of range). UNKCOVER as for C01 (`every reachable character able to start some candidate`). "
            "KIND over the connectors and the mapper (loop bounds and tables of the two sides "
            "are not crossed in the remapping loops). NARROW-ARITH: no overflow-checked arithmetic in an 8/16-bit type below "
            "Worker::tokenize / Token (ids up to u16::MAX are accepted by the builder). "
            "VERIFYMAP: every Lexicon/UnkHandler::map_connection_ids call acts on a component of "
            "a constructed dictionary or on a new component that verify() has accepted on every "
            "path (the mapping table is indexed by these ids).", "dominance rule on verify()"),
    "C11": ("LEXMAP: surfaces are stored verbatim as trie keys, every homograph id of a matched "
            "posting list is yielded, and only an empty unquoted surface skips a row. FEATSPAN: abstract interpretation of the csv-core driving loop of "
            "Lexicon::parse_csv over (field counter 0..4+, length variable {zero, only feature "
            "bytes of this row, other}, base {rebased at the end of this row's cost field, "
            "stale}, constant boolean flags): at the statement that cuts the feature string "
            "every reachable state has a clean length and a fresh base, so the feature is the "
            "remainder of its own row after the fourth field and an earlier (skipped) row leaves "
            "nothing behind. Re-deriving the feature by comma-splitting text is reported.",
            "path-sensitive abstract interpretation of the CSV parsing loop"),
    "C12": ("CAND: lexicon matches are inserted at (start_node, start_word, start_word + match "
            "length) for both lexicons. CHARRANGE: a char.def range line overwrites exactly the "
            "code points [lower, upper] (the SPACE category of a character is not changed by a "
            "neighbouring range).", "symbolic iterator-window rule"),
    "C13": ("SORTCMP: both sort comparators of compute_probs compare second.prob with first.prob "
            "(non-increasing frequency) and break ties by first.id against second.id (ascending).",
            "comparator shape rule over closure MIR"),
    "C14": ("LABELBASE: lexicon row i, unk row j and user label L read feature_sets[i], "
            "[surfaces.len()+j] and [L-1], matching the labels the trainer hands out. MATDIM: "
            "matrix.def header = (right classes + 1, left classes + 1). USERCOPY: rows given as "
            "0,0,0 get trained values, all others their own parameters. LEXTAG: each component is "
            "asked with its own WordIdx tag. CODEC over the model image (files are normally generated from a re-read model). "
            "QUOTER: every byte quote_csv_cell writes comes from the csv-core writer's output "
            "buffer and Writer::finish precedes Ok. IDXBASE: a 1-based feature id indexes rucrf's "
            "unigram table as id-1 and the bigram table (slot 0 = BOS/EOS) as id. "
            "CACHE: every Model method that mutates the model data resets the cached merged "
            "model (a stale cache makes the user rows index past the merged tables).",
            "who-may-write / must-kill rule on the cache field"),
    "C16": ("BIGRAMROW: cell separators are written exactly for cell indices > 0, and the position "
            "in bigram_weight_indices() is the left feature id. RESERVED0 / ROWRANGE: the BOS/EOS row of the raw connector is zeroed over its full "
            "width and rows are addressed by id * feat_template_size (the `including id 0` "
            "clause for more than 8 templates).", "symbolic index-range shape rule"),
    "C19": ("CORPUS: sentence bookkeeping of Corpus::from_reader (empty sentences dropped on the "
            "is_empty edge of the sentence text, the pending token list renewed on every path out "
            "of the EOS arm, malformed lines reach Err). ERRPROP: no io/parse error value is "
            "discarded on the corpus path. TRAINPANIC: panic-site audit of compatible_unk_index "
            "and Trainer::build_lattice under the assumption that the corpus is tokenizer output.",
            "path rules over MIR, panic-site audit with table"),
    "C20": ("MECABIDS: malformed id lines, an id 0 that is not BOS/EOS and a gap in the ids reach "
            "Err; both lists are written for ids 1..len; BOS/EOS text is removed before the model "
            "line is split. TEMPLATE: the expansion that is matched against model.def lines copies every "
            "literal segment of the template. SCORERBUILD: the double array places a row only at "
            "a base that check_base found free for all of its keys.",
            "loop-shape rule over symbolic slices"),
    "C18": ("CHARTYPE: the %t argument of extract_feature_set is base_id(char_info(first character "
            "of the surface)) or the unk.def entry's category. TEMPLATE: extract_feature_ids copies every literal segment of a template (before "
            "each placeholder on every iteration, and the tail after the last one). "
            "CODEC over the model image: the hand-written FeatureExtractor / TrainerConfig "
            "codecs write and read the same fields in the same order (the id tables and next-id "
            "counters decide `different strings -> different ids` after read_model).",
            "sibling cross-check of encoder/decoder MIR"),
}
for _p, (_t, _k) in _ADDED.items():
    PROPS[_p]["explanation"] += " " + _t
    if _k not in PROPS[_p]["technique"]:
        PROPS[_p]["technique"] += ", " + _k

_ADDED2 = {
    "C03": "GROUPRUN: the run-continuation test of compute_groupable ANDs the category sets of two single characters (never an accumulated intersection). UNKSCAN: scan_entries loops over exactly offsets[base_id]..offsets[base_id+1] of the given CharInfo and every candidate carries the ids and cost of entries[i] with word_id = i. PACK as for C11 (the packed character record). CHARKEY: char_info indexes the table by the whole code point. MAPKEEP (user-lexicon installation): every successful return of reset_user_lexicon_from_reader has assigned data.user_lexicon and a None reader stores None, so a cleared user lexicon contributes no candidates.",
    "C11": "RAWINPUT (second level): library functions hand their caller's reader to Lexicon::from_reader / UnkHandler::from_reader unchanged. PACK: every value packed into a shared integer (`a | b << s`) is known to fit the gap up to the next field (type, mask, or a rejecting comparison on every path) - a (posting offset, homograph count) pair packed without a bound on the count would lose homographs.",
    "C10": "PACK as for C11: CharInfo::new rejects every value that does not fit its bit field. RAWBUILD (FTSMAX): the row width is folded over both bigram files.",
    "C01": "FIELDWIDTH: no position-, length- or count-carrying field of vibrato's types is narrowed to 16 bits or less relative to the confirmed tree (spec/field_types.json).",
    "C02": "PADVAL / RESERVED0 (the C07 rules): padding lanes of the raw connector carry the invalid feature id and the BOS/EOS rows the empty feature, so the connection costs the path sums are the defined ones. VITERBI also requires insert_node to append its node on every path (no merging of candidates at insertion). PRUNESET (the C07 rule): the dual connector keeps the cost lines of the empty BOS/EOS feature, i.e. the connections from the sentence start and to the sentence end. FIELDWIDTH as for C01 (back-pointers and start positions of lattice nodes).",
    "C04": "FIELDWIDTH as for C01. OPTKEEP / OPTSET: the Tokenizer option setters return their receiver, and a field a setter assigns on one path it assigns on every successful path, so the options in force are a function of the last call's arguments and not of the history of option calls.",
    "C12": "OPTSET as for C04 (ignore_space / max_grouping_len). UNKSPAN: a prefix candidate is skipped on account of the sentence length only when it would end beyond the last character, so a sentence-final word has the candidates it has in front of a space run.",
    "C15": "SCALE (the C14 rule): the scale factor is recomputed from the current merged model by each writer (a memoised factor would survive read_user_lexicon and differ from a re-read model).",
    "C08": "FEATSPAN (the C11 rule): Lexicon::parse_csv, which also reads the user lexicon, rejects rows with fewer than four columns and accounts for every consumed byte (a malformed user row is an error, not a word with an empty feature). RAWINPUT / ERRPROP over the user-lexicon reader: the caller's bytes reach the parser unchanged and no read or parse error is swallowed. OPTSET as for C04, over the Dictionary's by-value methods. MAPKEEP reset clauses: every Ok exit of reset_user_lexicon_from_reader assigns data.user_lexicon; with a None reader the only value assigned is None.",
    "C05": "SIMDBUILD (AVX2 build): U31x8::decode and to_simd_vec build their vector by an in-order load of the whole (padded) array. LANES: U31x8::encode writes lanes 0..7 in order in both build configurations.",
    "C07": "ACCUM (portable and AVX2 builds): accumulate_cost pairs keys1[i] with keys2[i] through plain zips (no skip/rev/take), starts at zero and only adds lookup results; the AVX2 build sums lanes 0..7 once each. SCORERCHK (AVX2) also requires base = bases[key1] gathered under key1 < bases_len, zero for masked-out lanes and the 4-byte gather scale. LANES and SIMDBUILD as for C05. CSVROW as for C17 (cells of bigram.right/left lines). KIND over compile's main: the readers opened from --bigram-right-in / --bigram-left-in reach the builder parameters of their own side.",
    "C06": "KIND over map's main: the list read from *.lmap is the left mapping argument and *.rmap the right one.",
    "C13": "The C06 rules (MAP*, ROWRANGE): the property's last clause - the mapped dictionary tokenizes identically - is C06 applied to the mapping the statistics produce, so every rule that decides C06 is part of this check. PRED also requires the counted right nodes to cover the node lists and EOS, whether in one loop or two. KIND over map's main as for C06 (the files reorder writes are consumed on their own side).",
    "C14": "USERROW: every user row read by read_user_lexicon passes through extract_feature_set and add_feature_set in its own loop iteration. QUOTER also requires the input to advance by the consumed count nin and each write to be cut at the produced count nout. KIND over dictgen's main: writers created with the .left / .right suffixes reach write_bigram_details' parameters of their own side.",
    "C17": "RULECELLS: parse_rewrite_rule returns every comma-separated cell of both columns (nothing is popped, trimmed or filtered). CSVROW: parse_csv_row appends every decoded chunk (OutputFull included), emits the accumulated cell on every Field/InputEmpty/End outcome - the empty last cell too - and advances the input by the consumed count.",
    "C18": "LABELBASE (the C14 rule): the ids written for lexicon, unknown and user rows are those of the feature set the trainer's label names - user rows through the stored label. CSVROW as for C17 (template column numbers). FIRSTMATCH-* (the C17 rules): templates expand the *rewritten* features, so a rewriter that applies a later rule changes every expansion.",
    "C19": "CSVDEFAULT: the lexicon parser keeps csv-core's default dialect (a changed terminator leaves a CR at the end of every feature, which the corpus reader then strips - tokens no longer round-trip). ERRPROP also covers discarding function items handed to adaptors (`map_while(Result::ok)`) and flattened io::Result iterators.",
    "C20": "CSVROW as for C17 (the id lines of left-id.def / right-id.def).",
    "C16": "QUOTER (cells of bigram.left/right): every byte written comes from the csv-core writer's buffer cut at the produced count, the input advances by the consumed count, finish precedes Ok. CSVROW as for C17 (bigram.left/right lines). KIND over dictgen's and compile's main: the .left/.right files are written from, and --bigram-left-in/--bigram-right-in read into, the parameters of their own side.",
}
for _p, _t in _ADDED2.items():
    PROPS[_p]["explanation"] += " " + _t


# Rules added in the last rounds (seeded rounds 8 and 9, benign round 4): appended to the explanations.
_ADDED3 = {
    "C01": "VERIFYSTRICT / KIND over Lexicon::verify, UnkHandler::verify and the builder: the property's premise is `every dictionary the builder accepts`. CHARKEY: a fallible lookup of the character table falls back to slot 0 (DEFAULT). CATEINV: the id -> name table of categories is the inverse of the name -> id map. MATRIXLINES: the line iterator of the matrix parser is not truncated.",
    "C03": "CHARKEY fallback and CATEINV as for C01 (a character beyond the table is a DEFAULT character; category ids and names invert each other, which the unk.def offsets rely on).",
    "C12": "CATEINV as for C01: the SPACE mask of ignore_space is `1 << cate_id(\"SPACE\")`, the bit the characters carry.",
    "C07": "TEMPLATESIZE: the template count handed to RawConnectorBuilder::new counts the length of every row pushed onto either id list (max inside the loops, or a max over both lists chained; over the lists zipped it is a violation). RAWLINE: parse_cost splits the line as it was read. SATURATE: the pre-summed cost is clamped to exactly [i16::MIN, i16::MAX].",
    "C16": "TEMPLATESIZE, RAWLINE, SCORERBUILD and KIND over the dual connector and ConnectorWrapper (the cost obtained through the raw or dual connector; the same numbers of ids). BIGRAMROW every-row: rows of bigram_weight_indices() fetched by key are not fetched by the keys of the id -> text map (slot 0 has no text).",
    "C08": "MATRIXLINES: a blank line in matrix.def is skipped, it does not end the table. FEATSPAN: the end of the feature is not found by a search of the remaining input, and the end of the input at a row start is not taken for a row.",
    "C10": "MATRIXLINES as for C08. MAPCOMPOSE (the C06 rule). VERIFYSTRICT also reads counts captured by a closure and `cond.then_some(..).ok_or_else(..)?`.",
    "C11": "FEATSPAN feature-cut-at-reader-positions also rejects an end found by position/find/split over the remaining input; input-end-at-a-row-start-is-not-a-row: the read that hits the end of the input with no field started and no output (blank lines only) cannot reach the `row too short` error; terminator-is-cut-only-when-one-was-consumed: per record-ending outcome of csv-core (input empty inside a field / a field returned on empty input / a field that consumed its terminator) the length carries exactly the credit the cut removes. KIND over the builder's verify step.",
    "C09": "MAGIC rejection-cannot-panic: the path from a header mismatch to the error has no unwrap / index of its own; reads-the-callers-reader: header and image are read from the parameter itself, not from a buffering wrapper created in read_common.",
    "C14": "KIND over Lexicon::verify, UnkHandler::verify and ConnectorWrapper (the emitted files always compile: ids are compared with the count of their own side).",
    "C17": "FIRSTMATCH-SCAN one scan per node. CONFLINE: rewrite.def / feature.def lines are stripped on both sides. REGEX probes numbers that contain the digit 0.",
    "C18": "NEXTID: the id stored for a new feature string is the running counter *next_id, not a value derived from the table's size. CONFLINE as for C17. CHARKEY / CATEINV (`%t` expands to the character type). BIGRAMROW every-row as for C16.",
    "C19": "SPLITALL: in the split tool a counter zipped with the shared corpus iterator is the first member of the zip.",
    "C20": "CONFLINE and RAWLINE as for C17 / C07 (feature.def templates, bigram.cost feature texts).",
    "C13": "COUNTERINIT: every path through init_connid_counter stores Some(ConnIdCounter::new(..)). MAPREWRITE whole-table: the loop that rewrites an id-indexed table does not run through zip/take/skip. RESET-POOL accepts a walk of the node pool bounded by take(len_char ..).",
    "C06": "MAPREWRITE whole-table as for C13. MAPCOMPOSE through adaptor chains.",
    "C15": "CODEC expands tuple and array values per element on both sides.",
    "C02": "VITERBI also reads the running minimum kept as one (index, cost) pair and a for_each body (rewritten into its next() loop on the fact level).",
    "C05": "CODEC-GUARD reads the length test on a tuple of the two lengths. MAGIC (the C09 rule, incl. reads-the-callers-reader: `read` consumes what `write` produced).",
}
for _p, _t in _ADDED3.items():
    PROPS[_p]["explanation"] += " " + _t

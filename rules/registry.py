"""Property -> rules table (single source of truth for vcheck and MANIFEST.json)."""
import r_reset
import r_share
import r_map
import r_codec
import r_kind

NA = {
    "C17": "first-match order of a backtracking trie matcher over runtime rule lists: no structural "
           "invariant separates a correct builder from the known order defect without exploring "
           "rule lists (execution, concrete or symbolic) - out of reach of static analysis "
           "(DESIGN.md section 4)",
}

PROPS = {
    "XKIND": {"rules": [r_kind.run_all], "explanation": "debug: KIND only", "level_text": "", "level_note": "", "technique": ""},
    "C05": {
        "rules": [r_codec.run_c05],
        "explanation": "CODEC: for every hand-written bincode codec reachable from the dictionary "
                       "image the ordered (wire type, field) sequence of the encoder equals that "
                       "of the decoder, in the portable and the AVX2 build, and BorrowDecode "
                       "agrees with Decode; every type in the image has both impls; CONFIG: all "
                       "bincode entry calls take the one fixed-int little-endian configuration; "
                       "NOHASH: no hash container in the image (canonical bytes); MAGIC/WRITELEN: "
                       "the writer emits the constant the reader checks and returns "
                       "len(magic)+encoded bytes.",
        "level_text": "Static comparison of writer and reader code (MIR call sequences, wire "
                      "types, field provenance) in both build configurations. Round-trip "
                      "equality then follows from the symmetry plus bincode's own correctness, "
                      "which is trusted.",
        "level_note": "Trusted: bincode 2.0.1 / bincode_derive (derived impls are symmetric), "
                      "the wire-type normalisation table in rules/r_codec.py, crawdad's "
                      "serialize_to_vec/deserialize_from_slice being inverse.",
        "technique": "sibling cross-check of encoder/decoder MIR (ordered wire-type and field "
                     "sequences), cfg-twin comparison, type-closure walk",
    },
    "C09": {
        "rules": [r_codec.run_c09],
        "explanation": "MAGIC: in Dictionary::read_common the decode call is dominated by the "
                       "equal-branch of a comparison between the read_exact buffer and the magic "
                       "constant the writer emits; mismatch reaches only Err. ERRPROP: every "
                       "fallible call on the read path and in every hand-written decoder is "
                       "consumed by `?` or returned (no swallowed decode/io error). CODEC: the "
                       "reader consumes exactly what the writer emits; Scorer::decode rejects "
                       "inconsistent parallel arrays.",
        "level_text": "Static dominance and error-propagation rules over the read path: a "
                      "necessary structural condition for rejecting truncated/foreign images, "
                      "for every stream at once. bincode's and read_exact's behaviour on a short "
                      "stream is the trusted base.",
        "level_note": "Trusted: bincode returns an error (never default data) when the input "
                      "ends early; std::io::Read::read_exact semantics.",
        "technique": "MIR dominance (guard-before-decode), error-discipline rule over all "
                     "fallible call sites, encoder/decoder sibling cross-check",
    },
    "C15": {
        "rules": [r_codec.run_c15],
        "explanation": "CODEC over the model image (ModelData: TrainerConfig, FeatureExtractor, "
                       "FeatureRewriter, rucrf RawModel fetched from crate metadata): ordered wire "
                       "types and fields of each hand-written encoder equal those of its decoder; "
                       "CONFIG as for C05.",
        "level_text": "Static encoder/decoder symmetry for the model file.",
        "level_note": "Trusted: bincode/bincode_derive; rucrf's derived impls.",
        "technique": "sibling cross-check of encoder/decoder MIR",
    },    "C06": {
        "rules": [r_map.run],
        "explanation": "MAP rules over the MIR of Dictionary::map_connection_ids_from_iter, "
                       "reset_user_lexicon_from_reader and every map_connection_ids method: the "
                       "one mapper reaches every id-carrying component on all successful paths "
                       "(components enumerated from the struct definition), the mapper is stored "
                       "and composed previous-then-new, wrong lengths take an error path before "
                       "any component is touched, later user lexicons are translated then "
                       "verified, and every id-indexed field of each connector is rebuilt.",
        "level_text": "Static path and dataflow rules (must-pass-through, dominance, access "
                      "paths) decide the structural clauses of C06 for every mapping and "
                      "dictionary; the numeric correctness of each permutation loop is not "
                      "decided (DESIGN.md section 3).",
        "level_note": "Trusted: rustc MIR; spec/mapfields.json classification of connector "
                      "fields (checked for completeness against the struct definitions); "
                      "spec/api_model.json.",
        "technique": "MIR must-pass-through / dominance rules over access paths, who-may-write",
    },
    "C04": {
        "rules": [r_reset.run_tokens, r_share.run],
        "thorough": [r_share.run_thorough],
        "explanation": "RESET: typestate dataflow (Dirty/Clean per persistent Worker buffer) over "
                       "the MIR of every Worker entry point and token observer, for every "
                       "valuation of the emptiness predicate the entry points branch on: buffers "
                       "are killed before use on every path (history independence, idempotent "
                       "tokenize), observers read only refreshed state. SHARE: type closure of "
                       "Tokenizer free of interior mutability/raw pointers in both build "
                       "configurations, no mutable statics, no raw-pointer stores, and type-level "
                       "witnesses (Send/Sync; compile_fail + compiling twins) that nothing a "
                       "worker reads can change while it exists.",
        "level_text": "Static structural analysis over the compiler's MIR and type information: "
                      "every obligation holds for all sentences, histories and schedules at once. "
                      "C04 is a structural property; the argument is complete up to the API model "
                      "of std containers and rustc's own Send/Sync and borrow guarantees.",
        "level_note": "Trusted: rustc type/borrow checker and MIR construction; spec/api_model.json "
                      "(effects of std/hashbrown container methods); dependencies (crawdad, "
                      "bincode) contain no hidden shared state beyond what their field types show.",
        "technique": "MIR typestate dataflow (must-kill / exposed-use summaries over access paths) "
                     "+ type-closure walk + compile_fail witnesses",
    },
}

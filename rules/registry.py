"""Property -> rules table (single source of truth for vcheck and MANIFEST.json)."""
import r_reset
import r_share

NA = {
    "C17": "first-match order of a backtracking trie matcher over runtime rule lists: no structural "
           "invariant separates a correct builder from the known order defect without exploring "
           "rule lists (execution, concrete or symbolic) - out of reach of static analysis "
           "(DESIGN.md section 4)",
}

PROPS = {
    "C04": {
        "rules": [r_reset.run_tokens, r_share.run],
        "thorough": [r_share.run_thorough],
        "explanation": "RESET: typestate dataflow (Dirty/Clean per persistent Worker buffer) over "
                       "the MIR of every Worker entry point and token observer, for every "
                       "valuation of the emptiness predicate the entry points branch on: buffers "
                       "are killed before use on every path (history independence, idempotent "
                       "tokenize), observers read only refreshed state. SHARE: type closure of "
                       "Tokenizer free of interior mutability/raw pointers in both build "
                       "configurations, no mutable statics, no raw-pointer stores, and type-level "
                       "witnesses (Send/Sync; compile_fail + compiling twins) that nothing a "
                       "worker reads can change while it exists.",
        "level_text": "Static structural analysis over the compiler's MIR and type information: "
                      "every obligation holds for all sentences, histories and schedules at once. "
                      "C04 is a structural property; the argument is complete up to the API model "
                      "of std containers and rustc's own Send/Sync and borrow guarantees.",
        "level_note": "Trusted: rustc type/borrow checker and MIR construction; spec/api_model.json "
                      "(effects of std/hashbrown container methods); dependencies (crawdad, "
                      "bincode) contain no hidden shared state beyond what their field types show.",
        "technique": "MIR typestate dataflow (must-kill / exposed-use summaries over access paths) "
                     "+ type-closure walk + compile_fail witnesses",
    },
}

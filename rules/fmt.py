"""Decoding of format_args! sites and other text-emitting calls from MIR."""
from mir import callee_of, callee_paths, op_place, op_const, strip_generics, through_aggregates
from facts import EngineError


def decode_template(b):
    """bytes of a fmt::Arguments template -> [('lit', str) | ('arg', index or None, opts)].
    Grammar: library/core/src/fmt/mod.rs of the pinned toolchain. Fails closed."""
    out = []
    i = 0
    n = len(b)
    nxt = 0
    while True:
        if i >= n:
            raise EngineError("fmt template not terminated")
        c = b[i]
        if c == 0:
            if i != n - 1:
                raise EngineError("fmt template: trailing bytes after terminator")
            return out
        if c & 0xC0 == 0xC0:
            i += 1
            opts = {}
            if c & 0x01:
                opts["flags"] = int.from_bytes(b[i:i + 4], "little")
                i += 4
            if c & 0x02:
                opts["width"] = int.from_bytes(b[i:i + 2], "little")
                i += 2
            if c & 0x04:
                opts["precision"] = int.from_bytes(b[i:i + 2], "little")
                i += 2
            if c & 0x08:
                idx = int.from_bytes(b[i:i + 2], "little")
                i += 2
            else:
                idx = nxt
            nxt = idx + 1
            if c & 0x30:
                opts["indirect"] = True
            out.append(("arg", idx, opts))
        elif c == 0x80:
            ln = int.from_bytes(b[i + 1:i + 3], "little")
            out.append(("lit", bytes(b[i + 3:i + 3 + ln]).decode("utf-8")))
            i += 3 + ln
        elif c < 0x80:
            out.append(("lit", bytes(b[i + 1:i + 1 + c]).decode("utf-8")))
            i += 1 + c
        else:
            raise EngineError("fmt template: unknown byte 0x%02x" % c)


def const_of(fa, op, depth=0):
    k = op_const(op)
    if k is not None:
        return k
    pl = op_place(op)
    if pl is None or depth > 10:
        return None
    d = fa.single_def(pl["l"])
    if d is None or d[2] != "assign":
        return None
    rv = d[3]
    if rv["k"] in ("use", "cast"):
        return const_of(fa, rv["op"], depth + 1)
    if rv["k"] == "ref":
        return const_of(fa, {"c": {"l": rv["place"]["l"], "p": []}}, depth + 1)
    return None


def arguments_of(fa, op):
    """Decode a fmt::Arguments operand: [('lit', s) | ('arg', operand, kind)]"""
    o = fa.origin(op)
    if o[0] != "call":
        return None
    t = o[2]
    ps = [strip_generics(x) for x in callee_paths(t)]
    if any(x.endswith("Arguments::from_str") for x in ps):
        k = const_of(fa, t["args"][0])
        if k is None or "str" not in k:
            raise EngineError("fmt: from_str with non-literal at %s" % fa.loc(o[1]))
        return [("lit", k["str"])]
    if not any(x.endswith("Arguments::new") for x in ps):
        return None
    k = const_of(fa, t["args"][0])
    if k is None or "bytes" not in k:
        raise EngineError("fmt: template bytes not found at %s" % fa.loc(o[1]))
    pieces = decode_template(bytes(k["bytes"]))
    # the argument array
    args = []
    pl = op_place(t["args"][1])
    d = fa.single_def(pl["l"]) if pl else None
    seen = 0
    while d is not None and d[2] == "assign" and d[3]["k"] in ("ref", "use", "cast") and seen < 6:
        seen += 1
        nxt = d[3]["place"] if d[3]["k"] == "ref" else op_place(d[3]["op"])
        if nxt is None:
            break
        d = fa.single_def(nxt["l"])
    if d is None or d[2] != "assign" or d[3]["k"] != "agg":
        raise EngineError("fmt: argument array not found at %s" % fa.loc(o[1]))
    for el in d[3]["ops"]:
        oo = fa.origin(el)
        if oo[0] != "call":
            raise EngineError("fmt: argument is not an Argument::new_* call at %s" % fa.loc(o[1]))
        nm = strip_generics(callee_paths(oo[2]).pop()).rsplit("::", 1)[-1]
        args.append((oo[2]["args"][0], nm))
    out = []
    for p in pieces:
        if p[0] == "lit":
            out.append(p)
        else:
            if p[1] >= len(args):
                raise EngineError("fmt: placeholder index out of range at %s" % fa.loc(o[1]))
            out.append(("arg", args[p[1]][0], args[p[1]][1]))
    return out


def deref_arg(fa, op):
    """The displayed value behind `&x` passed to Argument::new_display (through the
    `args = (&a, &b)` tuple the compiler builds for inline captures)."""
    from mir import through_aggregates
    pl = op_place(op)
    if pl is None:
        return op
    o = through_aggregates(fa, {"l": pl["l"], "p": list(pl["p"]) + ["*"]})
    return o


def text_calls(E, fa):
    """All text-emitting calls of a function in block order:
    {block, kind, writer (operand or None), pieces}"""
    out = []
    for b, t in fa.calls():
        ps = [strip_generics(x) for x in callee_paths(t)]
        if any(x.endswith("Write::write_fmt") for x in ps):
            pcs = arguments_of(fa, t["args"][1])
            if pcs is None:
                raise EngineError("fmt: cannot decode write_fmt at %s" % fa.loc(b))
            out.append({"b": b, "kind": "write_fmt", "writer": t["args"][0], "pieces": pcs})
        elif any(x.endswith("Write::write_all") or x.endswith("Write::write") for x in ps):
            k = const_of(fa, t["args"][1])
            if k is not None and "bytes" in k:
                pcs = [("lit", bytes(k["bytes"]).decode("utf-8", "replace"))]
            else:
                pcs = [("arg", t["args"][1], "bytes")]
            out.append({"b": b, "kind": "write_all", "writer": t["args"][0], "pieces": pcs})
        elif any(x.endswith("fmt::format") or x.endswith("alloc::fmt::format") for x in ps):
            pcs = arguments_of(fa, t["args"][0])
            if pcs is not None:
                out.append({"b": b, "kind": "format", "writer": None, "pieces": pcs, "dest": t["dest"]})
        elif any(x.endswith("quote_csv_cell") for x in ps):
            out.append({"b": b, "kind": "csvcell", "writer": t["args"][0],
                        "pieces": [("arg", t["args"][1], "csvcell")]})
    return out


def writer_root(E, fa, op):
    """Parameter (MIR arg number) a writer operand derives from (through BufWriter::new, &mut)."""
    pl = op_place(op)
    cur = pl["l"] if pl else None
    for _ in range(16):
        if cur is None:
            return None
        if 1 <= cur <= fa.arg_count:
            return cur
        d = fa.single_def(cur)
        if d is None:
            return None
        if d[2] == "call":
            if not d[3]["args"]:
                return None
            p0 = op_place(d[3]["args"][0])
        else:
            rv = d[3]
            p0 = op_place(rv["op"]) if rv["k"] in ("use", "cast") else rv["place"] \
                if rv["k"] in ("ref", "rawptr") else None
        if p0 is None:
            return None
        cur = p0["l"]
    return None

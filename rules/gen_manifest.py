"""Generate /verif/MANIFEST.json from the rule registry (single source of truth)."""
import json
import os
import sys

sys.path.insert(0, os.path.dirname(os.path.abspath(__file__)))
import registry  # noqa: E402

VERIF = os.path.dirname(os.path.dirname(os.path.abspath(__file__)))
props = [json.loads(l)["id"] for l in open(os.path.join(VERIF, "properties.jsonl"))]

checks = []
na = []
for p in props:
    if p in registry.PROPS:
        s = registry.PROPS[p]
        checks.append({
            "property_id": p,
            "quick_cmd": "bin/vcheck %s" % p,
            "thorough_cmd": "bin/vcheck %s --thorough" % p,
            "evidence_file": "/verif/evidence/%s.json" % p,
            "replay_cmd_template": "bin/vcheck %s --replay {path}" % p,
            "engine": "vmir+vrules",
            "level_claimed": {
                "category": "other",
                "text": s["level_text"],
                "design_ref": s.get("design_ref", "DESIGN.md §2, §3"),
            },
            "level_note": s["level_note"],
            "technique": s["technique"],
        })
    else:
        na.append({"property_id": p, "reason": registry.NA.get(p, "check not built yet")})

m = {
    "version": 1,
    "setup_cmd": "bin/setup",
    "hooks": {
        "guard": "vibrato_verif (reserved, unused: the checks need no runtime hooks)",
        "enable": "none: checks read the type-checked program and MIR of /repo through the vmir "
                  "rustc driver (RUSTC_WORKSPACE_WRAPPER under cargo +nightly check)",
        "baseline_off_cmd": "cd /repo && cargo test --workspace --no-fail-fast --offline",
        "source_commits": [],
        "add_only": True,
    },
    "engines": [
        {"name": "vmir+vrules", "path": "/verif/driver, /verif/rules",
         "serves_properties": [c["property_id"] for c in checks],
         "kind_free_text": "static analysis: rustc_private driver dumping MIR/ADT/impl/type-walk "
                           "facts for /repo's current tree (configurations default, +avx2, "
                           "no-default-features) and a Python rule library (CFG, dominators, "
                           "access-path effects, typestate dataflow, kind/role propagation); plus "
                           "a witness crate of type-level obligations (Send/Sync, compile_fail "
                           "witnesses with compiling twins)"},
    ],
    "checks": checks,
    "notes": "All checks are static: nothing of vibrato is executed. Exit 2 + ENGINE-ERROR means "
             "the machinery lost an anchor (never a verdict). Genuine defects of the pinned tree "
             "found by the rules were repaired in /repo by `fix:` commits and are listed in "
             "/verif/known_findings.txt.",
    "not_applicable": na,
}
with open(os.path.join(VERIF, "MANIFEST.json"), "w") as fh:
    json.dump(m, fh, indent=1)
print("MANIFEST.json: %d checks, %d not applicable" % (len(checks), len(na)))

"""KIND: role kinds for same-typed values (left-word / right-word side, lattice positions)."""
import json
import os

from effects import Effects
from facts import EngineError, VERIF
from mir import FnA, callee_of, callee_paths, op_place, op_const, strip_generics, AP

WRAPPERS = {"std::option::Option", "std::result::Result", "std::ops::ControlFlow",
            "core::option::Option", "core::result::Result", "core::ops::ControlFlow"}
WRAPPER_VARIANTS = {"Some", "Ok", "Continue"}


BIN_ROOTS = ("dictgen", "compile", "map", "reorder")


def unwrap_place(pl):
    """True if the place is a local seen through derefs / Some-Ok-Continue payloads only."""
    for e in pl["p"]:
        if e == "*":
            continue
        if "dc" in e:
            continue
        if "f" in e and e.get("o") in WRAPPERS and e.get("v") in WRAPPER_VARIANTS:
            continue
        return False
    return True


SIDE = {"LW", "RW", "UNI"}
POS = {"NODE", "WORD", "END"}
# MAPK_<side>: the value is (a reference to / an iterator over) maps keyed by ids of that side;
# it is its own family and never takes part in comparisons
MAPK = {"MAPK_LW", "MAPK_RW", "MAPK_UNI"}


def family(k):
    return "side" if k in SIDE else "pos" if k in POS else None


class KindSpec:
    def __init__(self):
        with open(os.path.join(VERIF, "spec", "kinds.json")) as fh:
            j = json.load(fh)
        self.fields = j["fields"]
        self.index = j["index"]
        self.params = j["params"]
        self.returns = j["returns"]
        self.same_family = j["same_family"]
        self.strlit = j["string_literal_kinds"]
        self.conversions = set(j.get("conversions", []))


def fn_keys(crate, c):
    """Spec keys a callee may be declared under: its generic-stripped path, the resolved path,
    and the trait method it implements."""
    keys = []
    for d in (c, c.get("resolved") or {}):
        p = d.get("path")
        if p:
            keys.append(strip_generics(p))
    rp = (c.get("resolved") or c)["path"]
    f = crate.fns.get(rp)
    if f is not None and f.j.get("impl_trait") and f.name:
        keys.append("%s::%s" % (f.j["impl_trait"], f.name))
    if c.get("trait") and c.get("name"):
        keys.append("%s::%s" % (c["trait"], c["name"]))
    if (c.get("resolved") or c).get("krate") == "vibrato" and crate.name != "vibrato":
        # another crate names a library item by its visible (re-exported) path
        # (`vibrato::trainer::Model::f` for `vibrato::trainer::model::Model::f`): match the
        # declaration by `Type::method`, which is unique in the table
        for k0 in list(keys):
            alias = _suffix_alias(k0)
            if alias:
                keys.append(alias)
    return keys


_SUFFIX = None


def _suffix_alias(path):
    global _SUFFIX
    if _SUFFIX is None:
        import json
        import os
        j = json.load(open(os.path.join(os.path.dirname(os.path.dirname(os.path.abspath(__file__))),
                                        "spec", "kinds.json")))
        idx = {}
        for key in list(j["params"]) + list(j["returns"]):
            if key.startswith("vibrato::"):
                idx.setdefault("::".join(key.split("::")[-2:]), set()).add(key)
        _SUFFIX = {k: next(iter(v)) for k, v in idx.items() if len(v) == 1}
    return _SUFFIX.get("::".join(path.split("::")[-2:]))


def own_keys(f):
    keys = [strip_generics(f.path)]
    if f.j.get("impl_trait") and f.name:
        keys.append("%s::%s" % (f.j["impl_trait"], f.name))
    return keys


class KindAnalysis:
    def __init__(self, ctx, crate, spec, E):
        self.ctx = ctx
        self.crate = crate
        self.spec = spec
        self.E = E
        self.fn_kinds = {}

    # ---- per-function propagation ------------------------------------------------------------
    def analyse(self, f, capture_kinds=None):
        fa = self.E.fa(f.path)
        kinds = {}      # local -> set of kinds ; (local, '#i') for tuple fields

        def add(key, ks):
            ks = {k for k in ks if k and k != "-"}
            if not ks:
                return False
            cur = kinds.setdefault(key, set())
            n = len(cur)
            cur |= ks
            return len(cur) != n

        # parameters
        for key in own_keys(f):
            d = self.spec.params.get(key)
            if d:
                for a, k in d.items():
                    if a.isdigit():
                        add(int(a), {k})
        if capture_kinds:
            for idx, ks in capture_kinds.items():
                add(("cap", idx), ks)

        def place_kind(pl):
            """Kinds of the value at place pl."""
            ks = set(kinds.get(pl["l"], ()))
            tuple_base = pl["l"]     # local whose tuple-field kinds still apply
            for e in pl["p"]:
                if e == "*":
                    continue
                if "f" in e and e.get("o") in WRAPPERS and e.get("v") in WRAPPER_VARIANTS:
                    continue         # payload of Some/Ok/Continue: transparent
                if "f" in e:
                    o = e.get("o")
                    n = e.get("n")
                    if e.get("closure"):
                        ks = set(kinds.get(("cap", e["f"]), ()))
                        continue
                    fk = self.spec.fields.get("%s.%s" % (o, n)) if n else None
                    if fk:
                        ks = {fk}
                    elif o == "(tuple)":
                        tk = kinds.get((tuple_base, "#%d" % e["f"])) if tuple_base is not None else None
                        if tk is not None:
                            ks = set(tk)
                        tuple_base = None
                        # tuple of an iterator over a kinded container: keep
                    else:
                        ks = set()
                        tuple_base = None
                elif "i" in e or "ci" in e or "sub" in e:
                    pass   # element of a container carries the container's kind
                elif "dc" in e:
                    pass
            return ks

        def op_kind(op):
            pl = op_place(op)
            if pl is not None:
                return place_kind(pl)
            k = op_const(op)
            if k is not None and "str" in k and k["str"] in self.spec.strlit:
                return {self.spec.strlit[k["str"]]}
            return set()

        self._place_kind = place_kind
        self._op_kind = op_kind
        changed = True
        rounds = 0
        while changed and rounds < 30:
            changed = False
            rounds += 1
            for b in sorted(fa.live_blocks()):
                bb = fa.blocks[b]
                for s in bb["stmts"]:
                    if "lhs" not in s:
                        continue
                    lhs, rv = s["lhs"], s["rv"]
                    ks = set()
                    k = rv["k"]
                    if k in ("use", "cast", "repeat"):
                        ks = op_kind(rv["op"])
                    elif k in ("ref", "rawptr"):
                        ks = place_kind(rv["place"])
                    elif k == "binop":
                        a, bk = op_kind(rv["a"]), op_kind(rv["b"])
                        opn = rv["op"]
                        if opn.startswith("Add") or opn.startswith("Sub"):
                            ca, cb = op_const(rv["a"]), op_const(rv["b"])
                            if cb is not None:
                                ks = {x for x in a if x in SIDE}
                            elif ca is not None:
                                ks = {x for x in bk if x in SIDE}
                        elif opn.startswith("Div"):
                            # count of rows = len / row width: the side of the table survives
                            # when the divisor is side-neutral
                            if not {x for x in bk if x in SIDE}:
                                ks = {x for x in a if x in SIDE}
                        # other arithmetic: no kind
                    elif k == "agg":
                        if rv.get("agg") == "tuple":
                            for i, o in enumerate(rv["ops"]):
                                if not lhs["p"]:
                                    changed |= add((lhs["l"], "#%d" % i), op_kind(o))
                        elif rv.get("agg") == "array":
                            for o in rv["ops"]:
                                ks |= op_kind(o)
                        elif rv.get("agg") == "adt" and rv["adt"].startswith("std::ops::Range"):
                            for o in rv["ops"]:
                                ks |= {x for x in op_kind(o) if x in SIDE}
                    if not lhs["p"]:
                        changed |= add(lhs["l"], ks)
                        # tuple-typed moves keep per-field kinds
                        if k in ("use", "ref"):
                            pl = op_place(rv["op"]) if k == "use" else rv["place"]
                            if pl is not None:
                                for i in range(4):
                                    src = None
                                    if unwrap_place(pl):
                                        src = kinds.get((pl["l"], "#%d" % i))
                                    if src:
                                        changed |= add((lhs["l"], "#%d" % i), src)
                    else:
                        # partial write `(_x.0: T) = ...` into a tuple local
                        fe = [e for e in lhs["p"] if e != "*" and "f" in e]
                        if len(lhs["p"]) == 1 and fe and fe[0].get("o") == "(tuple)":
                            changed |= add((lhs["l"], "#%d" % fe[0]["f"]), ks)
                        # container growth through a field-less local handled at calls
                t = bb["term"]
                if t["k"] == "call":
                    c = callee_of(t)
                    dest = t["dest"]
                    ks = set()
                    declared = None
                    if c is not None:
                        for key in fn_keys(self.crate, c):
                            if key in self.spec.returns:
                                declared = self.spec.returns[key]
                                break
                    if declared is not None:
                        if isinstance(declared, dict):
                            if not dest["p"]:
                                for fld, kk in declared.items():
                                    changed |= add((dest["l"], fld), {kk})
                        else:
                            ks = {declared}
                    elif c is not None:
                        name = c.get("name") or ""
                        sp = strip_generics((c.get("resolved") or c)["path"])
                        if name in ("call", "call_mut", "call_once") and len(t["args"]) == 2 and \
                                "ops::Fn" in (c.get("path") or ""):
                            # a local closure applied to side-kinded arguments: what it builds from
                            # them (id maps, tables) belongs to that side
                            pl1 = op_place(t["args"][1])
                            if pl1 is not None and not pl1["p"]:
                                for i in range(4):
                                    ks |= {x for x in kinds.get((pl1["l"], "#%d" % i), ()) if x in SIDE}
                        elif name == "from_elem" and len(t["args"]) >= 2:
                            # vec![v; n]: a table with one slot per id of n's side
                            if not {x for x in op_kind(t["args"][0]) if x in SIDE}:
                                ks = {x for x in op_kind(t["args"][1]) if x in SIDE}
                        elif t["args"] and sp in self.spec.conversions:
                            ks = {x for x in op_kind(t["args"][0]) if x in SIDE}
                        elif t["args"] and name == "enumerate" and not dest["p"]:
                            ik = self.source_index_kind(fa, t["args"][0])
                            if ik:
                                changed |= add((dest["l"], "#0"), {ik})
                            changed |= add((dest["l"], "#1"), op_kind(t["args"][0]))
                            ks = op_kind(t["args"][0])
                        elif t["args"] and name in ("keys", "into_keys"):
                            ks = {x[5:] for x in op_kind(t["args"][0]) if x in MAPK} or \
                                {x for x in op_kind(t["args"][0]) if x not in MAPK}
                        elif t["args"] and not is_constructor_like(sp, name):
                            ks = op_kind(t["args"][0])
                            # growth: push/insert/extend give the container the element's kind
                            if name in ("push", "insert", "extend", "push_str", "extend_from_slice",
                                        "append", "set_extension") and len(t["args"]) >= 2 and \
                                    (c.get("resolved") or c).get("krate") != self.crate.name:
                                pl0 = op_place(t["args"][0])
                                if pl0 is not None:
                                    tgt = container_local(fa, pl0)
                                    if tgt is not None:
                                        for a in t["args"][1:]:
                                            changed |= add(tgt, op_kind(a))
                                        if name == "insert" and len(t["args"]) >= 3:
                                            changed |= add((tgt, "key"), op_kind(t["args"][1]))
                                ks = set()
                            # tuple-valued pass-through (Try::branch / unwrap of a tuple result)
                            pl0 = op_place(t["args"][0])
                            if pl0 is not None and not pl0["p"] and not dest["p"]:
                                for i in range(4):
                                    src = kinds.get((pl0["l"], "#%d" % i))
                                    if src:
                                        changed |= add((dest["l"], "#%d" % i), src)
                            if name in ("zip",) and len(t["args"]) >= 2 and not dest["p"]:
                                changed |= add((dest["l"], "#0"), op_kind(t["args"][0]))
                                changed |= add((dest["l"], "#1"), op_kind(t["args"][1]))
                                ks = set()
                    if not dest["p"]:
                        changed |= add(dest["l"], ks)
        self.fn_kinds[f.path] = kinds
        return fa, kinds

    # ---- sinks ----------------------------------------------------------------------------------
    def check_fn(self, f, capture_kinds=None):
        ctx = self.ctx
        fa, kinds = self.analyse(f, capture_kinds)
        place_kind, op_kind = self._place_kind, self._op_kind
        nsinks = 0

        def conflict(have, want):
            """have: set of kinds; want: kind. Conflict iff a kind of the same family differs."""
            fam = family(want)
            same = {k for k in have if family(k) == fam}
            if same and want not in same:
                return sorted(same)
            # a value that is a LW quantity on one path and a RW quantity on another (the two
            # arms of an if/else feeding one variable) is wrong on one of them
            if fam == "side" and want in ("LW", "RW") and (same - {want, "UNI"}):
                return sorted(same - {want})
            return None

        def report(rule, site, ok, loc, msg):
            ctx.ob(rule, "%s|%s" % (f.path, site), ok, loc, msg)

        for b in sorted(fa.live_blocks()):
            bb = fa.blocks[b]
            for i, s in enumerate(bb["stmts"]):
                if "lhs" not in s:
                    continue
                lhs, rv = s["lhs"], s["rv"]
                # aggregate fields
                if rv["k"] == "agg" and rv.get("agg") == "adt":
                    for fname, o in zip(rv.get("fields", []), rv["ops"]):
                        want = self.spec.fields.get("%s.%s" % (rv["adt"], fname))
                        if not want:
                            continue
                        nsinks += 1
                        have = op_kind(o)
                        bad = conflict(have, want)
                        report("KIND-FIELD", "%s{%s}" % (rv["adt"].split("::")[-1], fname),
                               bad is None, fa.loc(b, i),
                               "field `%s.%s` (%s) receives a %s value" % (
                                   rv["adt"].split("::")[-1], fname, want,
                                   "/".join(sorted(have)) if have else "role-neutral")
                               + ("" if bad is None else
                                  " - %s and %s are the two sides of a connection; they are swapped "
                                  "or mixed here" % (want, "/".join(bad))))
                # store to a declared field
                if lhs["p"]:
                    last = [e for e in lhs["p"] if e != "*" and "f" in e]
                    if last and lhs["p"][-1] is last[-1]:
                        e = last[-1]
                        want = self.spec.fields.get("%s.%s" % (e.get("o"), e.get("n")))
                        if want and rv["k"] in ("use", "cast"):
                            nsinks += 1
                            have = op_kind(rv["op"])
                            bad = conflict(have, want)
                            report("KIND-STORE", "%s.%s" % (str(e.get("o")).split("::")[-1], e.get("n")),
                                   bad is None, fa.loc(b, i),
                                   "store into `%s` (%s) of a %s value" % (
                                       e.get("n"), want, "/".join(sorted(have)) or "role-neutral")
                                   + ("" if bad is None else " - wrong side"))
                # comparisons between the two sides
                if rv["k"] == "binop" and rv["op"] in ("Eq", "Ne", "Lt", "Le", "Gt", "Ge"):
                    a, bk = op_kind(rv["a"]), op_kind(rv["b"])
                    sa = {k for k in a if k in SIDE}
                    sb = {k for k in bk if k in SIDE}
                    if sa and sb:
                        nsinks += 1
                        ok = bool(sa & sb)
                        report("KIND-CMP", "cmp|%s|%s" % ("/".join(sorted(sa)), "/".join(sorted(sb))),
                               ok, fa.loc(b, i),
                               "comparison between a %s and a %s quantity" % ("/".join(sorted(sa)),
                                                                               "/".join(sorted(sb)))
                               + ("" if ok else " - an id or count of one side is checked against "
                                                "the other side's range"))
                # row-major index formula a*N + b
                if rv["k"] == "binop" and rv["op"].startswith("Add"):
                    self.rowmajor(f, fa, b, i, rv, op_kind, report)
            t = bb["term"]
            if t["k"] == "call":
                c = callee_of(t)
                if c is None:
                    continue
                keys = fn_keys(self.crate, c)
                pdecl = None
                for key in keys:
                    if key in self.spec.params:
                        pdecl = self.spec.params[key]
                        break
                short = strip_generics((c.get("resolved") or c)["path"]).split("::")[-1]
                if pdecl:
                    for a, want in pdecl.items():
                        if not a.isdigit():
                            continue
                        idx = int(a) - 1
                        if idx >= len(t["args"]):
                            continue
                        nsinks += 1
                        have = op_kind(t["args"][idx])
                        bad = conflict(have, want)
                        report("KIND-ARG", "%s#%s" % (strip_generics(keys[0]), a), bad is None, fa.loc(b),
                               "argument %s of %s (%s) receives a %s value" % (
                                   a, short, want, "/".join(sorted(have)) or "role-neutral")
                               + ("" if bad is None else
                                  " - the %s and %s roles are swapped at this call" % (want, "/".join(bad))))
                for key in keys:
                    if key in self.spec.same_family:
                        idxs = self.spec.same_family[key]
                        hs = []
                        for a in idxs:
                            if a - 1 < len(t["args"]):
                                hs.append({k for k in op_kind(t["args"][a - 1]) if k in SIDE})
                        known = [h for h in hs if h]
                        if known:
                            nsinks += 1
                            ok = bool(set.intersection(*known)) if len(known) > 1 else True
                            report("KIND-FAMILY", "%s|same-family" % strip_generics(key), ok, fa.loc(b),
                                   "arguments %s of %s all belong to one family (%s)" % (
                                       idxs, short, [sorted(h) for h in hs])
                                   + ("" if ok else " - templates, id table and counter of "
                                                    "different sides are mixed"))
                # indexing a kind-indexed container
                ps = [strip_generics(x) for x in callee_paths(t)]
                if any(x.endswith("Index::index") or x.endswith("IndexMut::index_mut")
                       or x.endswith("slice::get") or x.endswith("::get") for x in ps) \
                        and len(t["args"]) >= 2:
                    pl0 = op_place(t["args"][0])
                    want = self.index_kind_of(fa, pl0) if pl0 is not None else None
                    if want:
                        nsinks += 1
                        have = op_kind(t["args"][1])
                        bad = conflict(have, want)
                        report("KIND-INDEX", "index|%s" % want, bad is None, fa.loc(b),
                               "container indexed by %s ids is indexed with a %s value" % (
                                   want, "/".join(sorted(have)) or "role-neutral")
                               + ("" if bad is None else " - lookup on the wrong side"))
                # lookups in a local map whose keys have a known side
                if (c.get("name") in ("get", "get_mut", "contains_key", "remove", "index", "entry")
                        and len(t["args"]) >= 2):
                    pl0 = op_place(t["args"][0])
                    tgt = container_local(fa, pl0) if pl0 is not None else None
                    kk = {k for k in kinds.get((tgt, "key"), ()) if k in SIDE} if tgt is not None else set()
                    hk = {k for k in op_kind(t["args"][1]) if k in SIDE}
                    if kk and hk:
                        nsinks += 1
                        ok = bool(kk & hk)
                        report("KIND-INDEX", "local-map|%s" % "/".join(sorted(kk)), ok, fa.loc(b),
                               "map keyed by %s ids is looked up with a %s value" % (
                                   "/".join(sorted(kk)), "/".join(sorted(hk)))
                               + ("" if ok else " - the id comes from the other side's id space"))
                # membership tests in a collection whose elements have a known side
                if c.get("name") == "contains" and len(t["args"]) >= 2:
                    kk = {k for k in op_kind(t["args"][0]) if k in SIDE}
                    hk = {k for k in op_kind(t["args"][1]) if k in SIDE}
                    if kk and hk:
                        nsinks += 1
                        ok = bool(kk & hk)
                        report("KIND-CMP", "contains|%s|%s" % ("/".join(sorted(kk)), "/".join(sorted(hk))),
                               ok, fa.loc(b),
                               "membership of a %s id is tested in a collection of %s ids" % (
                                   "/".join(sorted(hk)), "/".join(sorted(kk)))
                               + ("" if ok else " - the id is looked up in the other side's id set"))
                # maps stored in a field whose keys have a declared side
                if c.get("name") in ("get", "get_mut", "contains_key", "remove", "insert", "entry") \
                        and len(t["args"]) >= 2:
                    mk = {k[5:] for k in op_kind(t["args"][0]) if k in MAPK}
                    hk = {k for k in op_kind(t["args"][1]) if k in SIDE}
                    if mk and hk:
                        nsinks += 1
                        ok = bool(mk & hk)
                        report("KIND-INDEX", "field-map|%s" % "/".join(sorted(mk)), ok, fa.loc(b),
                               "map keyed by %s ids is accessed with a %s key" % (
                                   "/".join(sorted(mk)), "/".join(sorted(hk)))
                               + ("" if ok else " - the key comes from the other side's id space"))
                # formatted output into a kinded writer
                if any(x.endswith("Write::write_fmt") for x in ps) and len(t["args"]) >= 2:
                    wk = {k for k in op_kind(t["args"][0]) if k in SIDE}
                    if wk:
                        for x in self.fmt_args(fa, t["args"][1]):
                            hk = {k for k in op_kind(x) if k in SIDE}
                            if hk:
                                nsinks += 1
                                ok = bool(hk & wk)
                                report("KIND-WRITE", "write|%s" % "/".join(sorted(wk)), ok, fa.loc(b),
                                       "a %s value is written to the %s-side file" % (
                                           "/".join(sorted(hk)), "/".join(sorted(wk)))
                                       + ("" if ok else " - the left/right files are crossed"))
                # closures created here: analyse with capture kinds
        # return kind
        for key in own_keys(f):
            d = self.spec.returns.get(key)
            if isinstance(d, str) and d != "-":
                have = kinds.get(0, set())
                bad = conflict(have, d)
                nsinks += 1
                report("KIND-RET", "ret", bad is None, "%s:%s" % (f.file, f.line),
                       "%s returns a %s value (declared %s)" % (f.path.split("::")[-1],
                                                               "/".join(sorted(have)) or "role-neutral", d))
        # closures created in this function
        for b, i, s in fa.stmts():
            if "rv" in s and s["rv"]["k"] == "agg" and s["rv"].get("agg") == "closure":
                cp = s["rv"]["closure"]
                cf = self.crate.fns.get(cp)
                if cf is not None and cf.body:
                    caps = {}
                    for ci, o in enumerate(s["rv"]["ops"]):
                        ks = op_kind(o)
                        if ks:
                            caps[ci] = ks
                    # the analysis state (_place_kind) is per call: recurse after finishing
                    self._pending.append((cf, caps))
        return nsinks

    def source_index_kind(self, fa, op):
        """Index kind of the field an iterator operand iterates over (through iter/iter_mut/
        deref calls and reborrows)."""
        pl = op_place(op)
        for _ in range(10):
            if pl is None:
                return None
            k = self.index_kind_of(fa, pl)
            if k:
                return k
            if [e for e in pl["p"] if e != "*"]:
                return None
            d = fa.single_def(pl["l"])
            if d is None:
                return None
            if d[2] == "call":
                nm = (callee_of(d[3]) or {}).get("name")
                if nm not in ("iter", "iter_mut", "deref", "deref_mut", "into_iter", "as_slice",
                              "as_mut_slice", "by_ref"):
                    return None
                pl = op_place(d[3]["args"][0]) if d[3]["args"] else None
            else:
                rv = d[3]
                pl = rv["place"] if rv["k"] == "ref" else op_place(rv["op"]) if rv["k"] == "use" else None
        return None

    def index_kind_of(self, fa, pl):
        """Declared index kind of the container a place refers to (through references)."""
        cur = pl
        for _ in range(8):
            fe = [e for e in cur["p"] if e != "*" and "f" in e]
            if fe:
                e = fe[-1]
                k = self.spec.index.get("%s.%s" % (e.get("o"), e.get("n")))
                if k:
                    return k
                return None
            d = fa.single_def(cur["l"])
            if d is None or d[2] != "assign":
                return None
            rv = d[3]
            if rv["k"] == "ref":
                cur = rv["place"]
            elif rv["k"] == "use" and op_place(rv["op"]) is not None:
                cur = op_place(rv["op"])
            else:
                return None
        return None

    def fmt_args(self, fa, op):
        """Operands displayed by a format_args! value."""
        out = []
        o = fa.origin(op)
        if o[0] != "call":
            return out
        t = o[2]
        for a in t["args"]:
            pl = op_place(a)
            if pl is None:
                continue
            d = fa.single_def(pl["l"])
            # &[Argument; N]
            seen = 0
            while d is not None and d[2] == "assign" and d[3]["k"] in ("ref", "use") and seen < 5:
                seen += 1
                nxt = d[3]["place"] if d[3]["k"] == "ref" else op_place(d[3]["op"])
                if nxt is None:
                    break
                d = fa.single_def(nxt["l"])
            if d is not None and d[2] == "assign" and d[3]["k"] == "agg" and d[3].get("agg") == "array":
                for el in d[3]["ops"]:
                    oo = fa.origin(el)
                    if oo[0] == "call" and oo[2]["args"]:
                        out.append(oo[2]["args"][0])
        return out

    def rowmajor(self, f, fa, b, i, rv, op_kind, report):
        """a*N + b: N must be the count of b's side and differ from a's side."""
        for x, y in ((rv["a"], rv["b"]), (rv["b"], rv["a"])):
            ox = fa.origin(x)
            mul = None
            if ox[0] == "rv" and ox[1]["k"] == "binop" and ox[1]["op"].startswith("Mul"):
                mul = ox[1]
            elif ox[0] == "place" and ox[1].root[0] == "local":
                d = fa.single_def(ox[1].root[1])
                if d and d[2] == "assign" and d[3]["k"] == "binop" and d[3]["op"].startswith("Mul"):
                    mul = d[3]
            if mul is None:
                continue
            ka = {k for k in op_kind(mul["a"]) if k in SIDE}
            kn = {k for k in op_kind(mul["b"]) if k in SIDE}
            kb = {k for k in op_kind(y) if k in SIDE}
            if ka and kn and kb:
                ok = (kn & kb) and not (ka & kn)
                if not ok:
                    # maybe the roles of the multiplicands are the other way round
                    ok = (ka & kb) and not (ka & kn)
                report("KIND-ROWMAJOR", "rowmajor|%s*%s+%s" % ("/".join(sorted(ka)), "/".join(sorted(kn)),
                                                               "/".join(sorted(kb))),
                       bool(ok), fa.loc(b, i),
                       "row-major index formula %s*%s + %s" % (sorted(ka), sorted(kn), sorted(kb))
                       + ("" if ok else " - the row width is not the count of the column side: "
                                        "cells of different id pairs collide"))
            return


def is_constructor_like(sp, name):
    return name in ("new", "default", "with_capacity", "from_elem") and not sp.startswith("std::io::Buf")


def container_local(fa, pl):
    """Local variable (whole) a `&mut container` operand refers to, if it is a plain local."""
    cur = pl
    for _ in range(6):
        if cur["p"] and any(e != "*" for e in cur["p"]):
            return None
        d = fa.single_def(cur["l"])
        if d is None:
            return cur["l"]
        if d[2] != "assign":
            return cur["l"]
        rv = d[3]
        if rv["k"] == "ref":
            cur = rv["place"]
            if not cur["p"]:
                # reference to a named/mutable local
                dd = fa.single_def(cur["l"])
                if dd is None or dd[2] == "call":
                    return cur["l"]
        elif rv["k"] == "use" and op_place(rv["op"]) is not None:
            cur = op_place(rv["op"])
        else:
            return cur["l"]
    return None


def anchors(ctx, crate, spec):
    """Declared anchors must still exist and still carry their role vocabulary."""
    n = 0
    for key, d in spec.params.items():
        cands = [f for p, f in crate.fns.items() if key in own_keys(f)
                 or strip_generics(p) == key]
        if key.startswith("rucrf::"):
            continue
        if not cands:
            raise EngineError("KIND anchor lost: function %s not found" % key)
        mc = d.get("must_contain", {})
        for f in cands:
            names = f.j.get("param_names") or []
            for a, word in list(mc.items()):
                i = int(a) - 1
                if i < len(names):
                    n += 1
                    if word not in names[i]:
                        # The parameters still carry the role words but in other positions (the
                        # signature was reordered): the names define the roles, so re-bind the
                        # declared kinds by name. Callers that still pass the old order are then
                        # reported by KIND-ARG. Anything else is a lost anchor.
                        kind_of = {w: d[x] for x, w in mc.items() if x in d}
                        new = {}
                        for x, w0 in mc.items():
                            j = int(x) - 1
                            hit = [w for w in kind_of if j < len(names) and w in names[j]]
                            if len(hit) != 1:
                                new = None
                                break
                            new[x] = hit[0]
                        if new is None or sorted(new.values()) != sorted(mc.values()):
                            raise EngineError("KIND anchor lost: parameter %s of %s is now called `%s` "
                                              "(expected a name containing `%s`)" % (a, key, names[i], word))
                        for x, w in new.items():
                            d[x] = kind_of[w]
                            mc[x] = w
                        ctx.count("KIND", "anchors re-bound by parameter name", 1)
                        ctx.listed("KIND", "rebound", "%s: %s" % (key, {x: names[int(x) - 1] for x in new}))
                        break
    gone = []
    for key in spec.fields:
        adt, fld = key.rsplit(".", 1)
        if adt.startswith("rucrf::"):
            if adt in crate.adts and fld not in crate.fields(adt):
                raise EngineError("KIND anchor lost: field %s" % key)
            continue
        if adt.split("::")[0] in BIN_ROOTS:
            continue    # option structs of the command-line crates: verified in run_all
        if fld not in crate.fields(adt):
            # the type is still there but this field is gone (folded into another struct by a
            # refactoring): its values now travel through other kinded parameters and fields,
            # which are checked; more than a few such losses mean the table no longer fits
            gone.append(key)
            continue
        n += 1
    for key in gone:
        ctx.listed("KIND", "declared fields that no longer exist (skipped)", key)
    if len(gone) > 4:
        raise EngineError("KIND anchor lost: fields %s" % gone)
    ctx.count("KIND", "anchors verified", n)
    ctx.floor("KIND", "anchors verified", n, 80)


def run_crate(ctx, crate, only=None, spec=None):
    spec = spec or KindSpec()
    E = Effects(crate)
    ka = KindAnalysis(ctx, crate, spec, E)
    ka._pending = []
    total = 0
    nf = 0
    for p, f in sorted(crate.fns.items()):
        if not f.body or f.krate != crate.name or f.j.get("kind") == "Closure":
            continue
        if only and not only(f):
            continue
        if f.j.get("derive"):
            continue
        nf += 1
        total += ka.check_fn(f)
        while ka._pending:
            cf, caps = ka._pending.pop()
            total += ka.check_fn(cf, caps)
            nf += 1
    ctx.count("KIND", "functions analysed (%s)" % crate.name, nf)
    ctx.count("KIND", "kinded sinks checked (%s)" % crate.name, total)
    return total


def run(ctx, scope=None):
    F = ctx.facts("A")
    spec = KindSpec()
    anchors(ctx, F.lib, spec)
    total = run_crate(ctx, F.lib, scope, spec)
    ctx.floor("KIND", "kinded sinks", total, 100 if scope is None else 1)
    # every writer and reader of the connection matrix must use the same layout: a formula
    # `right * num_left + left` is a valid row-major index on its own, but not next to
    # `left * num_right + right`
    rm = {}
    for o in ctx.obs:
        if o.rule == "KIND-ROWMAJOR" and o.ok and "|rowmajor|" in o.key:
            fnp, triple = o.key.split("|")[1], o.key.rsplit("|", 1)[-1]
            rm.setdefault(triple, set()).add(fnp.split("::")[-1])
    if len(rm) >= 1 and not any(o.key == "KIND-ROWMAJOR|matrix-layout-agrees" for o in ctx.obs):
        major = max(rm.items(), key=lambda kv: len(kv[1]))[0]
        ok = len(rm) == 1
        ctx.ob("KIND-ROWMAJOR", "matrix-layout-agrees", ok, "vibrato/src/dictionary/connector",
               "all %d index formulas of the connection matrix use the layout %s" % (
                   sum(len(v) for v in rm.values()), major) if ok else
               "the connection matrix is indexed with different layouts: %s - cells written by one "
               "function are read back as other id pairs by another" % {k: sorted(v) for k, v in rm.items()})
    ctx.assume("KIND trusts the declaration table spec/kinds.json (confirmed by reading; anchors "
               "are re-verified on every run); only contradictions between declared kinds are "
               "reported, unlabelled values never produce a verdict")


def run_bins(ctx, names):
    """The command-line crates hand readers / writers opened from side-named options, suffixes
    and extensions to the library: same analysis, same table."""
    F = ctx.facts("A")
    spec = KindSpec()
    nb = 0
    for name in names:
        c = F.crate(name)
        for key in spec.fields:
            adt, fld = key.rsplit(".", 1)
            if adt.split("::")[0] == name[:-4]:
                if fld not in c.fields(adt):
                    raise EngineError("KIND anchor lost: field %s" % key)
                nb += 1
        n = run_crate(ctx, c)
        if name != "reorder-bin":    # its only side-dependent sink is a file name (FMT mapping rule)
            ctx.floor("KIND", "kinded sinks checked (%s)" % name, n, 1)
    ctx.count("KIND", "command-line option anchors verified", nb)


def bins(*names):
    def run(ctx):
        run_bins(ctx, names)
    return run


def run_all(ctx):
    run(ctx, None)
    run_bins(ctx, ("dictgen-bin", "compile-bin", "map-bin", "reorder-bin"))


def op_kind_fn(crate, E, path, spec=None):
    """(fa, op_kind, place_kind) for one function, without recording obligations."""
    spec = spec or KindSpec()
    ka = KindAnalysis(None, crate, spec, E)
    ka._pending = []
    fa, kinds = ka.analyse(crate.fn(path))
    return fa, ka._op_kind, ka._place_kind, spec

"""Symbolic expressions of MIR operands (for structural pattern rules).

expr ::= ("const", value) | ("ap", AP) | ("call", callee short name, [expr...], block)
       | ("binop", op, expr, expr) | ("unop", op, expr) | ("cast", expr) | ("agg", name, {field: expr})
       | ("phi", local)            (multiply defined local)
"""
from mir import op_place, op_const, callee_of, strip_generics


class Sym:
    def __init__(self, E, fa, depth=12):
        self.E = E
        self.fa = fa
        self.depth = depth

    def operand(self, op, d=0):
        k = op_const(op)
        if k is not None:
            if "int" in k:
                return ("const", k["int"])
            if "str" in k:
                return ("const", k["str"])
            if "bytes" in k:
                return ("const", bytes(k["bytes"]))
            if "fn" in k:
                return ("fn", k["fn"]["path"])
            return ("const", k.get("dbg") or k.get("uneval"))
        return self.place(op_place(op), d)

    def place(self, pl, d=0):
        fa = self.fa
        if pl is None:
            return ("?",)
        ap = self.E.ap_place(fa, pl)
        if ap.root[0] in ("arg",):
            return ("ap", ap)
        # projections beyond transparent ones: report AP with root description
        real_proj = [e for e in pl["p"] if e != "*"]
        l = pl["l"]
        if d > self.depth:
            return ("ap", ap)
        dd = fa.single_def(l)
        if dd is None:
            if 1 <= l <= fa.arg_count:
                return ("ap", ap)
            return ("phi", l, tuple(ap.proj))
        b, i, kind, payload = dd
        if kind == "call":
            base = self.call(b, payload, d + 1)
            if ap.root == ("call", b) and not ap.proj:
                return base
            if ap.root != ("call", b):
                # aliased into some other location (e.g. element of a container)
                return ("ap", ap)
            return ("proj", base, tuple(ap.proj))
        rv = payload
        k = rv["k"]
        inner = None
        if k == "use":
            inner = self.operand(rv["op"], d + 1)
        elif k in ("ref", "rawptr"):
            inner = self.place(rv["place"], d + 1)
        elif k == "cast":
            inner = ("cast", self.operand(rv["op"], d + 1), rv["ty"])
        elif k == "binop":
            inner = ("binop", rv["op"].replace("WithOverflow", ""), self.operand(rv["a"], d + 1),
                     self.operand(rv["b"], d + 1))
        elif k == "unop":
            inner = ("unop", rv["op"], self.operand(rv["a"], d + 1))
        elif k == "agg":
            if rv.get("agg") == "adt":
                inner = ("agg", rv["adt"] + "::" + rv["variant"],
                         {f: self.operand(o, d + 1) for f, o in zip(rv.get("fields", []), rv["ops"])})
            else:
                inner = ("agg", rv.get("agg"), {str(i): self.operand(o, d + 1)
                                                for i, o in enumerate(rv["ops"])})
        elif k == "discr":
            inner = ("discr", self.place(rv["place"], d + 1))
        else:
            inner = ("rv", k)
        if not real_proj:
            return inner
        # projection out of a computed value: overflow tuples (.0) and aggregates
        if inner[0] == "binop" and len(real_proj) == 1 and real_proj[0].get("f") == 0:
            return inner
        if inner[0] == "agg":
            e = real_proj[0]
            key = e.get("n") if "f" in e else None
            if key is None and "f" in e:
                key = str(e["f"])
            if key in inner[2] and len(real_proj) == 1:
                return inner[2][key]
        if inner[0] == "ap":
            return ("ap", ap)
        return ("proj", inner, tuple(ap.proj[-len(real_proj):]))

    def call(self, b, term, d=0):
        c = callee_of(term)
        name = "?"
        if c is not None:
            name = strip_generics((c.get("resolved") or c)["path"])
        args = [self.operand(a, d + 1) for a in term["args"]]
        return ("call", name, args, b)


def short(name):
    return name.rsplit("::", 1)[-1]


def is_call(e, suffix):
    return e[0] == "call" and (e[1].endswith(suffix))


def strip_casts(e):
    """Remove casts and widening conversions (usize::from, i32::from, try_from + ?)."""
    while True:
        if e[0] == "cast":
            e = e[1]
            continue
        if e[0] == "call" and (short(e[1]) in ("from", "into", "from_u32", "try_from", "unwrap", "branch",
                                                "clone", "deref", "as_ref", "borrow")) and e[2]:
            e = e[2][0]
            continue
        if e[0] == "proj" and e[1][0] == "call" and short(e[1][1]) in ("branch",):
            e = e[1][2][0]
            continue
        return e


def show(e, d=0):
    if d > 6:
        return "..."
    if e[0] == "const":
        return repr(e[1])
    if e[0] == "ap":
        return repr(e[1])
    if e[0] == "call":
        return "%s(%s)" % (short(e[1]), ", ".join(show(a, d + 1) for a in e[2]))
    if e[0] == "binop":
        return "%s(%s, %s)" % (e[1], show(e[2], d + 1), show(e[3], d + 1))
    if e[0] == "unop":
        return "%s(%s)" % (e[1], show(e[2], d + 1))
    if e[0] == "cast":
        return "cast(%s)" % show(e[1], d + 1)
    if e[0] == "agg":
        return "%s{%s}" % (short(e[1]) if isinstance(e[1], str) else e[1],
                           ", ".join("%s: %s" % (k, show(v, d + 1)) for k, v in e[2].items()))
    if e[0] == "proj":
        return "%s.%s" % (show(e[1], d + 1), ".".join(map(str, e[2])))
    return str(e)

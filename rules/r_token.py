"""ACCESS / DISPATCH: token bookkeeping (C01, C02, C08)."""
from effects import Effects
from facts import EngineError
from flow import calls_named
from mir import AP, callee_of, callee_paths, op_place, op_const, strip_generics
from r_viterbi import base_local
from sym import Sym, show, short, strip_casts

TOK = "vibrato::token::Token::<'w, 't>::"
TOPN = ("worker", "top_nodes", "[]")


def fn_loc(crate, p):
    f = crate.fns[p]
    return "%s:%s" % (f.file, f.line)


def ret_expr(E, p):
    fa = E.fa(p)
    return fa, Sym(E, fa), Sym(E, fa).place({"l": 0, "p": []})


def ap_is(e, *proj):
    return e[0] == "ap" and e[1].root == ("arg", 1) and e[1].proj == tuple(proj)


def access(ctx):
    crate = ctx.facts("A").lib
    E = Effects(crate)

    def chk(key, ok, loc, good, bad):
        ctx.ob("ACCESS", key, ok, loc, good if ok else bad)

    # every accessor indexes top_nodes with the token's own index
    nidx = 0
    for name in ("range_char", "range_byte", "word_idx", "left_id", "right_id", "word_cost",
                 "total_cost"):
        p = TOK + name
        fa = E.fa(p)
        S = Sym(E, fa)
        for b, t in fa.calls():
            if any(strip_generics(x).endswith("Index::index") for x in callee_paths(t)):
                base = S.operand(t["args"][0])
                if ap_is(base, "worker", "top_nodes"):
                    nidx += 1
                    idx = S.operand(t["args"][1])
                    chk("%s|indexes-with-own-index" % name, ap_is(idx, "index"), fa.loc(b),
                        "%s reads top_nodes[self.index]" % name,
                        "%s reads top_nodes[%s] instead of the token's own slot" % (name, show(idx)))
    ctx.floor("ACCESS", "top_nodes index sites in Token accessors", nidx, 7)

    fa, S, e = ret_expr(E, TOK + "range_char")
    ok = e[0] == "agg" and ap_is(e[2].get("start", ("?",)), *TOPN, "#1", "start_word") and \
        ap_is(e[2].get("end", ("?",)), *TOPN, "#0")
    chk("range_char|start_word..end", ok, fn_loc(crate, TOK + "range_char"),
        "range_char = node.start_word .. end boundary of the stored pair",
        "range_char is built from %s" % show(e))

    p = TOK + "range_byte"
    fa = E.fa(p)
    S = Sym(E, fa)
    bp = calls_named(fa, "byte_position")
    srcs = {}
    for b, t in bp:
        a = [S.operand(x) for x in t["args"]]
        srcs[b] = a
    agg = None
    for b, i, s in fa.stmts():
        if "rv" in s and s["rv"]["k"] == "agg" and s["rv"].get("adt", "").endswith("ops::Range"):
            agg = s["rv"]
    ok = False
    if agg is not None and len(bp) == 2:
        fl = dict(zip(agg["fields"], agg["ops"]))
        o_s, o_e = fa.origin(fl["start"]), fa.origin(fl["end"])
        if o_s[0] == "call" and o_e[0] == "call" and o_s[1] in srcs and o_e[1] in srcs:
            a_s, a_e = srcs[o_s[1]], srcs[o_e[1]]
            ok = ap_is(a_s[0], "worker", "sent") and ap_is(a_e[0], "worker", "sent") and \
                ap_is(a_s[1], *TOPN, "#1", "start_word") and ap_is(a_e[1], *TOPN, "#0")
    chk("range_byte|same-sources-through-byte_position", ok, fn_loc(crate, p),
        "range_byte = byte_position(start_word) .. byte_position(end): the same two character "
        "positions as range_char, converted by the sentence's offset table",
        "range_byte does not convert the positions range_char reports (%s)"
        % {b: [show(x) for x in a] for b, a in srcs.items()})

    fa, S, e = ret_expr(E, "vibrato::sentence::Sentence::byte_position")
    idxs = [(b, t) for b, t in fa.calls()
            if any(strip_generics(x).endswith("Index::index") for x in callee_paths(t))]
    ok = len(idxs) == 1 and ap_is(S.operand(idxs[0][1]["args"][0]), "c2b") and \
        S.operand(idxs[0][1]["args"][1]) == ("ap", AP(("arg", 2)))
    chk("byte_position|c2b[pos]", ok, fn_loc(crate, "vibrato::sentence::Sentence::byte_position"),
        "byte_position(pos) = c2b[pos]", "byte_position is %s" % show(e))

    fa, S, e = ret_expr(E, TOK + "surface")
    ok = False
    for b, t in fa.calls():
        if any(strip_generics(x).endswith("Index::index") for x in callee_paths(t)):
            a = [S.operand(x) for x in t["args"]]
            is_ret = t["dest"]["l"] == 0 or fa.origin({"c": {"l": 0, "p": []}})[0:2] == ("call", b)
            ok = ap_is(a[0], "worker", "sent", "input") and a[1][0] == "call" and \
                short(a[1][1]) == "range_byte" and a[1][2][0] == ("ap", AP(("arg", 1))) and is_ret
            e = ("call", "index", a, b)
    chk("surface|input[range_byte]", ok, fn_loc(crate, TOK + "surface"),
        "surface = sentence text sliced with range_byte()", "surface is %s" % show(e))

    for name, fld in (("total_cost", "min_cost"), ("left_id", "left_id"), ("right_id", "right_id")):
        fa, S, e = ret_expr(E, TOK + name)
        ok = ap_is(e, *TOPN, "#1", fld)
        chk("%s|node.%s" % (name, fld), ok, fn_loc(crate, TOK + name),
            "%s returns the stored node's %s" % (name, fld), "%s returns %s" % (name, show(e)))

    fa, S, e = ret_expr(E, TOK + "word_idx")
    ok = e[0] == "call" and short(e[1]) == "word_idx" and ap_is(e[2][0], *TOPN, "#1")
    chk("word_idx|node.word_idx()", ok, fn_loc(crate, TOK + "word_idx"),
        "word_idx is the stored node's word index", "word_idx is %s" % show(e))
    fa, S, e = ret_expr(E, "vibrato::tokenizer::lattice::Node::word_idx")
    ok = e[0] == "call" and short(e[1]) == "new" and ap_is(e[2][0], "lex_type") and \
        ap_is(e[2][1], "word_id")
    chk("Node::word_idx|(lex_type,word_id)", ok,
        fn_loc(crate, "vibrato::tokenizer::lattice::Node::word_idx"),
        "Node::word_idx = WordIdx(lex_type, word_id) of the node", "Node::word_idx is %s" % show(e))

    fa, S, e = ret_expr(E, TOK + "feature")
    ok = e[0] == "call" and short(e[1]) == "word_feature" and \
        ap_is(e[2][0], "worker", "tokenizer", "dict") and e[2][1][0] == "call" and \
        short(e[2][1][1]) == "word_idx"
    chk("feature|dict.word_feature(word_idx)", ok, fn_loc(crate, TOK + "feature"),
        "feature = dictionary.word_feature(self.word_idx())", "feature is %s" % show(e))
    fa, S, e = ret_expr(E, TOK + "word_cost")
    ok = e[0] == "proj" and e[2] == ("word_cost",) and e[1][0] == "call" and \
        short(e[1][1]) == "word_param" and ap_is(e[1][2][0], "worker", "tokenizer", "dict") and \
        e[1][2][1][0] == "call" and short(e[1][2][1][1]) == "word_idx" and \
        ap_is(e[1][2][1][2][0], *TOPN, "#1")
    chk("word_cost|dict.word_param(word_idx).word_cost", ok, fn_loc(crate, TOK + "word_cost"),
        "word_cost = dictionary.word_param(node.word_idx()).word_cost",
        "word_cost is %s" % show(e))
    fa, S, e = ret_expr(E, TOK + "lex_type")
    ok = e[0] == "proj" and e[2] == ("lex_type",) and e[1][0] == "call" and short(e[1][1]) == "word_idx"
    chk("lex_type|word_idx().lex_type", ok, fn_loc(crate, TOK + "lex_type"),
        "lex_type = self.word_idx().lex_type", "lex_type is %s" % show(e))

    # Worker::token(i): tokens are stored from EOS to BOS
    p = "vibrato::tokenizer::worker::Worker::<'t>::token"
    fa, S, e = ret_expr(E, p)
    ok = e[0] == "call" and short(e[1]) == "new" and e[2][0] == ("ap", AP(("arg", 1)))
    if ok:
        # the index is  num_tokens() - i - 1  in any association or order of the operations
        def lin(x, sign, acc):
            x = strip_casts(x)
            if x[0] == "proj" and x[2] and x[2][0] in ("#0", 0):
                x = strip_casts(x[1])
            if x[0] == "binop" and x[1] in ("Add", "AddWithOverflow", "Sub", "SubWithOverflow"):
                lin(x[2], sign, acc)
                lin(x[3], sign if x[1].startswith("Add") else -sign, acc)
            elif x[0] == "const" and isinstance(x[1], int):
                acc["#"] = acc.get("#", 0) + sign * x[1]
            elif x == ("ap", AP(("arg", 2))):
                acc["i"] = acc.get("i", 0) + sign
            elif x[0] == "call" and short(x[1]) in ("num_tokens", "len"):
                acc["n"] = acc.get("n", 0) + sign
            else:
                acc["?"] = acc.get("?", 0) + 1
        acc = {}
        lin(e[2][1], 1, acc)
        ok = acc == {"n": 1, "i": -1, "#": -1}
    chk("Worker::token|reverse-index", ok, fn_loc(crate, p),
        "token(i) addresses slot num_tokens - i - 1 (the result list is stored EOS to BOS)",
        "token(i) addresses %s" % show(e))
    fa, S, e = ret_expr(E, "vibrato::tokenizer::worker::Worker::<'t>::num_tokens")
    ok = e[0] == "call" and short(e[1]) == "len" and ap_is(e[2][0], "top_nodes")
    chk("Worker::num_tokens|top_nodes.len", ok,
        fn_loc(crate, "vibrato::tokenizer::worker::Worker::<'t>::num_tokens"),
        "num_tokens = top_nodes.len()", "num_tokens is %s" % show(e))

    # compute_basic: chars and c2b are pushed pairwise, and the end offset is appended
    p = "vibrato::sentence::Sentence::compute_basic"
    fa = E.fa(p)
    S = Sym(E, fa)
    pushes = calls_named(fa, "push")
    by = {}
    for b, t in pushes:
        tgt = S.operand(t["args"][0])
        by.setdefault(repr(tgt), []).append((b, t))
    ch = by.get("('ap', arg1.chars)", [])
    cb = by.get("('ap', arg1.c2b)", [])
    ok = len(ch) == 1 and len(cb) == 2
    ok_pair = False
    ok_tail = False
    if ok:
        # loop pushes: the c2b push whose value comes from the char_indices item
        loopc2b = [x for x in cb if base_local(fa, x[1]["args"][1]) is not None
                   and S.operand(x[1]["args"][1])[0] != "call"]
        tail = [x for x in cb if x not in loopc2b]
        if len(loopc2b) == 1 and len(tail) == 1:
            lb = loopc2b[0][0]
            # pairwise: each of the two loop pushes dominates or is dominated by the other with no
            # branch between them
            a, b2 = ch[0][0], lb
            ok_pair = (fa.dominates(a, b2) and lb in fa.reachable(a)) or \
                      (fa.dominates(b2, a) and a in fa.reachable(b2))
            # both from the same item
            ia = base_local(fa, ch[0][1]["args"][1])
            ib = base_local(fa, loopc2b[0][1]["args"][1])
            ok_pair = ok_pair and ia is not None and ib is not None
            tv = S.operand(tail[0][1]["args"][1])
            rets = fa.return_blocks()
            ok_tail = tv[0] == "call" and short(tv[1]) == "len" and ap_is(tv[2][0], "input") and \
                all(tail[0][0] not in fa.reachable(0, avoid=set()) or
                    r not in fa.reachable(0, avoid={tail[0][0]}) for r in rets)
    if not ch:
        # the same filling written with iterator adaptors:
        #   chars.extend(input.chars()); c2b.extend(input.char_indices().map(|(bi, _)| bi)
        #                                               .chain(once(input.len())))
        ok, ok_pair, ok_tail = _compute_basic_extend(E, crate, fa, S)
    chk("compute_basic|chars-and-c2b-pairwise", ok and ok_pair, fn_loc(crate, p),
        "every character pushes exactly one entry to chars and one byte offset to c2b",
        "chars and c2b are not filled pairwise in compute_basic")
    chk("compute_basic|end-offset-appended", ok and ok_tail, fn_loc(crate, p),
        "c2b receives input.len() after the last character on every path (so that the end of the "
        "last token converts to a byte offset)",
        "the closing byte offset input.len() is not appended to c2b on every path")


def _compute_basic_extend(E, crate, fa, S):
    """(recognised, pairwise, tail) for the adaptor form of Sentence::compute_basic."""
    from flow import must_pass

    def chain_of(op):
        """adaptor calls from the operand back to the text: [(name, term)], innermost last"""
        out = []
        cur = op
        for _ in range(10):
            o = fa.origin(cur)
            if o[0] != "call":
                break
            nm = sorted({strip_generics(x).rsplit("::", 1)[-1] for x in callee_paths(o[2])})[0]
            out.append((nm, o[2]))
            if not o[2]["args"]:
                break
            cur = o[2]["args"][0]
        return out

    def over_input(ch_, allowed):
        names = [n for n, _ in ch_]
        if not names or any(n not in allowed for n in names):
            return False
        last = ch_[-1][1]
        return bool(last["args"]) and ap_is(S.operand(last["args"][0]), "input")
    ext = {}
    for b, t in calls_named(fa, "extend"):
        tgt = S.operand(t["args"][0])
        for fld in ("chars", "c2b"):
            if ap_is(tgt, fld):
                ext.setdefault(fld, []).append((b, t))
    if len(ext.get("chars", [])) != 1 or len(ext.get("c2b", [])) != 1:
        return False, False, False
    rets = fa.return_blocks()
    every = all(must_pass(fa, r, {ext["chars"][0][0]}) and must_pass(fa, r, {ext["c2b"][0][0]}) for r in rets)
    cch = chain_of(ext["chars"][0][1]["args"][1])
    ok_chars = over_input(cch, {"chars", "deref", "as_str", "into_iter"}) and "chars" in [n for n, _ in cch]
    bch = chain_of(ext["c2b"][0][1]["args"][1])
    ok_idx, ok_tail = False, False
    idx_chain = bch
    if bch and bch[0][0] == "chain" and len(bch[0][1]["args"]) == 2:
        idx_chain = bch[1:]
        tl = fa.origin(bch[0][1]["args"][1])
        if tl[0] == "call" and any(strip_generics(x).endswith("::once") for x in callee_paths(tl[2])):
            tv = S.operand(tl[2]["args"][0])
            ok_tail = tv[0] == "call" and short(tv[1]) == "len" and ap_is(tv[2][0], "input")
    else:
        # the end offset pushed after the extend
        for pb, pt in calls_named(fa, "push"):
            tv = S.operand(pt["args"][1])
            if ap_is(S.operand(pt["args"][0]), "c2b") and tv[0] == "call" and short(tv[1]) == "len" and \
                    ap_is(tv[2][0], "input") and pb in fa.reachable(ext["c2b"][0][0]) and \
                    all(must_pass(fa, r, {pb}) for r in rets):
                ok_tail = True
    if over_input(idx_chain, {"char_indices", "map", "deref", "as_str", "into_iter"}) and \
            [n for n, _ in idx_chain].count("map") == 1 and "char_indices" in [n for n, _ in idx_chain]:
        mp = [t for n, t in idx_chain if n == "map"][0]
        cl = E.closure_of_operand(fa, mp["args"][1]) if len(mp["args"]) > 1 else None
        if cl is not None:
            _, _, e = ret_expr(E, cl[0])
            ok_idx = e[0] == "ap" and e[1].root == ("arg", 2) and [str(x) for x in e[1].proj] in (["#0"], ["0"])
    return True, every and ok_chars and ok_idx, every and ok_tail


def dispatch(ctx):
    crate = ctx.facts("A").lib
    E = Effects(crate)
    want = {"System": "system_lexicon", "User": "user_lexicon", "Unknown": "unk_handler"}
    lt = crate.adt("vibrato::dictionary::LexType")
    variants = [v["name"] for v in lt["variants"]]
    for name in ("word_param", "word_feature"):
        p = "vibrato::dictionary::Dictionary::" + name
        fa = E.fa(p)
        S = Sym(E, fa)
        sws = []
        for b in sorted(fa.live_blocks()):
            t = fa.term(b)
            if t["k"] != "switch":
                continue
            o = fa.origin(t["op"])
            if o[0] == "rv" and o[1]["k"] == "discr":
                ap = E.ap_place(fa, o[1]["place"])
                if ap == AP(("arg", 2), ("lex_type",)):
                    sws.append((b, t))
        if len(sws) != 1:
            raise EngineError("DISPATCH: no switch on word_idx.lex_type in %s" % p)
        b, t = sws[0]
        arms = dict(zip(t["vals"], t["targets"]))
        for vi, vname in enumerate(variants):
            tgt = arms.get(vi, t["otherwise"])
            others = {x for v2, x in arms.items() if v2 != vi} | \
                     ({t["otherwise"]} if vi in arms else set())
            region = fa.reachable(tgt, avoid=others - {tgt})
            comps = []
            for cb, ct in calls_named(fa, name):
                if cb in region and ct["args"]:
                    e = S.operand(ct["args"][0])
                    comps.append(e[1].proj[-1] if e[0] == "ap" and e[1].proj else show(e))
            ok = comps == [want[vname]]
            ctx.ob("DISPATCH", "%s|%s" % (name, vname), ok, fa.loc(tgt),
                   "%s of a %s word is looked up in %s" % (name, vname, want[vname]) if ok else
                   "%s of a %s word is looked up in %s (expected %s): features/costs of another "
                   "lexicon would be reported" % (name, vname, comps, want[vname]))
    # lexicon type tags
    def const_variant(fa, S, op):
        e = S.operand(op)
        if e[0] == "agg" and isinstance(e[1], str) and "LexType::" in e[1]:
            return e[1].rsplit("::", 1)[-1]
        return show(e)

    checks = [
        ("vibrato::dictionary::builder::SystemDictionaryBuilder::build", "from_entries", 1, "System",
         "the system lexicon is tagged LexType::System"),
        ("vibrato::dictionary::Dictionary::reset_user_lexicon_from_reader", "from_reader", 1, "User",
         "the user lexicon is tagged LexType::User"),
        ("vibrato::dictionary::unknown::UnkWord::word_idx", "new", 0, "Unknown",
         "unknown words are tagged LexType::Unknown"),
    ]
    for p, callee, argi, want_v, text in checks:
        fa = E.fa(p)
        S = Sym(E, fa)
        cs = calls_named(fa, callee)
        got = [const_variant(fa, S, t["args"][argi]) for b, t in cs if len(t["args"]) > argi]
        ok = got == [want_v]
        ctx.ob("DISPATCH", "tag|%s" % p.split("::")[-2] + "::" + p.split("::")[-1], ok,
               "%s:%s" % (crate.fns[p].file, crate.fns[p].line),
               text if ok else "%s passes %s to %s (expected LexType::%s): tokens would report "
               "the wrong lexicon type and be looked up in the wrong component"
               % (p.split("::")[-1], got, callee, want_v))
    # Lexicon::common_prefix_iterator: (lex_type, word_id) and params.get(word_id) share word_id
    cp = "vibrato::dictionary::lexicon::Lexicon::common_prefix_iterator::{closure#0}"
    fa = E.fa(cp)
    S = Sym(E, fa)
    news = calls_named(fa, "new")
    okp = False
    for b, t in news:
        c = callee_of(t)
        if "LexMatch" not in c["path"]:
            continue
        a = [S.operand(x) for x in t["args"]]
        # a[0] = WordIdx::new(self.lex_type, word_id) ; a[1] = params.get(from_u32(word_id))
        gets = [S.call(gb, gt) for gb, gt in calls_named(fa, "get")]
        if a[0][0] == "call" and short(a[0][1]) == "new" and len(gets) == 1:
            g = gets[0]
            wid1 = strip_casts(a[0][2][1])
            wid2 = strip_casts(g[2][1])
            lt_ok = a[0][2][0][0] == "ap" and a[0][2][0][1].proj[-1:] == ("lex_type",)
            # the parameter value handed to LexMatch::new is the result of that get()
            o = fa.origin(t["args"][1])
            from_get = (o[0] == "call" and o[1] == g[3]) or \
                (a[1][0] == "ap" and a[1][1].proj[-3:] == ("params", "params", "[]"))
            okp = wid1 == wid2 and lt_ok and from_get
    ctx.ob("PAIR", "Lexicon::common_prefix_iterator|idx-and-param-same-word_id", okp,
           "%s:%s" % (crate.fns[cp].file, crate.fns[cp].line),
           "a lexicon match pairs WordIdx(lexicon's own type, word_id) with params[word_id] of the "
           "same word_id" if okp else
           "a lexicon match pairs the word index and the parameters of different word ids")


def tokiter(ctx):
    """ITER (C01): TokenIter::next yields token(i) for every i in 0..num_tokens, each once, in
    order: the guard is `i < num_tokens()` (as a normalised linear inequality), the token is taken
    at the current counter, and the counter advances by exactly one on the yielding path only."""
    from r_cand import _lin
    from flow import bool_switch_targets
    crate = ctx.facts("A").lib
    E = Effects(crate)
    ps = [q for q, f in crate.fns.items() if f.body and "TokenIter" in q and q.endswith("::next")
          and f.j.get("impl_trait", "").endswith("Iterator")]
    if len(ps) != 1:
        raise EngineError("ITER: TokenIter::next not found (%d candidates)" % len(ps))
    p = ps[0]
    fa = E.fa(p)
    S = Sym(E, fa)
    loc = fn_loc(crate, p)
    tok_calls = [(b, t) for b, t in fa.calls() if any(strip_generics(x).endswith("Worker::token") or
                                                     x.endswith("::token") and "Worker" in x
                                                     for x in callee_paths(t))]
    if len(tok_calls) != 1:
        raise EngineError("ITER: TokenIter::next does not call Worker::token exactly once")
    tb, tt = tok_calls[0]
    idx = S.operand(tt["args"][1])
    it, ic = _lin(idx)
    ok_idx = ic == 0 and it.endswith(".i")
    # the dominating guard
    guard = None
    for b in sorted(fa.dominators().get(tb, ()), reverse=True):
        t = fa.term(b)
        if t["k"] != "switch":
            continue
        e = S.operand(t["op"])
        if e[0] == "binop" and e[1] in ("Lt", "Le", "Gt", "Ge", "Ne", "Eq"):
            guard = (b, e, t)
            break
    ok_guard, gtxt = False, "no comparison guards the yield"
    if guard is not None:
        b, e, t = guard
        f_t, t_t = bool_switch_targets(t)
        on_true = tb in fa.reachable(t_t, avoid={f_t})
        (lt, lc), (rt, rc) = _lin(e[2]), _lin(e[3])
        opn = e[1] if on_true else {"Lt": "Ge", "Le": "Gt", "Gt": "Le", "Ge": "Lt", "Ne": "Eq", "Eq": "Ne"}[e[1]]
        gtxt = "%s %s %s (yield on the %s edge)" % (show(e[2]), e[1], show(e[3]), "true" if on_true else "false")
        # normalise to  i - n < k  (k must be 0):   i + lc < n + rc  <=>  i - n < rc - lc
        if lt.endswith(".i") and "num_tokens" in rt:
            k = rc - lc if opn == "Lt" else rc - lc + 1 if opn == "Le" else None
            ok_guard = k == 0 or (opn == "Ne" and rc - lc == 0)
        elif rt.endswith(".i") and "num_tokens" in lt:
            # n + lc > i + rc  <=>  i - n < lc - rc
            k = lc - rc if opn == "Gt" else lc - rc + 1 if opn == "Ge" else None
            ok_guard = k == 0 or (opn == "Ne" and rc - lc == 0)
    ctx.ob("ITER", "%s|yields-every-index" % p, ok_idx and ok_guard, loc,
           "TokenIter::next yields token(self.i) while self.i < num_tokens()" if ok_idx and ok_guard else
           "TokenIter::next yields token(%s) under the guard %s: tokens are skipped, repeated or the "
           "last one is never produced" % (show(idx), gtxt))
    # the counter advances by one on the yielding path and nowhere else
    incs = []
    for b, i, s in fa.stmts():
        if "lhs" in s and s["lhs"]["p"] and s["lhs"]["p"][-1] != "*" and isinstance(s["lhs"]["p"][-1], dict) \
                and s["lhs"]["p"][-1].get("n") == "i":
            e = S.operand(s["rv"]["op"]) if s["rv"]["k"] == "use" else None
            incs.append((b, _lin(e) if e is not None else ("?", None)))
    ok_inc = len(incs) == 1 and incs[0][1][1] == 1 and incs[0][1][0].endswith(".i") and \
        (fa.dominates(tb, incs[0][0]) or fa.dominates(incs[0][0], tb)) and \
        (guard is not None and fa.dominates(guard[0], incs[0][0]))
    ctx.ob("ITER", "%s|advances-by-one" % p, ok_inc, loc,
           "the counter is advanced by exactly one on the yielding path" if ok_inc else
           "the iterator's counter is not advanced by exactly one per yielded token (%s)" % incs)
